"""C17 -- libcola: all-pairs shortest paths and the layout distance matrix.

The routines are interpreted *symbolically* on small multigraphs whose edge weights are positive symbols; every
comparison of path lengths becomes a sign atom, so the result of a routine is a decision tree whose leaves hold
the distance matrix as linear forms in the weights.  Each leaf is then compared with an independent
Bellman-Ford reference on every small integer weight assignment that satisfies the leaf's atoms (and the
leaves must partition those assignments).  Graph shapes: triangle, path + isolated node (unreachable sentinel),
parallel edges, self-loop, unit weights.  Subjects: floyd_warshall, johnsons, dijkstra (all sources), and
ConstrainedFDLayout::computePathLengths (scaling by the ideal edge length, sentinel kept, adjacency classes,
non-positive lengths replaced by 1).

Not decided: behaviour on large graphs beyond what the shapes exercise structurally; floating-point rounding of sums.
"""
import copy
import itertools
from fractions import Fraction

from ..facts import AnalysisBroken
from ..microai.interp import (Interp, Obj, Vec, Box, UNINIT, enumerate_paths, AssertFail, Thrown, Unsupported)
from ..microai.poly import Poly, to_poly

DBL_MAX = Fraction(2) ** 1023 * (2 - Fraction(1, 2 ** 52))

GRAPHS = [
    # name, n, edges, number of symbolic weights (None = unit weights, empty valarray)
    ("triangle", 3, [(0, 1), (1, 2), (0, 2)], 3),
    ("path+isolated", 4, [(0, 1), (1, 2)], 2),
    ("two single-edge components + isolated node", 5, [(0, 1), (3, 2)], 2),
    ("no edges", 3, [], 0),
    ("parallel-edges", 2, [(0, 1), (0, 1)], 2),
    ("parallel-reversed", 2, [(0, 1), (1, 0)], 2),
    ("parallel-interleaved", 3, [(0, 1), (2, 1), (0, 1)], 3),
    ("parallel-interleaved-reversed", 3, [(0, 1), (0, 2), (1, 0)], 3),
    ("self-loop", 2, [(0, 0), (0, 1)], 2),
    ("unit-weights", 4, [(0, 1), (1, 2), (2, 3), (0, 2)], None),
    ("square+chord", 4, [(0, 1), (1, 2), (2, 3), (3, 0), (0, 2)], None),
]
WNAMES = ["a", "b", "c", "d"]


def reference(n, edges, weights):
    INF = None
    D = [[(0 if i == j else INF) for j in range(n)] for i in range(n)]
    changed = True
    while changed:
        changed = False
        for (u, v), w in zip(edges, weights):
            for (x, y) in ((u, v), (v, u)):
                for s in range(n):
                    if D[s][x] is not None and (D[s][y] is None or D[s][x] + w < D[s][y]):
                        D[s][y] = D[s][x] + w
                        changed = True
    return D


def pair(a, b):
    return Obj("std::pair", {"first": a, "second": b})


def consistent(val, env):
    for k, v in val.items():
        pl = Poly({m: Fraction(c[0], c[1]) for m, c in k[1]})
        e = pl.eval_exact(env)
        if ((e > 0) - (e < 0)) != v:
            return False
    return True


def check_leaves(rows, n, edges, nw, extract, scale=Fraction(1)):
    """rows: decision tree leaves; returns (problem or None, leaves, feasible leaves, assignments)."""
    names = WNAMES[:nw] if nw else []
    assigns = list(itertools.product(range(1, 5), repeat=len(names))) if names else [()]
    covered = {a: 0 for a in assigns}
    feasible = 0
    problem = None
    for val, descr, out in rows:
        # path lengths are compared exactly: every branch condition is the sign of a form in the weights without constant term
        # (a constant term is an absolute tolerance: near-ties and graphs with tiny weights would get wrong distances)
        for k in val:
            const = [Fraction(c[0], c[1]) for m, c in k[1] if not m]
            big = [Fraction(c[0], c[1]) for m, c in k[1] if m]
            if const and const[0] != 0 and big and abs(const[0]) < Fraction(10) ** 300:
                pl = Poly({m: Fraction(c[0], c[1]) for m, c in k[1]})
                problem = problem or ("a branch compares path lengths with an absolute offset: sign of `%s` (a tolerance of %s): paths that "
                                      "differ by less, or graphs whose weights are that small, get wrong distances" % (pl, float(abs(const[0]) / max(abs(x) for x in big))))
        wit = [a for a in assigns if consistent(val, dict(zip(names, [Fraction(x) for x in a])))]
        if not wit:
            continue
        feasible += 1
        for a in wit:
            covered[a] += 1
            env = dict(zip(names, [Fraction(x) for x in a]))
            weights = [Fraction(x) for x in a] if names else [Fraction(1)] * len(edges)
            ref = reference(n, edges, weights)
            if out[0] != "ret":
                problem = problem or "%s with weights %s" % (out[1], dict(zip(names, a)))
                continue
            D = extract(out)
            for i in range(n):
                for j in range(n):
                    got = D[i][j]
                    got = to_poly(got).eval_exact(env) if got is not UNINIT else None
                    want = ref[i][j]
                    if want is None:
                        if got != DBL_MAX:
                            problem = problem or "D[%d][%d] = %s for an unreachable pair (weights %s): expected the sentinel DBL_MAX" % (i, j, got, dict(zip(names, a)))
                    elif got != want * scale:
                        problem = problem or "D[%d][%d] = %s, shortest path length is %s (weights %s)" % (i, j, got, want * scale, dict(zip(names, a)))
    for a, c in covered.items():
        if c != 1:
            problem = problem or "weights %s are covered by %d leaves of the decision tree" % (dict(zip(names, a)), c)
    return problem, len(rows), feasible, len(assigns)


def sym_weights(nw):
    return Vec([Poly.var(x) for x in WNAMES[:nw]], "double") if nw else Vec([], "double")


def rule_all_pairs(chk, prog):
    r = chk.rule("APSP-EXACT", "decision tree of floyd_warshall / johnsons / dijkstra (symbolic positive edge weights) equals Bellman-Ford on "
                 "every weight assignment in {1..4}^k satisfying a leaf, leaves partition the assignments; graphs: triangle, path+isolated "
                 "node, parallel edges, reversed parallel edges, self-loop, unit weights; zero diagonal, symmetry and the unreachable "
                 "sentinel are part of the comparison", floor=15)
    total_leaves = total_feasible = total_assign = 0
    for q in ("shortest_paths::floyd_warshall<double>", "shortest_paths::johnsons<double>"):
        fn = prog.fn(q)
        for gname, n, edges, nw in GRAPHS:
            es = Vec([pair(u, v) for u, v in edges], "std::pair<unsigned int, unsigned int>")
            ew = sym_weights(nw)

            def run(o, fn=fn, n=n, es=es, ew=ew, nw=nw):
                it = Interp(prog, o)
                it.positive = set(WNAMES[:nw or 0])
                it.bounded = set(WNAMES[:nw or 0])
                D = Vec([Vec([UNINIT] * n) for _ in range(n)])
                try:
                    it.call(fn, None, None, None, arg_values=[n, D, Box(copy.deepcopy(es)), Box(copy.deepcopy(ew))])
                    return ("ret", D)
                except AssertFail as e:
                    return ("assert", "assertion/null dereference: %s" % e)
                except Thrown as e:
                    return ("throw", str(e))
            try:
                rows = enumerate_paths(run, limit=20000)
            except Unsupported as e:
                raise AnalysisBroken("%s outside the interpreter subset: %s" % (q, e))
            prob, nl, nf, na = check_leaves(rows, n, edges, nw, lambda out: [r_.items for r_ in out[1].items])
            total_leaves += nl
            total_feasible += nf
            total_assign += na
            r.count(nf)
            inst = "%s on %s" % (q.split("::")[-1], gname)
            if prob:
                r.bad(inst, fn.where(), prob)
            else:
                r.ok(inst, fn.where(), "%d leaves, %d feasible, %d weight assignments" % (nl, nf, na))
    # single-source dijkstra from every source
    fn = prog.fn("shortest_paths::dijkstra<double>", sig="unsigned int,const unsigned int")
    for gname, n, edges, nw in GRAPHS:
        probs = None
        nf_total = 0
        for s in range(n):
            es = Vec([pair(u, v) for u, v in edges])
            ew = sym_weights(nw)

            def run(o, s=s, n=n, es=es, ew=ew, nw=nw):
                it = Interp(prog, o)
                it.positive = set(WNAMES[:nw or 0])
                it.bounded = set(WNAMES[:nw or 0])
                d = Vec([UNINIT] * n)
                try:
                    it.call(fn, None, None, None, arg_values=[s, n, d, Box(copy.deepcopy(es)), Box(copy.deepcopy(ew))])
                    return ("ret", d)
                except AssertFail as e:
                    return ("assert", "assertion/null dereference: %s" % e)
            try:
                rows = enumerate_paths(run, limit=20000)
            except Unsupported as e:
                raise AnalysisBroken("dijkstra outside the interpreter subset: %s" % e)

            def extract(out, s=s, n=n):
                # a row vector: put it in row s of a matrix whose other rows are the reference (only row s is checked)
                return None
            names = WNAMES[:nw] if nw else []
            assigns = list(itertools.product(range(1, 5), repeat=len(names))) if names else [()]
            cov = {a: 0 for a in assigns}
            for val, descr, out in rows:
                wit = [a for a in assigns if consistent(val, dict(zip(names, [Fraction(x) for x in a])))]
                if not wit:
                    continue
                nf_total += 1
                for a in wit:
                    cov[a] += 1
                    env = dict(zip(names, [Fraction(x) for x in a]))
                    weights = [Fraction(x) for x in a] if names else [Fraction(1)] * len(edges)
                    ref = reference(n, edges, weights)[s]
                    if out[0] != "ret":
                        probs = probs or "%s (source %d, weights %s)" % (out[1], s, dict(zip(names, a)))
                        continue
                    for j in range(n):
                        got = out[1].items[j]
                        got = to_poly(got).eval_exact(env) if got is not UNINIT else None
                        if (ref[j] is None and got != DBL_MAX) or (ref[j] is not None and got != ref[j]):
                            probs = probs or "d[%d] from source %d = %s, expected %s (weights %s)" % (j, s, got, ref[j], dict(zip(names, a)))
            for a, c in cov.items():
                if c != 1:
                    probs = probs or "weights %s covered by %d leaves (source %d)" % (a, c, s)
        r.count(nf_total)
        total_feasible += nf_total
        inst = "dijkstra on %s" % gname
        (r.bad if probs else r.ok)(inst, fn.where(), probs or "%d feasible leaves over %d sources" % (nf_total, n))
    chk.extra["decision_tree_leaves"] = total_leaves
    chk.extra["feasible_leaves"] = total_feasible
    chk.sample({"rule": "APSP-EXACT", "graph": "triangle", "weights": "a,b,c > 0 symbolic", "leaf_example": "a+b<c : D[0][2] = a+b"})


def rule_path_lengths(chk, prog):
    r = chk.rule("IDEAL-DISTANCES", "ConstrainedFDLayout::computePathLengths, symbolic: D[i][j] = idealEdgeLength * shortest path length, "
                 "unreachable pairs keep DBL_MAX and get G = 0, adjacent pairs G = 1, other reachable pairs G = 2, non-positive lengths are "
                 "replaced by 1 before use; D and G start uninitialised (as new[] leaves them) and every entry of G, the diagonal included (0), has a "
                 "defined value afterwards; D's diagonal is 0", floor=5)
    fn = prog.fn("cola::ConstrainedFDLayout::computePathLengths")
    L = Poly.var("L")
    cases = [
        ("triangle", 3, [(0, 1), (1, 2), (0, 2)], [Poly.var("a"), Poly.var("b"), Poly.var("c")], None),
        ("path+isolated", 4, [(0, 1), (1, 2)], [Poly.var("a"), Poly.var("b")], None),
        ("non-positive lengths", 3, [(0, 1), (1, 2)], [Fraction(0), Fraction(-3)], [Fraction(1), Fraction(1)]),
        ("no edges at all", 3, [], [], None),
        ("two single-edge components + isolated node", 5, [(0, 1), (3, 2)], [Poly.var("a"), Poly.var("b")], None),
    ]
    for gname, n, edges, lens, effective in cases:
        names = sorted({v for x in lens if isinstance(x, Poly) for v in x.vars()})

        def run(o, n=n, edges=edges, lens=lens, names=names):
            it = Interp(prog, o, hooks={"cola::TopologyAddonInterface::computePathLengths": lambda it_, nd, env: None})
            it.positive = set(names) | {"L"}
            it.bounded = set(names) | {"L"}
            this = Obj("cola::ConstrainedFDLayout", {
                "n": n, "D": Vec([Vec([UNINIT] * n) for _ in range(n)]), "G": Vec([Vec([UNINIT] * n) for _ in range(n)]),     # (new[] leaves both uninitialised)
                "m_idealEdgeLength": L, "minD": DBL_MAX, "topologyAddon": Obj("cola::TopologyAddonInterface", {})})
            es = Vec([pair(u, v) for u, v in edges])
            try:
                it.call(fn, this, None, None, arg_values=[Box(es), Vec(list(lens), "double")])
                return ("ret", this)
            except AssertFail as e:
                return ("assert", str(e))
        try:
            rows = enumerate_paths(run, limit=20000)
        except Unsupported as e:
            raise AnalysisBroken("computePathLengths outside the interpreter subset: %s" % e)
        assigns = list(itertools.product(range(1, 4), repeat=len(names) + 1))
        prob = None
        nf = 0
        cov = {a: 0 for a in assigns}
        for val, descr, out in rows:
            wit = [a for a in assigns if consistent(val, dict(zip(names + ["L"], [Fraction(x) for x in a])))]
            if not wit:
                continue
            nf += 1
            for a in wit:
                cov[a] += 1
                env = dict(zip(names + ["L"], [Fraction(x) for x in a]))
                if out[0] != "ret":
                    prob = prob or "assertion path %s" % out[1]
                    continue
                this = out[1]
                ws = effective if effective is not None else [to_poly(x).eval_exact(env) for x in lens]
                ref = reference(n, edges, ws)
                adj = set()
                for u, v in edges:
                    adj.add((u, v))
                    adj.add((v, u))
                for i in range(n):
                    for j in range(n):
                        got = this.f["D"].items[i].items[j]
                        g = this.f["G"].items[i].items[j]
                        if i == j:
                            if g is UNINIT or g != 0:
                                prob = prob or "G[%d][%d] is %s: the diagonal of the neighbour matrix (handed out by readLinearG) must be 0" % (
                                    i, j, "left uninitialised" if g is UNINIT else g)
                            if got is UNINIT or to_poly(got).eval_exact(env) != 0:
                                prob = prob or "D[%d][%d] is %s: the distance from a node to itself must be 0" % (
                                    i, j, "left uninitialised" if got is UNINIT else to_poly(got).eval_exact(env))
                            continue
                        gotv = to_poly(got).eval_exact(env) if got is not UNINIT else None
                        if ref[i][j] is None:
                            if gotv != DBL_MAX or g != 0:
                                prob = prob or "unreachable pair (%d,%d): D=%s G=%s (expected DBL_MAX, 0)" % (i, j, gotv, g)
                        else:
                            if gotv != ref[i][j] * env["L"]:
                                prob = prob or "D[%d][%d]=%s, expected idealEdgeLength*%s (lengths %s)" % (i, j, gotv, ref[i][j], ws)
                            wantg = 1 if (i, j) in adj else 2
                            if g != wantg:
                                prob = prob or "G[%d][%d]=%s, expected %d" % (i, j, g, wantg)
        for a, c in cov.items():
            if c != 1:
                prob = prob or "assignment %s covered by %d leaves" % (a, c)
        r.count(nf)
        (r.bad if prob else r.ok)("computePathLengths on %s" % gname, fn.where(), prob or "%d feasible leaves" % nf)


# functions of ConstrainedFDLayout that may do more than read single entries of D / G, and what they may do with them
_MATRIX_WRITERS = {
    "cola::ConstrainedFDLayout::ConstrainedFDLayout": {"allocate"},      # D = new double*[n]; D[i] = new double[n] (rows handed to nobody)
    "cola::ConstrainedFDLayout::~ConstrainedFDLayout": {"release"},
    "cola::ConstrainedFDLayout::computePathLengths": {"store", "alias", "escape"},   # johnsons(n, D, ...), double& d = D[i][j], G[u][v] = 1, addon
}


def rule_matrix_writers(chk, prog):
    """The matrices the layout works with are exactly what computePathLengths computed."""
    from ..cfg import CFG
    from ..astq import strip
    r = chk.rule("MATRIX-WRITERS", "the ideal-distance matrix D and the neighbour matrix G of ConstrainedFDLayout: every mention of the two members in "
                 "the five libraries is classified (read of one entry / allocation / release / store / reference alias / pointer handed to a "
                 "callee); only computePathLengths stores entries, binds references to them or hands rows to callees (the shortest-path "
                 "routine, the topology add-on), the constructors only allocate, the destructor only releases; every constructor reaches "
                 "computePathLengths on every path to its end -- no second producer of distances beside the one IDEAL-DISTANCES interprets", floor=12)
    targets = ("cola::ConstrainedFDLayout::D", "cola::ConstrainedFDLayout::G")
    n_mentions = 0
    for fn in prog.all_functions():
        for n in fn.nodes():
            if n.get("k") != "MemberExpr" or n.get("ref") not in targets:
                continue
            n_mentions += 1
            depth, cur, kind = 0, n, None
            for a in fn.ancestors(n):
                k = a.get("k")
                if k == "ParenExpr":
                    cur = a
                    continue
                if k == "ImplicitCastExpr":
                    if a.get("ck") == "LValueToRValue" and depth == 2:
                        kind = "read"
                        break
                    cur = a
                    continue
                if k == "ArraySubscriptExpr" and strip(a["ch"][0]) is strip(cur):
                    depth += 1
                    cur = a
                    continue
                if k in ("BinaryOperator", "CompoundAssignOperator") and a.get("op", "").endswith("=") and a.get("op") not in ("==", "!=", "<=", ">=") \
                        and strip(a["ch"][0]) is strip(cur):
                    rhs_new = strip(a["ch"][1]) is not None and strip(a["ch"][1]).get("k") == "CXXNewExpr"
                    kind = "allocate" if depth < 2 and rhs_new and a.get("op") == "=" else "store"
                    break
                if k == "UnaryOperator" and a.get("op") in ("++", "--"):
                    kind = "store"
                    break
                if k == "CXXDeleteExpr":
                    kind = "release"
                    break
                if k == "VarDecl":
                    kind = "alias" if "&" in a.get("t", "") or "*" in a.get("t", "") else "read"
                    break
                if "callee" in a or k in ("CallExpr", "CXXMemberCallExpr", "CXXConstructExpr", "ReturnStmt", "UnaryOperator"):
                    kind = "escape"
                    break
                if k in ("BinaryOperator",) and depth == 2:
                    kind = "read"
                    break
                kind = "escape"
                break
            kind = kind or "escape"
            r.count()
            allowed = _MATRIX_WRITERS.get(fn.q, set()) | {"read"}
            if kind in allowed:
                r.ok("%s in %s" % (n["ref"].split("::")[-1], fn.q), fn.loc(n), kind)
            else:
                r.bad("%s in %s" % (n["ref"].split("::")[-1], fn.q), fn.loc(n),
                      "%s outside computePathLengths (%s): the layout may work with entries that the all-pairs routine did not produce" % (
                          {"store": "an entry of the matrix is stored", "alias": "a reference / pointer to entries of the matrix is taken",
                           "escape": "the matrix or one of its rows is handed on", "allocate": "storage for the matrix is allocated",
                           "release": "storage of the matrix is released"}[kind], kind))
    ctors = prog.fns("cola::ConstrainedFDLayout::ConstrainedFDLayout")
    if not ctors:
        raise AnalysisBroken("no ConstrainedFDLayout constructor found")
    for c in ctors:
        if not c.body:
            continue
        g = CFG(c)
        cs = [x for x in c.nodes() if x.get("cname") == "cola::ConstrainedFDLayout::computePathLengths"]
        r.count()
        esc = g.exit_reachable_avoiding([x["id"] for x in cs]) if cs else "no call"
        (r.ok if cs and esc is None else r.bad)("constructor reaches computePathLengths", c.where(), "" if cs and esc is None else
                                                "a path through the constructor ends without computePathLengths (%s): D and G are whatever that path left" % (esc,))


def rule_neighbour_matrix(chk, prog):
    from ..microai.interp import Oracle, default_obj
    r = chk.rule("NEIGHBOUR-FLAGS", "ConstrainedFDLayout::computeNeighbours interpreted on multigraphs (parallel edges in both orientations, a "
                 "self-loop, an isolated node): every entry of `neighbours` is 0 or 1, and 1 exactly for the adjacent pairs -- the stress and "
                 "force loops skip a pair unless its entry EQUALS 1, so an edge count would drop every doubled edge from the neighbour stress", floor=2)
    fn = prog.fn("cola::ConstrainedFDLayout::computeNeighbours")
    cases = [("doubled and reversed edges, self-loop", 4, [(0, 1), (1, 0), (0, 1), (2, 2), (1, 3)]),
             ("path and an isolated node", 4, [(0, 1), (1, 2)])]
    for name, n, edges in cases:
        r.count()
        this = default_obj(prog, "cola::ConstrainedFDLayout", {"n": n, "neighbours": Vec([], "std::vector<unsigned int>")})
        it = Interp(prog, Oracle([]), max_steps=200000)
        bad = None
        try:
            it.call(fn, this, None, None, arg_values=[Vec([pair(u, v) for u, v in edges], "std::pair<unsigned int, unsigned int>")])
        except Unsupported as e:
            raise AnalysisBroken("computeNeighbours outside the interpreter subset: %s" % e)
        except AssertFail as e:
            bad = "assertion fails: %s" % e
        if not bad:
            rows = this.f["neighbours"].items
            adj = {(u, v) for u, v in edges} | {(v, u) for u, v in edges}
            if len(rows) != n or any(len(row.items) != n for row in rows):
                bad = "the matrix is not %d x %d" % (n, n)
            else:
                for i in range(n):
                    for j in range(n):
                        want = 1 if (i, j) in adj else 0
                        if rows[i].items[j] != want:
                            bad = bad or "neighbours[%d][%d] is %s, expected %d" % (i, j, rows[i].items[j], want)
        (r.bad if bad else r.ok)("computeNeighbours on %s" % name, fn.where(), bad or "")
    # the readers compare with 1
    readers = 0
    for f in prog.all_functions():
        if not f.q.startswith("cola::ConstrainedFDLayout::"):
            continue
        for nd in f.nodes():
            if nd.get("k") == "BinaryOperator" and nd.get("op") in ("!=", "==") and "neighbours[" in norm_(nd):
                readers += 1
    if readers < 2:
        raise AnalysisBroken("the readers of `neighbours` (comparisons with 1) were not found")


def norm_(n):
    from ..astq import norm
    return norm(n)


def rule_majorization_lengths(chk, prog):
    from ..astq import calls, call_args
    from ..facts import walk
    from ..microai.interp import Oracle, default_obj
    r = chk.rule("MAJORIZATION-LENGTHS", "ConstrainedMajorizationLayout's constructor, the statements from the declaration of the length array it "
                 "hands to shortest_paths::johnsons up to that call, interpreted as a fragment with the caller's lengths (2, 0, -3) on a "
                 "triangle: the array the all-pairs routine receives is (2, 1, 1) -- non-positive lengths replaced by 1 IN the array that is "
                 "used -- and with neighbour stress the entries of D for the three edges are the same corrected lengths", floor=2)
    fns = [f for f in prog.fns("cola::ConstrainedMajorizationLayout::ConstrainedMajorizationLayout") if f.body]
    if len(fns) != 1:
        raise AnalysisBroken("ConstrainedMajorizationLayout constructor not found")
    fn = fns[0]
    js = [c for c in calls(fn) if (c.get("cname") or "").startswith("shortest_paths::johnsons")]
    if len(js) != 1:
        raise AnalysisBroken("the call of shortest_paths::johnsons in the constructor was not found")
    tops = fn.body["ch"]
    idx = [i for i, t in enumerate(tops) if any(x is js[0] for x in walk(t))]
    refs = [x for x in walk(call_args(js[0])[3]) if x.get("k") == "DeclRefExpr"]
    if not idx or not refs:
        raise AnalysisBroken("johnsons call: statement / length argument not found")
    di = [i for i, t in enumerate(tops) if t.get("k") == "DeclStmt" and any(x.get("k") == "VarDecl" and x.get("did") == refs[0].get("did") for x in walk(t))]
    if len(fn.params) < 8 or "Edge" not in fn.params[1].get("t", "") and "pair" not in fn.params[1].get("t", ""):
        raise AnalysisBroken("constructor signature changed: %s" % [p_.get("t") for p_ in fn.params])
    # by position (rs, es, clusterHierarchy, idealLength, eLengths, doneTest, preIteration, useNeighbourStress), whatever they are called
    pd = {"es": fn.params[1]["did"], "eLengths": fn.params[4]["did"], "useNeighbourStress": fn.params[7]["did"]}
    start = di[0] if di else 0            # (a parameter handed on directly: start at the top of the fragment that mentions it)
    if not di:
        ment = [i for i, t in enumerate(tops) if any(x.get("k") == "DeclRefExpr" and x.get("did") == refs[0].get("did") for x in walk(t))]
        start = ment[0]
    drefs = [x for x in walk(call_args(js[0])[1]) if x.get("k") == "DeclRefExpr"]
    dd = [d for d in fn.nodes() if d.get("k") == "VarDecl" and drefs and d.get("did") == drefs[0].get("did")]
    if not dd:
        raise AnalysisBroken("the local distance matrix handed to johnsons was not found")
    F = Fraction
    edges = [(0, 1), (1, 2), (0, 2)]
    for stress in (False, True):
        r.count()
        got = {}

        def hook(it_, n, env):
            got["lens"] = [x for x in it_.ev(call_args(n)[3], env).items]
            return None
        it = Interp(prog, Oracle([]), hooks={js[0]["cname"]: hook, "fprintf": lambda it_, n, env: None}, max_steps=200000)
        D = Vec([Vec([F(0)] * 3) for _ in range(3)])
        env = {pd["eLengths"]: Box(Vec([F(2), F(0), F(-3)], "double")),
               pd["es"]: Box(Vec([pair(u, v) for u, v in edges], "std::pair<unsigned int, unsigned int>")),
               pd["useNeighbourStress"]: Box(stress), "this": default_obj(prog, "cola::ConstrainedMajorizationLayout", {"n": 3}),
               dd[0]["did"]: Box(D)}
        bad = None
        try:
            for t in tops[start:idx[0] + 1]:
                it.ex(t, env)
        except Unsupported as e:
            raise AnalysisBroken("constructor fragment outside the interpreter subset: %s" % e)
        except AssertFail as e:
            bad = "assertion fails: %s" % e
        want = [F(2), F(1), F(1)]
        if not bad and not stress:
            if "lens" not in got:
                bad = "johnsons is not reached without neighbour stress"
            elif [F(x) for x in got["lens"]] != want:
                bad = "johnsons receives the lengths %s for the caller's (2, 0, -3); expected (2, 1, 1)" % ([str(x) for x in got["lens"]],)
        if not bad and stress:
            for (u, v), w in zip(edges, want):
                for a, b in ((u, v), (v, u)):
                    if F(D.items[a].items[b]) != w:
                        bad = bad or "with neighbour stress D[%d][%d] = %s, expected the corrected length %s" % (a, b, D.items[a].items[b], w)
        (r.bad if bad else r.ok)("lengths (2, 0, -3), %s" % ("neighbour stress" if stress else "all-pairs"), fn.loc(js[0]), bad or "")


def rule_apsp_pure(chk, prog):
    r = chk.rule("APSP-PURE", "the routines of namespace shortest_paths keep nothing between calls: no function-static local (a cache of the "
                 "adjacency lists keyed by the address of the edge vector answers a second call, with other weights in the same vector, "
                 "from the previous graph) and no store to a namespace-scope variable", floor=5)
    for f in prog.all_functions():
        if not f.body or not f.q.startswith("shortest_paths::") or f.tmpl == "pattern":
            continue
        r.count()
        st = [d for d in f.nodes() if d.get("k") == "VarDecl" and d.get("static") and not str(d.get("t", "")).startswith("const ")]
        (r.bad if st else r.ok)(f.q, f.where(), "" if not st else "static local `%s` survives between calls" % st[0].get("name"))


def rule_ideal_length_untouched(chk, prog):
    from ..astq import writes, written_field, norm
    r = chk.rule("IDEAL-LENGTH-AS-GIVEN", "ConstrainedFDLayout::m_idealEdgeLength -- the factor IDEAL-DISTANCES multiplies every path length by -- is the "
                 "constructor's idealLength parameter, unchanged: every constructor initialises the member from that parameter alone and "
                 "no function of the five libraries stores to it afterwards (the documented clamp concerns non-positive EDGE lengths, not the "
                 "ideal length: 0 < idealLength < 1 is a valid scale)", floor=1)
    fld = "cola::ConstrainedFDLayout::m_idealEdgeLength"
    ctors = [c for c in prog.fns("cola::ConstrainedFDLayout::ConstrainedFDLayout") if c.body is not None]
    if not ctors:
        raise AnalysisBroken("no ConstrainedFDLayout constructor found")
    for c in ctors:
        r.count()
        ini = [i for i in c.d.get("inits", []) if i.get("mq") == fld]
        pnames = {p_["name"] for p_ in c.params if "double" in p_.get("t", "")}
        bad = None
        if len(ini) != 1 or ini[0].get("expr") is None:
            bad = "the member is not set in the constructor's initialiser list"
        elif norm(ini[0]["expr"]) not in pnames:
            bad = "the member is initialised with `%s`, not with the constructor's ideal-length parameter" % norm(ini[0]["expr"])
        (r.bad if bad else r.ok)("initialiser in %s" % c.key[:60], c.where(), bad or "")
    for f in prog.all_functions():
        if not f.body or "/tests/" in f.file:
            continue
        for lhs, node, op in writes(f):
            if written_field(lhs)[0] == fld:
                r.count()
                r.bad("store in %s" % f.q, f.loc(node), "m_idealEdgeLength is modified after construction: the exposed matrix is no longer idealLength times the path lengths")


def run(chk):
    prog = chk.load()
    chk.guard(rule_ideal_length_untouched, chk, prog)
    chk.guard(rule_apsp_pure, chk, prog)
    chk.guard(rule_neighbour_matrix, chk, prog)
    chk.guard(rule_majorization_lengths, chk, prog)
    chk.guard(rule_all_pairs, chk, prog)
    chk.guard(rule_path_lengths, chk, prog)
    chk.guard(rule_matrix_writers, chk, prog)
