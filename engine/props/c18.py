"""C18 -- libdialect: constraint transforms commute with geometry; enum tables; flipped retrieval.

Decides (symbolic / finite-table interpretation of the syntax tree, plus CFG rules):
  TRANSFORM-MATRIX  each SepTransform case of SepPair::transform is a signed permutation of (xgap,ygap) with the gap/sep types
                    swapped iff the axes swap, equal to the documented geometric map; for the three rotations equal to the map
                    the Graph applies to node centres and the Edge applies to route points under the same transform
  GROUP-LAWS        the extracted transforms compose like the symmetry group of the square
  DIR-COMMUTE       addSep(dir, g) followed by transform(T)  ==  addSep(T(dir), g)   for all 8 directions x 7 transforms
  ENUM-TABLES       negateSepDir is a fixed-point-free involution E<->W N<->S R<->L U<->D; weakening/strengthening and
                    SepDir<->CardinalDir conversions are mutually inverse; no assertion reachable on valid enumerators
  NEG-ZERO          gaps are negated only with unary minus (0 - g or g * -1 would lose the sign of a zero gap)
  FLIPPED-RETRIEVAL the deep-layer methods getSepPair / checkSepPair store `flippedRetrieval` on every path that returns a pair,
                    with the value of `id2 < id1`; only they write it; readers take the pair from them in the same call and negate
                    exactly the gaps under it
Not decided: textual round trip of floating-point values / whole graphs through TGLF.
"""
import copy
import re
from fractions import Fraction

from ..astq import strip, strip_casts, calls, call_args, writes, written_field, norm, literal_value, src, single_assignment_locals, call_object
from ..cfg import CFG
from ..facts import AnalysisBroken, walk
from ..microai.interp import Interp, Obj, Vec, Box, Closure, enumerate_paths, AssertFail, Thrown, Unsupported
from ..microai.poly import Poly, to_poly

X, Y = Poly.var("X"), Poly.var("Y")


def enum_vals(prog, q):
    e = prog.enums.get(q)
    if e is None:
        raise AnalysisBroken("enum %s not found" % q)
    return {x["name"]: int(x["v"]) for x in e["enumerators"]}


PROG = [None]


def sym_pair(xgt, ygt, xst, yst, xgap=X, ygap=Y):
    from ..microai.interp import default_obj
    mk = (lambda c, f: default_obj(PROG[0], c, f)) if PROG[0] is not None else Obj
    return mk("dialect::SepPair", {"src": 0, "tgt": 1, "xgt": xgt, "ygt": ygt, "xst": xst, "yst": yst, "xgap": xgap, "ygap": ygap,
                                    "tglfPrecision": 3, "flippedRetrieval": False})


def run1(prog, fn, this, args, hooks=None):
    """Single-path interpretation (no symbolic branching expected)."""
    def run(o):
        it = Interp(prog, o, lattice=False, hooks=hooks)
        t, a = copy.deepcopy((this, args))
        try:
            return ("ret", it.call(fn, t, None, None, arg_values=a), t, a)
        except AssertFail as e:
            return ("assert", str(e), t, a)
        except Thrown as e:
            return ("throw", str(e), t, a)
    rows = enumerate_paths(run, limit=64)
    return rows


def state(p):
    return (p.f["xgt"], p.f["ygt"], p.f["xst"], p.f["yst"], to_poly(p.f["xgap"]), to_poly(p.f["ygap"]))


# documented geometric meaning of each transform as a matrix on column vectors (x, y), y pointing down
GEOM = {
    "ROTATE90CW": ((0, -1), (1, 0)),     # (x,y) -> (-y, x)
    "ROTATE90ACW": ((0, 1), (-1, 0)),    # (x,y) -> ( y,-x)
    "ROTATE180": ((-1, 0), (0, -1)),
    "FLIPV": ((-1, 0), (0, 1)),          # flip over the vertical axis
    "FLIPH": ((1, 0), (0, -1)),          # flip over the horizontal axis
    "FLIPMD": ((0, 1), (1, 0)),          # flip over the main diagonal y = x
    "FLIPOD": ((0, -1), (-1, 0)),        # flip over the off diagonal y = -x
}


def mat_apply(m, x, y):
    return (m[0][0] * x + m[0][1] * y, m[1][0] * x + m[1][1] * y)


def mat_mul(a, b):
    return tuple(tuple(sum(a[i][k] * b[k][j] for k in range(2)) for j in range(2)) for i in range(2))


def extract_transform(prog, fn, tfv, GT, ST):
    """Interpret SepPair::transform(tf) for all type combinations; return (matrix, swaps_types) or raise."""
    mats = set()
    swaps = set()
    n = 0
    for xgt in GT.values():
        for ygt in GT.values():
            for xst in ST.values():
                for yst in ST.values():
                    rows = run1(prog, fn, sym_pair(xgt, ygt, xst, yst), [tfv])
                    n += len(rows)
                    if len(rows) != 1 or rows[0][2][0] != "ret":
                        return None, None, n, "transform is not straight-line for (xgt=%s,ygt=%s,xst=%s,yst=%s): %s" % (
                            xgt, ygt, xst, yst, [r[2][:2] for r in rows])
                    p = rows[0][2][2]
                    a, b, c, d, gx, gy = state(p)
                    # gaps must be linear in X, Y
                    def coeffs(pl):
                        cx = pl.t.get((("X", 1),), Fraction(0))
                        cy = pl.t.get((("Y", 1),), Fraction(0))
                        if pl != cx * X + cy * Y:
                            return None
                        return (int(cx), int(cy)) if cx.denominator == 1 and cy.denominator == 1 else None
                    r0, r1 = coeffs(gx), coeffs(gy)
                    if r0 is None or r1 is None:
                        return None, None, n, "gaps after transform are not a linear map of (xgap, ygap): %r, %r" % (gx, gy)
                    mats.add((r0, r1))
                    if (a, b, c, d) == (xgt, ygt, xst, yst):
                        sw = False
                    elif (a, b, c, d) == (ygt, xgt, yst, xst):
                        sw = True
                    else:
                        return None, None, n, "gap/sep types after transform are neither kept nor swapped"
                    if (xgt, xst) != (ygt, yst):
                        swaps.add(sw)
    if len(mats) != 1:
        return None, None, n, "the gap map depends on the gap/sep types: %s" % sorted(mats)
    if len(swaps) != 1:
        return None, None, n, "type swapping is inconsistent"
    return mats.pop(), swaps.pop(), n, None


def closure_matrix(prog, clo, inplace):
    """Matrix of a PlaneMap / InplacePlaneMap lambda on a symbolic point."""
    it = Interp(prog, type("O", (), {"choose": lambda *a, **k: (_ for _ in ()).throw(Unsupported("branch in plane map"))})())
    pt = Obj("Avoid::Point", {"x": X, "y": Y, "id": 0, "vn": 8})
    if inplace:
        it.call_closure(clo, [Box(pt)])
        res = pt
    else:
        res = it.call_closure(clo, [Box(pt)])
    out = []
    for c in ("x", "y"):
        pl = to_poly(res.f[c])
        cx = pl.t.get((("X", 1),), Fraction(0))
        cy = pl.t.get((("Y", 1),), Fraction(0))
        if pl != cx * X + cy * Y:
            raise Unsupported("plane map is not linear")
        out.append((int(cx), int(cy)))
    return tuple(out)


def rotation_args(prog, fq, callee_suffix):
    """(fromDir, toDir) enumerator values passed to Compass::get*RotationFunction in function fq."""
    fn = prog.fn(fq)
    for n in calls(fn):
        if n.get("cname", "").endswith(callee_suffix):
            a = [strip_casts(x) for x in call_args(n)]
            if len(a) == 2 and all(x.get("rk") == "EnumConstant" for x in a):
                return int(a[0]["ev"]), int(a[1]["ev"]), fn
    raise AnalysisBroken("%s does not call %s with two enumerators" % (fq, callee_suffix))


def sep_transform_used(prog, fq):
    fn = prog.fn(fq)
    for n in fn.nodes():
        if n.get("k") == "DeclRefExpr" and n.get("rk") == "EnumConstant" and n.get("ref", "").startswith("dialect::SepTransform::"):
            return n["ref"].split("::")[-1]
    raise AnalysisBroken("%s names no SepTransform" % fq)


def rule_transform(chk, prog):
    GT = enum_vals(prog, "dialect::GapType")
    ST = enum_vals(prog, "dialect::SepType")
    TF = enum_vals(prog, "dialect::SepTransform")
    fn = prog.fn("dialect::SepPair::transform")
    r = chk.rule("TRANSFORM-MATRIX", "SepPair::transform(T): (xgap,ygap) -> M_T (xgap,ygap) with M_T the documented geometric matrix of T, "
                 "independent of the types; gap/sep types swap iff M_T swaps the axes; for rotations M_T equals the node-centre map "
                 "(Compass::getRotationFunction) and the route-point map (getInplaceRotationFunction) the Graph/Edge use with T", floor=7)
    extracted = {}
    if set(TF) != set(GEOM):
        r.bad("SepTransform", fn.where(), "enumerators %s differ from the documented set %s" % (sorted(TF), sorted(GEOM)))
    for name, v in sorted(TF.items(), key=lambda kv: kv[1]):
        try:
            m, sw, n, err = extract_transform(prog, fn, v, GT, ST)
        except Unsupported as e:
            raise AnalysisBroken("SepPair::transform outside the interpreter subset: %s" % e)
        r.count(n)
        if err:
            r.bad(name, fn.where(), err)
            continue
        extracted[name] = m
        want = GEOM.get(name)
        if want is None:
            continue
        if m != want:
            r.bad(name, fn.where(), "gap map is %s, the geometric map of %s is %s" % (m, name, want))
        elif sw != (want[0][0] == 0):
            r.bad(name, fn.where(), "gap/sep types are %sswapped although the axes are%s swapped" % ("" if sw else "not ", "" if want[0][0] == 0 else " not"))
        else:
            r.ok(name, fn.where(), "matrix %s, types %s" % (m, "swapped" if sw else "kept"))
    chk.sample({"rule": "TRANSFORM-MATRIX", "extracted": {k: v for k, v in extracted.items()}})
    # geometry the graph applies with the same transform
    grf = prog.fn("dialect::Compass::getRotationFunction")
    girf = prog.fn("dialect::Compass::getInplaceRotationFunction")
    for gq, eq in (("dialect::Graph::rotate90cw", "dialect::Edge::rotate90cw"), ("dialect::Graph::rotate90acw", "dialect::Edge::rotate90acw"),
                   ("dialect::Graph::rotate180", "dialect::Edge::rotate180")):
        tname = sep_transform_used(prog, gq)
        a, b, gfn = rotation_args(prog, gq, "Compass::getRotationFunction")
        ea, eb, efn = rotation_args(prog, eq, "Compass::getInplaceRotationFunction")
        try:
            clo = run1(prog, grf, None, [a, b])[0][2][1]
            clo2 = run1(prog, girf, None, [ea, eb])[0][2][1]
            nm = closure_matrix(prog, clo, False)
            em = closure_matrix(prog, clo2, True)
        except (Unsupported, IndexError, AttributeError) as e:
            raise AnalysisBroken("rotation functions outside the interpreter subset: %s" % e)
        inst = "%s ~ %s" % (gq.split("::")[-1], tname)
        r.count()
        if extracted.get(tname) is None:
            continue
        if nm != extracted[tname]:
            r.bad(inst, gfn.where(), "node centres are mapped by %s but constraints by %s (%s)" % (nm, extracted[tname], tname))
        elif em != extracted[tname]:
            r.bad(inst, efn.where(), "edge routes are mapped by %s but constraints by %s (%s)" % (em, extracted[tname], tname))
        else:
            r.ok(inst, gfn.where(), "nodes, routes and constraints all use %s" % (nm,))
    return extracted, TF, GT, ST


def rule_group(chk, prog, extracted):
    r = chk.rule("GROUP-LAWS", "the extracted gap maps are closed under composition and satisfy CW^4 = I, CW.ACW = I, 180 = CW^2, flip^2 = I, "
                 "FLIPMD = CW.FLIPH ... (multiplication table of the dihedral group of order 8)", floor=8)
    I = ((1, 0), (0, 1))
    els = dict(extracted)
    els["ID"] = I
    laws = [("CW^4=I", ["ROTATE90CW"] * 4, I), ("ACW^4=I", ["ROTATE90ACW"] * 4, I), ("CW.ACW=I", ["ROTATE90CW", "ROTATE90ACW"], I),
            ("CW^2=180", ["ROTATE90CW", "ROTATE90CW"], els.get("ROTATE180")), ("FLIPV^2=I", ["FLIPV"] * 2, I), ("FLIPH^2=I", ["FLIPH"] * 2, I),
            ("FLIPMD^2=I", ["FLIPMD"] * 2, I), ("FLIPOD^2=I", ["FLIPOD"] * 2, I), ("FLIPV.FLIPH=180", ["FLIPV", "FLIPH"], els.get("ROTATE180")),
            ("FLIPMD.FLIPOD=180", ["FLIPMD", "FLIPOD"], els.get("ROTATE180"))]
    for name, seq, want in laws:
        if any(s not in els for s in seq) or want is None:
            continue
        m = I
        for s in seq:
            m = mat_mul(els[s], m)
        r.count()
        if m == want:
            r.ok(name, "", "")
        else:
            r.bad(name, "cola/libdialect/constraints.cpp", "composition gives %s, expected %s" % (m, want))
    allm = set(els.values())
    closed = all(mat_mul(a, b) in allm for a in allm for b in allm)
    if closed and len(allm) == 8:
        r.ok("closure", "", "8 distinct elements closed under composition")
    else:
        r.bad("closure", "cola/libdialect/constraints.cpp", "the %d extracted maps are not a group of order 8" % len(allm))


DIRVEC = {"EAST": (1, 0), "SOUTH": (0, 1), "WEST": (-1, 0), "NORTH": (0, -1), "RIGHT": (1, 0), "DOWN": (0, 1), "LEFT": (-1, 0), "UP": (0, -1)}
CARD = ("EAST", "SOUTH", "WEST", "NORTH")
LAT = ("RIGHT", "DOWN", "LEFT", "UP")


def rule_dir_commute(chk, prog, extracted, TF, GT, ST):
    SD = enum_vals(prog, "dialect::SepDir")
    add = prog.fn("dialect::SepPair::addSep")
    tr = prog.fn("dialect::SepPair::transform")
    r = chk.rule("DIR-COMMUTE", "for every direction d (8), transform T (7), gap type (2), sep type EQ/INEQ: starting from an empty pair, "
                 "addSep(gt, d, st, g); transform(T)  yields the same pair as  addSep(gt, T(d), st, g), where T(d) is the direction whose "
                 "unit vector is M_T applied to the unit vector of d (symbolic g)", floor=50)
    g = Poly.var("g")
    byvec = {}
    for nm, v in DIRVEC.items():
        byvec[(v, nm in CARD)] = nm
    nbad = 0
    for dname, dv in sorted(SD.items(), key=lambda kv: kv[1]):
        for tname, tv in sorted(TF.items(), key=lambda kv: kv[1]):
            m = extracted.get(tname)
            if m is None:
                continue
            img = mat_apply(m, *DIRVEC[dname])
            d2 = byvec[(img, dname in CARD)]
            bad = None
            for gt in GT.values():
                for st in (ST["EQ"], ST["INEQ"]):
                    empty = sym_pair(GT["CENTRE"], GT["CENTRE"], ST["NONE"], ST["NONE"], Fraction(0), Fraction(0))
                    r1 = run1(prog, add, empty, [gt, dv, st, g])
                    if len(r1) != 1 or r1[0][2][0] != "ret":
                        bad = "addSep not straight-line"
                        continue
                    p1 = r1[0][2][2]
                    r2 = run1(prog, tr, p1, [tv])
                    p2 = r2[0][2][2]
                    r3 = run1(prog, add, empty, [gt, SD[d2], st, g])
                    p3 = r3[0][2][2]
                    r.count()
                    if state(p2) != state(p3):
                        bad = "addSep(%s,g) then %s gives %s, but addSep(%s,g) gives %s" % (dname, tname, state(p2), d2, state(p3))
            inst = "%s/%s" % (dname, tname)
            if bad:
                nbad += 1
                r.bad(inst, add.where(), bad)
            else:
                r.ok(inst, add.where(), "-> %s" % d2)
    chk.sample({"rule": "DIR-COMMUTE", "case": "addSep(EAST,g); ROTATE90CW == addSep(SOUTH,g)"})


def rule_addsep_sequence(chk, prog, GT, ST):
    """SepMatrix::addSep's contract: a later separation overwrites what it conflicts with and leaves the rest intact."""
    from ..microai.interp import Oracle
    SD = enum_vals(prog, "dialect::SepDir")
    add = prog.fn("dialect::SepPair::addSep")
    r = chk.rule("ADDSEP-SEQUENCE", "SepPair::addSep interpreted on every ordered pair of calls over 8 directions x {EQ, INEQ} x {CENTRE, BDRY} x gaps "
                 "{-7, 5, 20} on one pair of nodes: the second call fixes the component(s) of its direction exactly as it would on an empty "
                 "pair -- whatever the first call stored, larger, smaller or of opposite sign -- and leaves the other component as the first "
                 "call left it (constraints.h: `overwrites anything with which it is in conflict, but leaves everything else intact`); a negative "
                 "gap is how SepMatrix states the reversed constraint for ids given in descending order", floor=8)
    calls_ = [(d, st, gt, Fraction(g)) for d in SD for st in ("EQ", "INEQ") for gt in ("CENTRE", "BDRY") for g in (-7, 5, 20)]

    def apply(pair, c):
        it = Interp(prog, Oracle([]), lattice=False)
        it.call(add, pair, None, None, arg_values=[GT[c[2]], SD[c[0]], ST[c[1]], c[3]])
        return pair
    single = {}
    for c in calls_:
        e = sym_pair(GT["CENTRE"], GT["CENTRE"], ST["NONE"], ST["NONE"], Fraction(0), Fraction(0))
        try:
            single[c] = state(apply(e, c))
        except (Unsupported, AssertFail) as ex:
            raise AnalysisBroken("SepPair::addSep outside the interpreter subset: %s" % ex)
    touches = {"EAST": "xy", "WEST": "xy", "SOUTH": "xy", "NORTH": "xy", "RIGHT": "x", "LEFT": "x", "DOWN": "y", "UP": "y"}
    for d2 in SD:
        bad = None
        n = 0
        for c2 in [c for c in calls_ if c[0] == d2]:
            for c1 in calls_:
                e = sym_pair(GT["CENTRE"], GT["CENTRE"], ST["NONE"], ST["NONE"], Fraction(0), Fraction(0))
                got = state(apply(apply(e, c1), c2))
                s1, s2 = single[c1], single[c2]
                want = list(s1)
                if "x" in touches[d2]:
                    want[0], want[2], want[4] = s2[0], s2[2], s2[4]
                if "y" in touches[d2]:
                    want[1], want[3], want[5] = s2[1], s2[3], s2[5]
                n += 1
                if tuple(want) != got and bad is None:
                    bad = "after addSep%s then addSep%s the pair is %s, expected %s" % (c1, c2, got, tuple(want))
        r.count(n)
        (r.bad if bad else r.ok)("second call %s" % d2, add.where(), bad or "%d sequences" % n)


def rule_tglf_route_order(chk, prog):
    r = chk.rule("TGLF-ROUTE-ORDER", "dialect::buildGraphFromTglf hands the route points of a LINKS line to Edge::addRoutePoint in the order in which "
                 "they are read: the reader contains no reordering primitive (std::reverse / sort / rotate / swap, reverse iterators, push_front, "
                 "insert at begin()) -- Graph::writeTglf writes a route from its source end, and write -> read -> write must reproduce it", floor=2)
    fn = prog.fn("dialect::buildGraphFromTglf", sig="istream")
    adds = [c for c in calls(fn) if c.get("cname") == "dialect::Edge::addRoutePoint"]
    r.count()
    if not adds:
        r.bad("route points stored", fn.where(), "the reader no longer stores route points (Edge::addRoutePoint is not called)")
    else:
        r.ok("route points stored", fn.loc(adds[0]))
    reorder = []
    for c in calls(fn):
        cn = str(c.get("cname", ""))
        base = cn.split("<")[0]
        if base in ("std::reverse", "std::sort", "std::stable_sort", "std::rotate", "std::swap", "std::iter_swap", "std::reverse_copy", "std::partial_sort") \
                or re.search(r"::(rbegin|rend|crbegin|crend|push_front|emplace_front)$", base):
            reorder.append(c)
        elif re.search(r"::(insert|emplace)$", base) and any(".begin()" in norm(a) for a in call_args(c)[:1]):
            reorder.append(c)
    r.count()
    (r.ok if not reorder else r.bad)("no reordering in the reader", fn.loc(reorder[0]) if reorder else fn.where(), "" if not reorder else
                                     "%s is applied while a graph is read: route points (or other sequences of the file) can come out in another order "
                                     "than they were written" % str(reorder[0].get("cname")).split("<")[0])


def table_fn(prog, q, dom):
    fn = prog.fn(q)
    out = {}
    for nm, v in dom.items():
        rows = run1(prog, fn, None, [v])
        if len(rows) != 1:
            raise AnalysisBroken("%s is not a finite table" % q)
        out[nm] = rows[0][2][:2]
    return fn, out


def rule_enum_tables(chk, prog):
    SD = enum_vals(prog, "dialect::SepDir")
    CD = enum_vals(prog, "dialect::CardinalDir")
    inv = {v: k for k, v in SD.items()}
    cinv = {v: k for k, v in CD.items()}
    r = chk.rule("ENUM-TABLES", "finite tables over all enumerators: negateSepDir, lateralWeakening, cardinalStrengthening, "
                 "sepDirToCardinalDir, cardinalDirToSepDir, sepDirIsCardinal", floor=6)
    fn, neg = table_fn(prog, "dialect::negateSepDir", SD)
    want = {"EAST": "WEST", "WEST": "EAST", "NORTH": "SOUTH", "SOUTH": "NORTH", "RIGHT": "LEFT", "LEFT": "RIGHT", "UP": "DOWN", "DOWN": "UP"}
    bad = None
    for k, (kind, v) in neg.items():
        if kind != "ret":
            bad = "negateSepDir(%s) reaches an assertion" % k
        elif inv.get(v) != want[k]:
            bad = "negateSepDir(%s) = %s, expected %s" % (k, inv.get(v), want[k])
    r.count(len(neg))
    (r.bad if bad else r.ok)("negateSepDir", fn.where(), bad or "fixed-point-free involution")
    fn, weak = table_fn(prog, "dialect::lateralWeakening", SD)
    fn2, strong = table_fn(prog, "dialect::cardinalStrengthening", SD)
    pairs = dict(zip(CARD, LAT))
    bad = None
    for c, l in pairs.items():
        if weak[c] != ("ret", SD[l]) or strong[l] != ("ret", SD[c]):
            bad = "weakening(%s)=%s strengthening(%s)=%s" % (c, inv.get(weak[c][1]), l, inv.get(strong[l][1]))
        if weak[l] != ("ret", SD[l]) or strong[c] != ("ret", SD[c]):
            bad = "weakening/strengthening is not the identity on %s/%s" % (l, c)
    r.count(16)
    (r.bad if bad else r.ok)("lateralWeakening/cardinalStrengthening", fn.where(), bad or "mutually inverse on cardinals<->laterals")
    fn, s2c = table_fn(prog, "dialect::sepDirToCardinalDir", {k: SD[k] for k in CARD})
    fn2, c2s = table_fn(prog, "dialect::cardinalDirToSepDir", CD)
    bad = None
    for c in CARD:
        if s2c[c] != ("ret", CD[c]) or c2s[c] != ("ret", SD[c]):
            bad = "conversion of %s: sepDirToCardinalDir -> %s, cardinalDirToSepDir -> %s" % (c, s2c[c], c2s[c])
    r.count(8)
    (r.bad if bad else r.ok)("sepDirToCardinalDir/cardinalDirToSepDir", fn.where(), bad or "inverse bijections, no assertion reachable")
    fn, isc = table_fn(prog, "dialect::sepDirIsCardinal", SD)
    bad = None
    for k, (kind, v) in isc.items():
        if kind != "ret" or bool(v) != (k in CARD):
            bad = "sepDirIsCardinal(%s) = %s" % (k, v)
    r.count(8)
    (r.bad if bad else r.ok)("sepDirIsCardinal", fn.where(), bad or "")
    # Compass::cardFlip: the half-turn on cardinal directions (used by getCardinalDir under flippedRetrieval)
    fn, cf = table_fn(prog, "dialect::Compass::cardFlip", CD)
    wantf = {"EAST": "WEST", "WEST": "EAST", "NORTH": "SOUTH", "SOUTH": "NORTH"}
    bad = None
    for k, (kind, v) in cf.items():
        if kind != "ret" or cinv.get(v) != wantf[k]:
            bad = "cardFlip(%s) = %s" % (k, cinv.get(v))
    r.count(4)
    (r.bad if bad else r.ok)("Compass::cardFlip", fn.where(), bad or "")
    # getCardinalDir agrees with addSep: addSep(cardinal d, g>0) is reported as d  (sign-of-gap decides)
    add = prog.fn("dialect::SepPair::addSep")
    gcd = prog.fn("dialect::SepPair::getCardinalDir")
    GT = enum_vals(prog, "dialect::GapType")
    ST = enum_vals(prog, "dialect::SepType")
    bad = None
    for c in CARD:
        for gapv in (Fraction(5), Fraction(1, 2)):
            empty = sym_pair(GT["CENTRE"], GT["CENTRE"], ST["NONE"], ST["NONE"], Fraction(0), Fraction(0))
            p1 = run1(prog, add, empty, [GT["CENTRE"], SD[c], ST["INEQ"], gapv])[0][2][2]
            rows = run1(prog, gcd, p1, [])
            r.count()
            if len(rows) != 1 or rows[0][2][:2] != ("ret", CD[c]):
                bad = "addSep(%s, %s) is reported by getCardinalDir as %s" % (c, gapv, rows[0][2][:2])
    (r.bad if bad else r.ok)("getCardinalDir o addSep", gcd.where(), bad or "")


GAP_FUNCS = ["dialect::SepPair::transform", "dialect::SepPair::addSep", "dialect::SepMatrix::addSep", "dialect::SepMatrix::addFixedRelativeSep"]


def rule_neg_zero(chk, prog):
    r = chk.rule("NEG-ZERO", "in the functions that move gaps around (SepPair::transform/addSep, SepMatrix::addSep/addFixedRelativeSep(dx,dy)) "
                 "a gap value is only copied or negated with unary minus; no binary arithmetic touches it (0 - g or g * -1 lose the sign "
                 "of a zero gap, which encodes the direction)", floor=4)
    for q in GAP_FUNCS:
        for fn in prog.fns(q):
            if q.endswith("addFixedRelativeSep") and len(fn.params) != 4:
                continue
            bad = None
            negs = 0
            for n in fn.nodes():
                if n.get("t") != "double":
                    continue
                if n.get("k") == "UnaryOperator" and n.get("op") == "-":
                    negs += 1
                if n.get("k") in ("BinaryOperator", "CompoundAssignOperator") and n.get("op") not in ("=", ","):
                    bad = (n, "binary arithmetic `%s` on a gap" % src(n))
                if n.get("k") in ("CallExpr",) and n.get("cname", "").split("::")[-1] in ("fabs", "abs", "copysign"):
                    bad = (n, "call %s on a gap" % n.get("cname"))
            r.count(max(1, negs))
            if bad:
                r.bad(fn.q + "/%d" % len(fn.params), fn.loc(bad[0]), bad[1])
            else:
                r.ok(fn.q + "/%d" % len(fn.params), fn.where(), "%d unary negations" % negs)


FLAG = "dialect::SepPair::flippedRetrieval"
DEEP = ("dialect::SepMatrix::getSepPair", "dialect::SepMatrix::checkSepPair")


def rule_flipped(chk, prog):
    r = chk.rule("FLIPPED-RETRIEVAL", "(a) only getSepPair/checkSepPair store SepPair::flippedRetrieval; (b) in both, every return of a pair is "
                 "preceded on every path by such a store, whose value is false under id1<id2 and true otherwise (or the expression id2<id1); "
                 "(c) every reader obtains its pair from one of the two in the same function; (d) under the flag exactly the gap "
                 "arguments are negated / the direction flipped", floor=5)
    # (a) writers
    for f in prog.all_functions():
        for lhs, node, op in writes(f):
            fq, elem, mn = written_field(lhs)
            if fq == FLAG:
                r.count()
                if f.q in DEEP:
                    continue
                r.bad("writer " + f.q, f.loc(node), "stores flippedRetrieval outside the two deep-layer retrieval methods")
    # (b)
    for q in DEEP:
        fn = prog.fn(q)
        g = CFG(fn)
        stores = []
        for lhs, node, op in writes(fn):
            fq, elem, mn = written_field(lhs)
            if fq == FLAG and op == "=":
                stores.append(node)
        bad = None
        rets = 0
        for n in fn.nodes():
            if n.get("k") != "ReturnStmt" or not n.get("ch"):
                continue
            v = strip_casts(n["ch"][0])
            while v is not None and v.get("k") in ("CXXConstructExpr",) and len(v.get("ch", [])) == 1:
                v = strip_casts(v["ch"][0])
            if v is None or v.get("k") in ("CXXNullPtrLiteralExpr", "GNUNullExpr") or literal_value(v) in ("null", "0"):
                continue
            rets += 1
            w = g.must_precede([s["id"] for s in stores], n["id"])
            if w is not None:
                bad = (n, "a pair is returned along %s without storing flippedRetrieval for this retrieval (a stale flag from an earlier "
                          "call decides the sign of the next addSep)" % g.describe(w))
        # value of each store
        sal = single_assignment_locals(fn)
        for s in stores:
            val = strip_casts(s["ch"][1])
            want = None
            for a in fn.ancestors(s):
                if a.get("k") == "IfStmt":
                    c = norm(a.get("cond"))
                    inthen = any(x is s or x.get("id") == s["id"] for x in walk(a["then"])) if a.get("then") else False
                    if c == "(id1 < id2)":
                        want = "false" if inthen else "true"
                        break
                    if c == "(id2 < id1)":
                        want = "true" if inthen else "false"
                        break
            lit = literal_value(val)
            if lit in ("true", "false"):
                if want is None:
                    bad = bad or (s, "constant %s stored outside an id1<id2 branch" % lit)
                elif lit != want:
                    bad = (s, "stores %s in the branch where the retrieval is %sflipped" % (lit, "" if want == "true" else "not "))
            else:
                t = norm(val, sal)
                if t != "(id2 < id1)":
                    bad = (s, "stored value `%s` is not (id2 < id1)" % t)
        r.count(rets + len(stores))
        if rets == 0:
            raise AnalysisBroken("%s returns no pair" % q)
        if bad:
            r.bad(q, fn.loc(bad[0]), bad[1])
        else:
            r.ok(q, fn.where(), "%d returns, %d stores" % (rets, len(stores)))
    # (c) + (d) readers
    readers = 0
    for f in prog.all_functions():
        if f.q in DEEP:
            continue
        reads = [n for n in f.nodes() if n.get("k") == "MemberExpr" and n.get("ref") == FLAG]
        if not reads:
            continue
        readers += 1
        sal = single_assignment_locals(f)
        bad = None
        for n in reads:
            base = strip_casts(n["ch"][0])
            # look through shared_ptr operator->
            while base is not None and base.get("k") == "CXXOperatorCallExpr" and base.get("op") == "->":
                base = strip_casts(base["ch"][1])
            ok = False
            if base is not None and base.get("k") == "DeclRefExpr":
                for d in f.nodes():
                    if d.get("k") == "VarDecl" and d.get("did") == base.get("did") and d.get("init") is not None:
                        for x in walk(d["init"]):
                            if x.get("cname") in DEEP:
                                ok = True
            if not ok:
                bad = (n, "reads flippedRetrieval of a pair that was not obtained from getSepPair/checkSepPair in this function")
                continue
            # (d) the guarded statement
            par = f.parent(n)
            ifs = None
            for a in f.ancestors(n):
                if a.get("k") == "IfStmt" and any(x.get("id") == n["id"] for x in walk(a["cond"])):
                    ifs = a
                    break
            if ifs is None:
                bad = (n, "flag is read outside an if-condition")
                continue
            body = ifs.get("then")
            stmts = body.get("ch", []) if body.get("k") == "CompoundStmt" else [body]
            for st in stmts:
                st = strip(st)
                t = norm(st)
                okst = False
                if st.get("k") == "BinaryOperator" and st.get("op") == "=":
                    l, rr = norm(st["ch"][0]), strip_casts(st["ch"][1])
                    if rr.get("k") == "UnaryOperator" and rr.get("op") == "-" and norm(rr["ch"][0]) == l:
                        okst = True
                    if rr.get("k") == "CallExpr" and rr.get("cname", "").endswith("Compass::cardFlip") and norm(call_args(rr)[0]) == l:
                        okst = True
                if not okst:
                    bad = (st, "statement `%s` under the flag is not a pure negation x = -x / direction flip" % t)
        r.count(len(reads))
        if bad:
            r.bad("reader " + f.q + "/%d" % len(f.params), f.loc(bad[0]), bad[1])
        else:
            r.ok("reader " + f.q + "/%d" % len(f.params), f.where())
    if readers < 3:
        raise AnalysisBroken("expected at least 3 readers of flippedRetrieval, found %d" % readers)
    # (e) every function that retrieves a pair by (id1, id2) and then uses a DIRECTED operation of SepPair (one that takes a direction or a
    # signed gap, or returns a direction) consults the flag -- otherwise (a, b) and (b, a) are stored / answered differently
    k = 0
    for f in prog.all_functions():
        if f.body is None or f.q in DEEP or "/tests/" in f.file or f.tmpl == "pattern":
            continue
        if not any(c.get("cname") in DEEP for c in calls(f)):
            continue
        directed = []
        for c in calls(f):
            cn = str(c.get("cname", ""))
            if not cn.startswith("dialect::SepPair::"):
                continue
            callee = prog.by_key.get(c.get("callee"))
            sig = " ".join(str(p_.get("t", "")) for p_ in (callee.params if callee is not None else [])) + " -> " + str((callee.d.get("ret") if callee is not None else "") or "")
            if "SepDir" in sig or "double" in sig.split("->")[0] or "CardinalDir" in sig:
                directed.append(c)
        if not directed:
            continue
        k += 1
        r.count()
        reads = any(n.get("k") == "MemberExpr" and n.get("ref") == FLAG for n in f.nodes())
        inst = "directed use in %s/%d" % (f.q, len(f.params))
        if reads:
            r.ok(inst, f.loc(directed[0]))
        else:
            r.bad(inst, f.loc(directed[0]), "retrieves the pair for (id1, id2) and calls %s without consulting flippedRetrieval: for id1 > id2 the "
                  "separation is recorded (or answered) for the opposite direction" % sorted({str(c.get("cname")).split("::")[-1] for c in directed}))
    if k < 3:
        raise AnalysisBroken("directed users of retrieved pairs not recognised (%d)" % k)


class Tok:
    """A number formatted by string_format(fmt, value): carries the symbolic value."""
    def __init__(self, value):
        self.value = value

    def __repr__(self):
        return "NUM(%r)" % (self.value,)


def reader_tables(prog):
    """char -> enumerator tables of the TGLF reader's three switches (gt, sd, st), taken from the syntax tree."""
    fn = prog.fn("dialect::buildGraphFromTglf", sig="basic_istream")
    tables = {}
    for n in fn.nodes():
        if n.get("k") != "SwitchStmt":
            continue
        body = n.get("body")
        for c in walk(body):
            if c.get("k") != "CaseStmt" or "val" not in c:
                continue
            sub = c.get("sub")
            while sub is not None and sub.get("k") in ("CaseStmt", "DefaultStmt"):
                sub = sub.get("sub")
            st = strip(sub) if sub is not None else None
            if st is not None and st.get("k") == "BinaryOperator" and st.get("op") == "=":
                rhs = strip_casts(st["ch"][1])
                if rhs is not None and rhs.get("rk") == "EnumConstant":
                    tables.setdefault(norm(st["ch"][0]), {})[chr(int(c["val"]))] = int(rhs["ev"])
    for k in ("gt", "sd", "st"):
        if k not in tables:
            raise AnalysisBroken("TGLF reader table for `%s` not found in buildGraphFromTglf" % k)
    return tables


def rule_vpsc_gap(chk, prog):
    """The meaning of a stored separation: the VPSC constraint generated from it."""
    from ..microai.interp import default_obj, MapVal, Oracle
    r = chk.rule("VPSC-GAP", "SepPair::generateSeparationConstraint(dim, ...) interpreted for every (sep type, gap type, gap sign, dim): "
                 "NONE gives no constraint; otherwise left/right are (src, tgt) for a non-negative and (tgt, src) for a negative gap, the "
                 "VPSC gap is |gap| plus, for a boundary gap, the *mean of both nodes' extents in that dimension* plus the extra boundary "
                 "gap; equality iff EQ; creator recorded -- the x and y dimensions treat a pair the same way (rotation invariance of "
                 "what a constraint means)", floor=24)
    GT = enum_vals(prog, "dialect::GapType")
    ST = enum_vals(prog, "dialect::SepType")
    fn = prog.fn("dialect::SepPair::generateSeparationConstraint")
    E = Poly.var("E")
    dims = {0: ("w0", "w1"), 1: ("h0", "h1")}
    for dim in (0, 1):
        for stn, st in ST.items():
            for gtn, gt in GT.items():
                for sgn in (1, -1):
                    gap = Fraction(7 * sgn)
                    kw = dict(xgt=GT["CENTRE"], ygt=GT["CENTRE"], xst=ST["NONE"], yst=ST["NONE"], xgap=Fraction(0), ygap=Fraction(0))
                    if dim == 0:
                        kw.update(xgt=gt, xst=st, xgap=gap)
                    else:
                        kw.update(ygt=gt, yst=st, ygap=gap)
                    pair = sym_pair(kw["xgt"], kw["ygt"], kw["xst"], kw["yst"], kw["xgap"], kw["ygap"])
                    rects = [Obj("vpsc::Rectangle", {"tag": i}) for i in (0, 1)]

                    def ext(which):
                        def h(it, n, env):
                            from ..astq import call_object
                            o = it.ev(call_object(n), env)
                            return Poly.var("%s%d" % (which, o.f["tag"]))
                        return h
                    hooks = {"vpsc::Rectangle::width": ext("w"), "vpsc::Rectangle::height": ext("h"),
                             "dialect::SepMatrix::getExtraBdryGap": lambda it, n, env: E}
                    cgr = default_obj(prog, "dialect::ColaGraphRep", {"rs": Vec(rects, "vpsc::Rectangle *"), "id2ix": MapVal({0: 0, 1: 1}),
                                                                       "ix2id": MapVal({0: 0, 1: 1})})
                    m = default_obj(prog, "dialect::SepMatrix", {})
                    vs = Vec([Obj("vpsc::Variable", {"id": 0}), Obj("vpsc::Variable", {"id": 1})], "vpsc::Variable *")
                    it = Interp(prog, Oracle([]), hooks=hooks)
                    try:
                        c = it.call(fn, pair, None, None, arg_values=[dim, Box(cgr), m, Box(vs)])
                    except (Unsupported, AssertFail, Thrown) as e:
                        raise AnalysisBroken("generateSeparationConstraint outside the interpreter subset: %s" % e)
                    r.count()
                    inst = "dim %s, %s %s gap %s" % ("xy"[dim], stn, gtn, "+" if sgn > 0 else "-")
                    bad = None
                    if stn == "NONE":
                        if c is not None:
                            bad = "a constraint is generated although there is no separation in this dimension"
                    elif c is None:
                        bad = "no constraint generated"
                    else:
                        want_lr = (0, 1) if sgn > 0 else (1, 0)
                        got_lr = (c.f["left"].f["id"], c.f["right"].f["id"])
                        a, b = dims[dim]
                        want_gap = to_poly(Fraction(7))
                        if gtn == "BDRY":
                            want_gap = want_gap + (to_poly(Poly.var(a)) + to_poly(Poly.var(b))) * Fraction(1, 2) + to_poly(E)
                        if got_lr != want_lr:
                            bad = "constraint between variables %s, expected %s" % (got_lr, want_lr)
                        elif to_poly(c.f["gap"]) != want_gap:
                            bad = "VPSC gap %s, expected %s" % (to_poly(c.f["gap"]), want_gap)
                        elif bool(c.f.get("equality")) != (stn == "EQ"):
                            bad = "equality flag %s for a %s separation" % (c.f.get("equality"), stn)
                        elif c.f.get("creator") is not m:
                            bad = "creator not recorded"
                    (r.bad if bad else r.ok)(inst, fn.where(), bad or "")


def rule_tglf_node_ids(chk, prog):
    from ..microai.interp import default_obj, MapVal, Oracle, StreamVal
    import itertools
    r = chk.rule("TGLF-NODE-IDS", "Graph::writeTglf(useExternalIds=true) interpreted on every 3-node graph with internal ids a<b<c in [0,7) and "
                 "external ids drawn from {unset, 0..7}: the ids written on the node lines are pairwise distinct, a node with an external id "
                 "keeps it, and the id map handed to the constraint writer is the same mapping (otherwise edges and constraints of the "
                 "re-read graph attach to the wrong node)", floor=1)
    fn = prog.fn("dialect::Graph::writeTglf")
    n_cfg = 0
    bad = None

    def node(i, ext):
        return default_obj(prog, "dialect::Node", {"m_ID": i, "m_externalID": ext, "m_cx": Fraction(0), "m_cy": Fraction(0),
                                                   "m_w": Fraction(1), "m_h": Fraction(1)})
    seen_map = []
    hooks = {"dialect::SepMatrix::writeTglf": lambda it, n, env: (seen_map.append(dict(it.ev(n["ch"][1], env).d)), "")[1]}
    k_nodes = 4 if chk.tier == "thorough" else 3
    for ids in itertools.combinations(range(0, 7), k_nodes):
        for exts in itertools.product((-1, 0, 3, 5, 6, 7), repeat=k_nodes):
            used = [e for e in exts if e >= 0]
            if len(set(used)) != len(used):
                continue
            nodes = MapVal({i: node(i, e) for i, e in zip(ids, exts)}, vtype="std::shared_ptr<dialect::Node>")
            g = default_obj(prog, "dialect::Graph", {"m_nodes": nodes, "m_edges": MapVal()})
            del seen_map[:]
            it = Interp(prog, Oracle([]), hooks=hooks)
            try:
                out = it.call(fn, g, None, None, arg_values=[True])
            except (Unsupported, AssertFail, Thrown) as e:
                raise AnalysisBroken("Graph::writeTglf outside the interpreter subset: %s" % e)
            n_cfg += 1
            toks = out.tokens if isinstance(out, StreamVal) else []
            lines, cur = [], []
            for t in toks:
                if t == "\n":
                    lines.append(cur)
                    cur = []
                else:
                    cur.append(t)
            written = [ln[0] for ln in lines if ln and ln[0] != "#"][:k_nodes]
            if len(written) != k_nodes or len(set(written)) != k_nodes:
                bad = bad or "internal ids %s with external ids %s are written as node ids %s: not distinct" % (list(ids), list(exts), written)
                continue
            for (i, e), w in zip(zip(ids, exts), written):
                if e >= 0 and w != e:
                    bad = bad or "node %d with external id %d is written as %s" % (i, e, w)
            if seen_map and [seen_map[0].get(i) for i in ids] != written:
                bad = bad or "constraint writer receives the id map %s but the node lines carry %s" % (seen_map[0], written)
    r.count(n_cfg)
    (r.bad if bad else r.ok)("Graph::writeTglf(true)", fn.where(), bad or "%d configurations" % n_cfg)


def rule_tglf(chk, prog):
    r = chk.rule("TGLF-ROUNDTRIP", "SepPair::writeTglf interpreted over the abstract domain (gap types 2x2, sep types 3x3, gap sign classes "
                 "{+,-,0}^2, symbolic magnitudes and extra boundary gap) yields lines `src tgt <B|C> <dir> <rel> <gap>`; every emitted letter "
                 "is a case of the reader's switches (taken from buildGraphFromTglf), and feeding the lines through the reader's tables and "
                 "SepPair::addSep reproduces the pair: same gap/sep types, gaps equal up to the extra boundary gap folded into BDRY gaps "
                 "with the gap's own sign", floor=1)
    GT = enum_vals(prog, "dialect::GapType")
    ST = enum_vals(prog, "dialect::SepType")
    wr = prog.fn("dialect::SepPair::writeTglf")
    add = prog.fn("dialect::SepPair::addSep")
    tables = reader_tables(prog)
    E = Poly.var("E")
    G = {0: Poly.var("Gx"), 1: Poly.var("Gy")}
    hooks = {"dialect::string_format*": None, "dialect::SepMatrix::getExtraBdryGap": lambda it, n, env: E}

    def h_fmt(it, n, env):
        a = n.get("ch", [])[1:]
        if len(a) >= 2:
            v = it.ev(a[1], env)
            if isinstance(v, (int, Fraction, Poly)) and not isinstance(v, bool) and not isinstance(it.ev(a[0], env), Tok):
                f0 = it.ev(a[0], env)
                if isinstance(f0, str) and "%%" in f0:
                    return "FMT"
                return Tok(v)
        return "FMT"
    hooks["dialect::string_format*"] = h_fmt
    n_cases = n_lines = 0
    bad = None
    sample = None
    for xgt in GT.values():
        for ygt in GT.values():
            for xst in ST.values():
                for yst in ST.values():
                    if xst == ST["NONE"] and yst == ST["NONE"]:
                        continue
                    for sx in (1, -1, 0):
                        for sy in (1, -1, 0):
                            xg = sx * G[0] if sx else Fraction(0)
                            yg = sy * G[1] if sy else Fraction(0)
                            pair = sym_pair(xgt, ygt, xst, yst, xg, yg)

                            def run(o, pair=pair):
                                it = Interp(prog, o, hooks=hooks)
                                it.positive = {"Gx", "Gy", "E"}
                                from ..microai.interp import MapVal
                                try:
                                    return ("ret", it.call(wr, copy.deepcopy(pair), None, None, arg_values=[MapVal(), Box(Obj("dialect::SepMatrix", {}))]))
                                except AssertFail as e:
                                    return ("assert", str(e))
                                except Thrown as e:
                                    return ("throw", str(e))
                            try:
                                rows = enumerate_paths(run, limit=50)
                            except Unsupported as e:
                                raise AnalysisBroken("SepPair::writeTglf outside the interpreter subset: %s" % e)
                            n_cases += 1
                            if len(rows) != 1:
                                bad = bad or "writer branches on something other than the abstract state: %d paths" % len(rows)
                                continue
                            out = rows[0][2]
                            if out[0] == "throw":
                                continue    # 'constrained to coincide': documented refusal
                            if out[0] != "ret":
                                bad = bad or "writer fails an assertion on state (%s,%s,%s,%s,%s,%s)" % (xgt, ygt, xst, yst, sx, sy)
                                continue
                            toks = out[1].tokens if hasattr(out[1], "tokens") else ([] if out[1] in ("", None) else [out[1]])
                            # tokenise into lines of words
                            lines, cur = [], []
                            for t in toks:
                                if isinstance(t, str):
                                    parts = t.split("\n")
                                    for i, part in enumerate(parts):
                                        cur.extend(part.split())
                                        if i < len(parts) - 1:
                                            lines.append(cur)
                                            cur = []
                                else:
                                    cur.append(t)
                            if cur:
                                lines.append(cur)
                            back = sym_pair(GT["CENTRE"], GT["CENTRE"], ST["NONE"], ST["NONE"], Fraction(0), Fraction(0))
                            for ln in lines:
                                n_lines += 1
                                if len(ln) != 6:
                                    bad = bad or "malformed TGLF line %r" % (ln,)
                                    continue
                                i1, i2, gtc, dirc, rel, gap = ln
                                if gtc not in tables["gt"] or dirc not in tables["sd"] or str(rel)[:1] not in tables["st"]:
                                    bad = bad or "writer emits `%s %s %s`, which the reader's switches do not accept" % (gtc, dirc, rel)
                                    continue
                                gv = gap.value if isinstance(gap, Tok) else (Fraction(int(gap)) if str(gap).lstrip("-").isdigit() else None)
                                if gv is None:
                                    bad = bad or "gap field %r is not a formatted number" % (gap,)
                                    continue
                                rr = run1(prog, add, back, [tables["gt"][gtc], tables["sd"][dirc], tables["st"][str(rel)[:1]], gv])
                                if len(rr) != 1 or rr[0][2][0] != "ret":
                                    bad = bad or "reader-side addSep is not straight-line"
                                    continue
                                back = rr[0][2][2]
                            # expected state after the round trip
                            def exp_gap(gt, st, sgn, g):
                                if st == ST["NONE"]:
                                    return None
                                base = sgn * g if sgn else Fraction(0)
                                if gt == GT["BDRY"]:
                                    return to_poly(base) + (E if sgn >= 0 else -E)
                                return to_poly(base)
                            got = state(back)
                            for axis, (gt_, st_, sgn, gsym, gi, ti, si) in enumerate(((xgt, xst, sx, G[0], 4, 0, 2), (ygt, yst, sy, G[1], 5, 1, 3))):
                                if st_ == ST["NONE"]:
                                    # an unconstrained axis must stay unconstrained, unless the writer had to express an alignment-only pair
                                    continue
                                want_gap = exp_gap(gt_, st_, sgn, gsym)
                                if got[si] != st_ or got[ti] != gt_:
                                    bad = bad or "state (xgt=%s ygt=%s xst=%s yst=%s signs %+d %+d): axis %s reads back as gap type %s / sep type %s" % (
                                        xgt, ygt, xst, yst, sx, sy, "xy"[axis], got[ti], got[si])
                                elif got[gi] != want_gap:
                                    bad = bad or "state (xgt=%s ygt=%s xst=%s yst=%s signs %+d %+d): %s-gap reads back as %r, expected %r" % (
                                        xgt, ygt, xst, yst, sx, sy, "xy"[axis], got[gi], want_gap)
                            if sample is None and lines:
                                sample = {"state": [xgt, ygt, xst, yst, sx, sy], "lines": [[repr(x) for x in ln] for ln in lines]}
    r.count(n_cases)
    chk.extra["tglf_states"] = n_cases
    chk.extra["tglf_lines"] = n_lines
    if sample:
        chk.sample(dict(rule="TGLF-ROUNDTRIP", **sample))
    (r.bad if bad else r.ok)("SepPair::writeTglf -> reader -> addSep", wr.where(), bad or "%d abstract states, %d lines" % (n_cases, n_lines))


def rule_subset_transforms(chk, prog):
    """SepMatrix::transformClosedSubset / transformOpenSubset: which stored pairs get transformed."""
    from ..microai.interp import Interp, Obj, MapVal, SetVal, Oracle, Unsupported, AssertFail, default_obj
    r = chk.rule("SUBSET-TRANSFORMS", "SepMatrix::transformClosedSubset / transformOpenSubset interpreted on a sparse matrix over ids 1..6 (rows and "
                 "entries missing here and there) for 10 id sets (empty, singletons at either end, ids the matrix does not know, everything): the "
                 "closed variant applies SepPair::transform exactly once to every stored pair with BOTH ids in the set, the open variant exactly "
                 "once to every stored pair with AT LEAST ONE id in the set, and to nothing else", floor=20)
    stored = [(1, 2), (1, 4), (1, 6), (2, 3), (2, 6), (3, 4), (3, 5), (3, 6), (5, 6)]        # (no row for 4; 6 is never a first id)
    sets = [[], [1], [6], [5], [2, 4], [1, 2, 3, 4, 5, 6], [3, 5], [0, 7], [4, 5, 6], [1, 6]]
    for q, want_fn in (("dialect::SepMatrix::transformClosedSubset", lambda i, j, S: i in S and j in S),
                       ("dialect::SepMatrix::transformOpenSubset", lambda i, j, S: i in S or j in S)):
        fn = prog.fn(q)
        for S in sets:
            m = default_obj(prog, "dialect::SepMatrix", {})
            rows = {}
            for i, j in stored:
                rows.setdefault(i, {})[j] = Obj("dialect::SepPair", {"_ij": (i, j)})
            m.f["m_sparseLookup"] = MapVal({i: MapVal(dict(r_)) for i, r_ in rows.items()})
            hit = []
            it = Interp(prog, Oracle([]))
            it.vhooks["dialect::SepPair::transform"] = lambda it_, recv, args, hit=hit: hit.append(recv.f["_ij"])
            r.count()
            inst = "%s, ids %s" % (q.split("::")[-1], S)
            try:
                it.call(fn, m, None, None, arg_values=[0, SetVal(set(S))])
            except Unsupported as e:
                raise AnalysisBroken("%s outside the interpreter subset: %s" % (q, e))
            except AssertFail as e:
                r.bad(inst, fn.where(), "assertion fails: %s" % e)
                continue
            want = sorted(p_ for p_ in stored if want_fn(p_[0], p_[1], S))
            bad = None
            if sorted(hit) != want:
                miss = [p_ for p_ in want if p_ not in hit]
                extra = [p_ for p_ in hit if p_ not in want]
                twice = sorted({p_ for p_ in hit if hit.count(p_) > 1})
                bad = "not transformed: %s; transformed although outside: %s; transformed twice: %s" % (miss, extra, twice)
            (r.bad if bad else r.ok)(inst, fn.where(), bad or "%d pairs" % len(want))


def rule_swap_repoints(chk, prog):
    r = chk.rule("MATRIX-BACKPOINTER", "swap(Graph&, Graph&) -- and with it Graph's copy-and-swap assignment -- exchanges the SepMatrix members and then "
                 "points each matrix back at the graph that now owns it (setGraph(&first), setGraph(&second)) on every path; Graph's copy "
                 "constructor does the same for its copy: a matrix pointing at the other graph looks node ids up there", floor=2)
    cands = [f for f in prog.all_functions() if f.q == "dialect::swap" and len(f.params) == 2 and "dialect::Graph" in f.params[0]["t"] and f.body is not None]
    if len(cands) != 1:
        raise AnalysisBroken("dialect::swap(Graph&, Graph&) not found")
    fn = cands[0]
    g = CFG(fn)
    a, b = fn.params[0]["name"], fn.params[1]["name"]
    sw = [c for c in calls(fn) if "swap" in str(c.get("cname", "")) and len(call_args(c)) == 2 and norm(call_args(c)[0]).endswith(".m_sepMatrix")]
    r.count()
    bad = None
    if not sw:
        raise AnalysisBroken("swap: the exchange of m_sepMatrix was not found")
    for who in (a, b):
        sg = [c for c in calls(fn) if c.get("cname") == "dialect::SepMatrix::setGraph" and norm(call_object(c)) == who + ".m_sepMatrix"
              and norm(call_args(c)[0]).replace(" ", "") in ("&" + who, "(&%s)" % who)]
        if not sg or g.must_follow(sw[0]["id"], [c["id"] for c in sg]) is not None:
            bad = bad or "after the matrices are exchanged, %s.m_sepMatrix is not pointed back at %s" % (who, who)
    (r.bad if bad else r.ok)("swap(Graph&, Graph&)", fn.loc(sw[0]), bad or "")
    cc = [f for f in prog.all_functions() if f.kind == "ctor" and f.cls == "dialect::Graph" and len(f.params) == 1 and "const dialect::Graph &" in f.params[0]["t"] and f.body is not None]
    r.count()
    if not cc:
        raise AnalysisBroken("Graph copy constructor not found")
    sg = [c for c in calls(cc[0]) if c.get("cname") == "dialect::SepMatrix::setGraph" and "this" in norm(call_args(c)[0])]
    ok = bool(sg) and CFG(cc[0]).exit_reachable_avoiding([c["id"] for c in sg]) is None
    (r.ok if ok else r.bad)("Graph copy constructor", cc[0].where(), "" if ok else "the copied matrix is not pointed at the new graph")


def run(chk):
    prog = chk.load()
    PROG[0] = prog
    chk.guard(rule_swap_repoints, chk, prog)
    chk.guard(rule_subset_transforms, chk, prog)
    chk.guard(rule_tglf, chk, prog)
    chk.guard(rule_vpsc_gap, chk, prog)
    chk.guard(rule_tglf_node_ids, chk, prog)
    extracted, TF, GT, ST = rule_transform(chk, prog)
    chk.guard(rule_group, chk, prog, extracted)
    chk.guard(rule_dir_commute, chk, prog, extracted, TF, GT, ST)
    chk.guard(rule_addsep_sequence, chk, prog, GT, ST)
    chk.guard(rule_tglf_route_order, chk, prog)
    chk.guard(rule_enum_tables, chk, prog)
    chk.guard(rule_neg_zero, chk, prog)
    chk.guard(rule_flipped, chk, prog)
