"""C19 -- libdialect: graph decompositions partition the graph: the bookkeeping clauses of peeling and component extraction.

The property (every node in the core or exactly one tree, trees acyclic and connected, planarisation leaves no crossing ...) is a statement
about run-time graphs and is NOT decided.  Decided are coverage clauses without which the partition cannot be one -- each says that
a loop handles *every* element and that nothing is dropped or handled twice on some path:

  PEEL-LOOP        dialect::peel: in every round all current leaves become stems (makeStemsFromLeaves(leaves)) and the same leaves are
                   cut out of the graph (severNodes(leaves)); every stem is added to the tree workspace, except exactly one of the two
                   mirror stems of a double-centre tree; the next round's leaves are taken before the loop condition is re-tested;
                   afterwards every connected component of the workspace becomes exactly one Tree with identifyRootNode's root
  STEMS            makeStemsFromLeaves makes one stem per leaf, from the leaf to the other end of its single edge; Stem::addSelfToGraph
                   adds the root->leaf edge on every path; identifyRootNode returns the node of maximal serial number (argmax scan)
  BUCKETS          NodeBuckets: takeLeaves returns a copy of bucket 1 and empties it; moveNode erases from the old bucket exactly when it
                   inserts into the new one; severNodes moves every former neighbour of every severed node one bucket down and removes
                   the severed nodes from the graph
  TREE-TRANSFORMS  (shared with C14) Tree::flip / translate keep bounds, per-rank bounds and nodes together
  COMPONENTS       Graph::getConnComps: the breadth-first queue is drained; every node still in `remaining` starts a component; a node is erased from `remaining` on every
                   path on which it is added to a component (no node in two components); every edge taken from the queue is added
                   unless present; every finished component is pushed to the result
Not decided: acyclicity of the trees, degree conditions of the core, symmetric tree layout, planarisation.
"""
from ..astq import strip, strip_casts, calls, call_args, call_object, norm, writes, written_field, literal_value, single_assignment_locals
from ..cfg import CFG
from ..facts import AnalysisBroken, walk
from ..rules.guards import path_condition, atoms, entails, show


def _range_loops(fn, over):
    return [n for n in fn.nodes() if n.get("k") == "CXXForRangeStmt" and norm(n["range"]) == over]


def _stmt_id(fn, g, n):
    """id of the innermost CFG element at or above n"""
    if n.get("id") in g.pos:
        return n["id"]
    for a in fn.ancestors(n):
        if a.get("id") in g.pos:
            return a["id"]
    raise AnalysisBroken("no CFG element for a node of %s" % fn.q)


def rule_peel(chk, prog):
    r = chk.rule("PEEL-LOOP", "dialect::peel, per round and after the loop (see module doc)", floor=6)
    fn = prog.fn("dialect::peel")
    g = CFG(fn)
    wl = [n for n in fn.nodes() if n.get("k") == "WhileStmt" and "leaves.empty()" in norm(n.get("cond"))]
    if len(wl) != 1:
        raise AnalysisBroken("peel: the loop over rounds of leaves is not recognised")
    wl = wl[0]
    body = list(walk(wl["body"]))

    def one(cname, what):
        cs = [c for c in body if c.get("cname") == cname]
        r.count()
        if len(cs) != 1:
            r.bad(what, fn.loc(wl), "%s is called %d times per round (expected once)" % (cname.split("::")[-1], len(cs)))
            return None
        return cs[0]
    ms = one("dialect::makeStemsFromLeaves", "round: stems from leaves")
    if ms is not None:
        a = norm(call_args(ms)[0])
        skip = g.iteration_can_skip(wl, [_stmt_id(fn, g, ms)])
        (r.ok if a == "leaves" and skip is None else r.bad)("round: stems from leaves", fn.loc(ms), "" if a == "leaves" and skip is None else
                                                            "stems are made from `%s`%s" % (a, "" if skip is None else ", and the step can be skipped"))
    sv = one("dialect::NodeBuckets::severNodes", "round: leaves severed")
    if sv is not None:
        a = norm(call_args(sv)[0])
        skip = g.iteration_can_skip(wl, [_stmt_id(fn, g, sv)])
        (r.ok if a == "leaves" and skip is None else r.bad)("round: leaves severed", fn.loc(sv), "" if a == "leaves" and skip is None else
                                                            "the nodes cut out of the graph are `%s`, not the leaves the stems were made from%s" % (
                                                                a, "" if skip is None else " (or the step can be skipped)"))
    add = [c for c in body if c.get("cname") == "dialect::Stem::addSelfToGraph"]
    r.count()
    bad = None
    if len(add) != 1:
        bad = "stems are not added to the workspace graph"
    else:
        lp = [a_ for a_ in fn.ancestors(add[0]) if a_.get("k") == "CXXForRangeStmt"]
        if not lp or norm(lp[0]["range"]) != "stems":
            bad = "not every stem of the round is added to the workspace"
        elif any(x.get("k") in ("ContinueStmt", "BreakStmt", "IfStmt") for x in walk(lp[0]["body"])):
            bad = "a stem can be skipped when the round's stems are added"
        elif norm(call_args(add[0])[0]) != "H":
            bad = "stems are added to `%s`" % norm(call_args(add[0])[0])
    (r.bad if bad else r.ok)("round: every stem added", fn.loc(add[0]) if add else fn.loc(wl), bad or "")
    pops = [c for c in body if c.get("cname", "").endswith("::pop_back") and norm(call_object(c)) == "stems"]
    others = [c for c in body if c.get("cname", "").split("::")[-1] in ("erase", "clear", "resize", "pop_front") and norm(call_object(c)) == "stems"]
    r.count()
    bad = None
    if others or len(pops) > 1:
        bad = "stems are discarded (%s)" % [norm(c)[:40] for c in others + pops]
    elif pops:
        pc = path_condition(fn, pops[0], inline=False)
        ats = [a_ for a_ in atoms(pc) if "leaves.empty()" not in a_]
        if ats != ["G.isEmpty()"] or not entails(pc, ("atom", "G.isEmpty()")):
            bad = "a stem is discarded under %s (allowed only for the double-centre case G.isEmpty())" % show(pc)[:120]
    (r.bad if bad else r.ok)("round: only the mirror stem of a double centre is dropped", fn.loc(pops[0]) if pops else fn.loc(wl), bad or "")
    tk = [node for lhs, node, op in writes(fn) if norm(lhs) == "leaves" and node["id"] in {x.get("id") for x in body} and "takeLeaves()" in norm(node["ch"][-1])]
    if not tk:
        tk = [c for c in body if c.get("k") == "CXXOperatorCallExpr" and c.get("op") == "=" and norm(c["ch"][1]) == "leaves" and "takeLeaves()" in norm(c["ch"][2])]
    r.count()
    if not tk or g.iteration_can_skip(wl, [_stmt_id(fn, g, tk[0])]) is not None:
        r.bad("round: next leaves taken", fn.loc(wl), "a round can end without taking the newly created leaves (the same leaves would be peeled again, or the loop would not end)")
    else:
        r.ok("round: next leaves taken", fn.loc(tk[0]))
    # after the loop
    cc = [c for c in calls(fn) if c.get("cname") == "dialect::Graph::getConnComps"]
    r.count()
    bad = None
    if len(cc) != 1 or norm(call_object(cc[0])) != "H":
        bad = "the trees are not the connected components of the workspace graph H"
    else:
        lps = _range_loops(fn, "comps")
        if len(lps) != 1:
            bad = "not every component is turned into a tree"
        else:
            lp = lps[0]
            pb = [c for c in walk(lp["body"]) if c.get("cname", "").endswith("::push_back") and norm(call_object(c)) == "trees"]
            idr = [c for c in walk(lp["body"]) if c.get("cname") == "dialect::identifyRootNode"]
            if len(pb) != 1 or len(idr) != 1:
                bad = "each component must yield exactly one Tree with an identified root"
            elif any(x.get("k") in ("ContinueStmt", "BreakStmt") for x in walk(lp["body"])):
                bad = "a component can be skipped"
            elif "comp" not in norm(call_args(idr[0])[0]):
                bad = "the root is identified in `%s`, not in the component" % norm(call_args(idr[0])[0])
            else:
                for a_ in fn.ancestors(pb[0]):
                    if a_ is lp:
                        break
                    if a_.get("k") == "IfStmt":
                        bad = "a tree is recorded only under `%s`" % norm(a_["cond"])
    (r.bad if bad else r.ok)("every component becomes one tree", fn.loc(cc[0]) if cc else fn.where(), bad or "")


def rule_stems(chk, prog):
    r = chk.rule("STEMS", "makeStemsFromLeaves / Stem::addSelfToGraph / identifyRootNode (see module doc)", floor=3)
    fn = prog.fn("dialect::makeStemsFromLeaves")
    lps = _range_loops(fn, "leaves")
    r.count()
    bad = None
    if len(lps) != 1:
        bad = "the leaves are not all visited"
    else:
        lp = lps[0]
        pb = [c for c in walk(lp["body"]) if c.get("cname", "").endswith("::push_back") and norm(call_object(c)) == "stems"]
        if len(pb) != 1 or any(x.get("k") in ("ContinueStmt", "BreakStmt", "IfStmt") for x in walk(lp["body"]) if not x.get("mac")):
            bad = "not exactly one stem per leaf"
        else:
            oe = [c for c in walk(lp["body"]) if c.get("cname") == "dialect::Edge::getOtherEnd"]
            if len(oe) != 1 or "leaf" not in norm(call_args(oe[0])[0]):
                bad = "the stem's root is not the other end of the leaf's edge"
    (r.bad if bad else r.ok)("makeStemsFromLeaves", fn.where(), bad or "")
    f2 = prog.fn("dialect::Stem::addSelfToGraph")
    g = CFG(f2)
    ae = [c for c in calls(f2) if c.get("cname") == "dialect::Graph::addEdge"]
    r.count()
    bad = None
    if len(ae) != 1 or g.exit_reachable_avoiding([_stmt_id(f2, g, ae[0])]) is not None:
        bad = "the stem's edge is not added on every path"
    else:
        al = [c for c in calls(f2) if c.get("cname") == "dialect::Edge::allocate"]
        got = [norm(x).replace("std::shared_ptr<dialect::Node>(", "").rstrip(")") for x in call_args(al[0])] if len(al) == 1 else None
        if got != ["tree_root", "tree_leaf"]:
            bad = "the stem's edge does not run from the root node to the leaf node"
    (r.bad if bad else r.ok)("Stem::addSelfToGraph", f2.where(), bad or "")
    f3 = prog.fn("dialect::identifyRootNode")
    r.count()
    upd = [node for lhs, node, op in writes(f3) if norm(lhs) == "max_serial_no"]
    cand = [node for lhs, node, op in writes(f3) if norm(lhs) == "candidate_id"]
    bad = None
    if len(upd) != 1 or len(cand) != 1:
        bad = "the maximal serial number and its node are not updated together"
    else:
        p1, p2 = show(path_condition(f3, upd[0], inline=False)), show(path_condition(f3, cand[0], inline=False))
        if p1 != p2 or "m_treeSerialNumber >= max_serial_no" not in p1 and "m_treeSerialNumber > max_serial_no" not in p1:
            bad = "the scan does not keep the node of maximal serial number (update under %s)" % p1[:120]
        elif len(_range_loops(f3, "nodes")) != 1:
            bad = "not every node of the component is scanned"
    (r.bad if bad else r.ok)("identifyRootNode", f3.where(), bad or "")


def rule_buckets(chk, prog):
    r = chk.rule("BUCKETS", "NodeBuckets::takeLeaves / moveNode / severNodes (see module doc)", floor=3)
    f1 = prog.fn("dialect::NodeBuckets::takeLeaves")
    g = CFG(f1)
    clr = [c for c in calls(f1) if c.get("cname", "").endswith("::clear") and norm(call_object(c)) == "m_buckets[1]"]
    rets = [n for n in f1.nodes() if n.get("k") == "ReturnStmt"]
    decl = [n for n in f1.nodes() if n.get("k") == "VarDecl" and n.get("name") == "leaves"]
    r.count()
    okk = len(clr) == 1 and g.exit_reachable_avoiding([_stmt_id(f1, g, clr[0])]) is None and decl and "m_buckets[1]" in norm(decl[0].get("init")) \
        and rets and norm(rets[0]["ch"][0]).endswith("leaves") and decl[0]["l"] < clr[0]["l"]
    (r.ok if okk else r.bad)("takeLeaves", f1.where(), "" if okk else "takeLeaves does not return a copy of the degree-1 bucket and empty that bucket")
    f2 = prog.fn("dialect::NodeBuckets::moveNode")
    g = CFG(f2)
    ins = [c for c in calls(f2) if "::insert" in c.get("cname", "") and c.get("k") == "CXXMemberCallExpr" and norm(call_object(c)) == "newBucket"]
    era = [c for c in calls(f2) if c.get("cname", "").endswith("::erase") and norm(call_object(c)) == "oldBucket"]
    r.count()
    bad = None
    if len(ins) != 1 or len(era) != 1:
        bad = "a node is not moved by exactly one insert into the new and one erase from the old bucket"
    else:
        i_, e_ = _stmt_id(f2, g, ins[0]), _stmt_id(f2, g, era[0])
        if g.must_follow(i_, [e_]) is not None or g.must_precede([i_], e_) is not None:
            bad = "insert into the new bucket and erase from the old one are not on the same paths (a node could sit in two buckets, or in none)"
        else:
            rt = [n for n in f2.nodes() if n.get("k") == "ReturnStmt" and literal_value(n["ch"][0]) == "true"]
            if not rt or g.must_precede([i_], _stmt_id(f2, g, rt[0])) is not None:
                bad = "moveNode reports success without having moved the node"
    (r.bad if bad else r.ok)("moveNode", f2.where(), bad or "")
    f3 = prog.fn("dialect::NodeBuckets::severNodes")
    g = CFG(f3)
    r.count()
    bad = None
    outer = _range_loops(f3, "nodes")
    sn = [c for c in calls(f3) if c.get("cname") == "dialect::Graph::severNodeNotingNeighbours"]
    mv = [c for c in calls(f3) if c.get("cname") == "dialect::NodeBuckets::moveNode"]
    rm = [c for c in calls(f3) if c.get("cname") == "dialect::Graph::removeNodes"]
    if len(outer) != 1 or len(sn) != 1 or len(mv) != 1 or len(rm) != 1:
        bad = "sever / move / remove steps not all present"
    else:
        inner = [a_ for a_ in f3.ancestors(mv[0]) if a_.get("k") == "CXXForRangeStmt"]
        a = [norm(x) for x in call_args(mv[0])]
        if not inner or norm(inner[0]["range"]) != "nbrs" or any(x.get("k") in ("ContinueStmt", "BreakStmt", "IfStmt") for x in walk(inner[0]["body"])):
            bad = "not every former neighbour is moved to its new bucket"
        elif not (a[1].replace(" ", "") in ("(v.getDegree()+1)", "(degree+1)") and a[2] in ("v.getDegree()", "degree")):
            bad = "a former neighbour is moved from bucket %s to bucket %s, expected from degree+1 to degree" % (a[1], a[2])
        elif norm(call_args(rm[0])[0]) != "nodes" or g.exit_reachable_avoiding([_stmt_id(f3, g, rm[0])]) is not None:
            bad = "the severed nodes are not removed from the graph on every path"
        elif any(x.get("k") in ("ContinueStmt", "BreakStmt") for x in walk(outer[0]["body"])):
            bad = "a node to sever can be skipped"
    (r.bad if bad else r.ok)("severNodes", f3.where(), bad or "")


def rule_buckets_in_range(chk, prog):
    from ..microai.interp import Interp, MapVal, Oracle, Unsupported, AssertFail, default_obj
    r = chk.rule("BUCKETS-IN-RANGE", "the NodeBuckets constructor followed by takeLeaves (the first thing peel does), interpreted on graphs whose "
                 "largest degree is 0 (a single node -- a connected graph), 1 (one edge) and 2 (a path): takeLeaves stays inside the bucket "
                 "vector the constructor sized, returns exactly the degree-1 nodes and leaves the other buckets alone", floor=3)
    ctor = [f for f in prog.fns("dialect::NodeBuckets::NodeBuckets") if f.body]
    if len(ctor) != 1:
        raise AnalysisBroken("NodeBuckets constructor not found")
    take = prog.fn("dialect::NodeBuckets::takeLeaves")
    for name, degs in (("a single node", [0]), ("two nodes, one edge", [1, 1]), ("a path of three nodes", [1, 2, 1])):
        r.count()
        nodes = {10 + i: default_obj(prog, "dialect::Node", {"m_ID": 10 + i, "m_degree": d}) for i, d in enumerate(degs)}
        G = default_obj(prog, "dialect::Graph", {"m_nodes": MapVal(dict(nodes)), "m_maxDeg": max(degs)})
        this = default_obj(prog, "dialect::NodeBuckets", {})
        it = Interp(prog, Oracle([]), max_steps=200000)
        bad = None
        try:
            it.call(ctor[0], this, None, None, arg_values=[G])
            where = "takeLeaves"
            rv = it.call(take, this, None, None, arg_values=[])
            got = sorted(rv.d.keys()) if hasattr(rv, "d") else sorted(rv.items.keys())
            want = sorted(k for k, n_ in nodes.items() if n_.f["m_degree"] == 1)
            if got != want:
                bad = "takeLeaves returns the nodes %s, the nodes of degree 1 are %s" % (got, want)
        except Unsupported as e:
            raise AnalysisBroken("NodeBuckets outside the interpreter subset: %s" % e)
        except AssertFail as e:
            bad = "with the buckets the constructor made for this graph: %s" % e
        (r.bad if bad else r.ok)("NodeBuckets for %s" % name, take.where(), bad or "")


def rule_components(chk, prog):
    r = chk.rule("COMPONENTS", "Graph::getConnComps (see module doc)", floor=4)
    fn = prog.fn("dialect::Graph::getConnComps")
    g = CFG(fn)
    sal = single_assignment_locals(fn)
    wl = [n for n in fn.nodes() if n.get("k") == "WhileStmt" and "remaining.empty()" in norm(n.get("cond"))]
    if len(wl) != 1:
        raise AnalysisBroken("getConnComps: outer loop not recognised")
    wl = wl[0]
    dec = [n for n in fn.nodes() if n.get("k") == "VarDecl" and n.get("name") == "remaining"]
    r.count()
    (r.ok if dec and "m_nodes" in norm(dec[0].get("init")) else r.bad)("all nodes to place", fn.loc(wl), "" if dec and "m_nodes" in norm(dec[0].get("init")) else
                                                                       "`remaining` does not start as the set of all nodes")
    addn = [c for c in walk(wl["body"]) if c.get("cname") == "dialect::Graph::addNode"]
    era = [c for c in walk(wl["body"]) if c.get("cname", "").endswith("::erase") and norm(call_object(c)) == "remaining"]
    r.count()
    bad = None
    if len(addn) != 2 or len(era) != 2:
        bad = "expected the seed node and the reached nodes to be added (2 sites) and erased from `remaining` (2 sites); found %d / %d" % (len(addn), len(era))
    else:
        add_ids = [_stmt_id(fn, g, x) for x in addn]
        hdr, body = g.loop_header(wl)
        decls = {n.get("name"): n for n in fn.nodes() if n.get("k") == "VarDecl"}
        for a_ in addn:
            ai = _stmt_id(fn, g, a_)
            x = norm(call_args(a_)[0]).replace("std::shared_ptr<dialect::Node>(", "").rstrip(")")
            # erases that concern the same node: erase(x->id()) / erase(x.id()), or erase(it) where x was read through `it`
            mine = []
            for e_ in era:
                ea = norm(call_args(e_)[0])
                ini = norm(decls[x].get("init")) if x in decls and decls[x].get("init") is not None else ""
                if ea.startswith(x + ".") or ea.startswith(x + "->") or (ea in decls and ea + "." in ini.replace("->", ".")) or (ea and ea + ".*" in ini):
                    mine.append(_stmt_id(fn, g, e_))
            if not mine:
                bad = bad or "node `%s` is added to a component but never erased from `remaining`" % x
                continue
            before = g.search([(body, 0)], blocked=mine, targets=[ai]) is None
            after = g.search([g.after(ai)], blocked=mine, targets=add_ids) is None and g.search([g.after(ai)], blocked=mine + add_ids, to_exit=True) is None
            if not (before or after):
                bad = bad or "node `%s` can be added to a component and stay in `remaining` (it would start a second component later)" % x
    (r.bad if bad else r.ok)("a placed node leaves `remaining`", fn.loc(addn[0]) if addn else fn.loc(wl), bad or "")
    inner = [n for n in walk(wl["body"]) if n.get("k") == "WhileStmt" and "bfs_queue.empty()" in norm(n.get("cond"))]
    r.count()
    bad = None
    if len(inner) != 1:
        bad = "the breadth-first loop over the queue is not recognised"
    elif any(x.get("k") in ("BreakStmt", "ReturnStmt", "GotoStmt") for x in _walk_no_lambda(inner[0]["body"])):
        bad = "the breadth-first loop can stop while (edge, node) pairs are still queued: their edges are never added to the component"
    elif norm(inner[0]["cond"]) not in ("!bfs_queue.empty()",):
        bad = "the breadth-first loop runs while `%s`, not until the queue is empty" % norm(inner[0]["cond"])
    (r.bad if bad else r.ok)("queue drained", fn.loc(inner[0]) if inner else fn.loc(wl), bad or "")
    pb = [c for c in walk(wl["body"]) if c.get("cname", "").endswith("::push_back") and norm(call_object(c)) == "comps"]
    r.count()
    if len(pb) != 1 or g.iteration_can_skip(wl, [_stmt_id(fn, g, pb[0])]) is not None or norm(call_args(pb[0])[0]) != "new_comp":
        r.bad("every component recorded", fn.loc(wl), "a finished component is not pushed to the result on every path")
    else:
        r.ok("every component recorded", fn.loc(pb[0]))
    ade = [c for c in walk(wl["body"]) if c.get("cname") == "dialect::Graph::addEdge"]
    r.count()
    bad = None
    if len(ade) != 1:
        bad = "edges are not added to the component"
    else:
        pc = path_condition(fn, ade[0], inline=False)
        ats = [a_ for a_ in atoms(pc) if "empty()" not in a_]
        if len(ats) != 1 or "hasEdge(e" not in ats[0] or not entails(("not", ("atom", ats[0])), _drop_empty(pc)):
            bad = "an edge taken from the queue is added only under %s" % show(pc)[:140]
    (r.bad if bad else r.ok)("every reached edge added once", fn.loc(ade[0]) if ade else fn.loc(wl), bad or "")


def _walk_no_lambda(n):
    from ..facts import children
    stack = [n]
    while stack:
        x = stack.pop()
        if x is None:
            continue
        yield x
        if x.get("k") == "LambdaExpr":
            continue
        stack.extend(children(x))


def _drop_empty(f):
    if f[0] == "atom":
        return ("const", True) if "empty()" in f[1] else f
    if f[0] == "const":
        return f
    if f[0] == "not":
        inner = _drop_empty(f[1])
        if f[1][0] == "atom" and inner == ("const", True):
            return ("const", True)
        return ("not", inner)
    return (f[0], _drop_empty(f[1]), _drop_empty(f[2]))


def rule_node_groups(chk, prog):
    """OrthoPlanariser::computeNodeGroups: the sweep along each line loses no segment."""
    from fractions import Fraction
    from ..microai.interp import Interp, Obj, Vec, Oracle, Unsupported, AssertFail, default_obj
    r = chk.rule("NODE-GROUPS", "OrthoPlanariser::computeNodeGroups interpreted on small sets of collinear edge segments (end to end, overlapping, "
                 "nested, a ZERO-LENGTH segment between two others, two parallel lines): every segment's two end nodes end up together in one "
                 "node group, every group has at least two nodes, and segments on different lines never share a group -- a segment whose close "
                 "event is processed before its open event stays open for ever and swallows the rest of its line; each scene is run twice: with "
                 "std::sort keeping and with std::sort reversing the order of equivalent elements", floor=10)
    fn = prog.fn("dialect::OrthoPlanariser::computeNodeGroups")

    def node(i, x, y):
        return default_obj(prog, "dialect::Node", {"_id": i, "m_cx": Fraction(x), "m_cy": Fraction(y)})
    scenes = {
        "end to end with a zero-length segment in the middle": [(10, 0, 5), (10, 5, 5), (10, 5, 9), (20, 0, 4)],
        "overlapping segments": [(10, 0, 6), (10, 4, 9), (10, 12, 15)],
        "nested segments": [(10, 0, 9), (10, 3, 5), (30, 1, 2)],
        "zero-length segment first on its line": [(10, 2, 2), (10, 2, 7), (10, 7, 11)],
        "two zero-length segments at one point": [(10, 0, 4), (10, 4, 4), (10, 4, 4), (10, 4, 8)],
    }
    for name, segs, adversarial in [(n_, s_, adv) for n_, s_ in scenes.items() for adv in (False, True)]:
        nodes, objs = [], []
        for k, (c, lo, hi) in enumerate(segs):
            a, b = node(2 * k, lo, c), node(2 * k + 1, hi, c)
            nodes += [a, b]
            objs.append(default_obj(prog, "dialect::EdgeSegment", {"orientation": 0, "constCoord": Fraction(c), "lowerBound": Fraction(lo),
                                                                    "upperBound": Fraction(hi), "openingNode": a, "closingNode": b}))
        it = Interp(prog, Oracle([]))
        # std::sort does not promise to keep equivalent elements in order: the second run hands them back reversed (what libstdc++'s
        # introsort may do beyond 16 elements); std::stable_sort is modelled as stable in both runs
        it.unstable_sort_reverses = adversarial
        if adversarial:
            name = name + " [std::sort returning equivalent events in reverse order]"
        r.count()
        try:
            g = it.call(fn, default_obj(prog, "dialect::OrthoPlanariser", {}), None, None, arg_values=[Vec(list(objs), "dialect::EdgeSegment *")])
        except Unsupported as e:
            raise AnalysisBroken("computeNodeGroups outside the interpreter subset (%s): %s" % (name, e))
        except AssertFail as e:
            r.bad(name, fn.where(), "assertion fails: %s" % e)
            continue
        groups = [[n.f["_id"] for n in grp.items] for grp in g.items]
        bad = None
        for k, (c, lo, hi) in enumerate(segs):
            if not any(2 * k in grp and 2 * k + 1 in grp for grp in groups):
                bad = bad or "segment %d ([%s,%s] on line %s) has its end nodes in no common group; groups: %s" % (k, lo, hi, c, groups)
        if bad is None and any(len(grp) < 2 for grp in groups):
            bad = "a group with fewer than two nodes: %s" % groups
        if bad is None:
            line = {}
            for k, (c, lo, hi) in enumerate(segs):
                line[2 * k] = line[2 * k + 1] = c
            if any(len({line[i] for i in grp}) > 1 for grp in groups):
                bad = "a group mixes nodes of different lines: %s" % groups
        (r.bad if bad else r.ok)(name, fn.where(), bad or "%d groups" % len(groups))


def rule_crossings(chk, prog):
    """OrthoPlanariser::computeCrossings: crossings are found where segments cross, and nowhere else."""
    from fractions import Fraction
    from ..microai.interp import Interp, Obj, Vec, Oracle, Unsupported, AssertFail, default_obj
    r = chk.rule("CROSSINGS-EXACT", "OrthoPlanariser::computeCrossings interpreted on small orthogonal segment sets: a plain crossing, a T-junction, a "
                 "route with a ONE-UNIT JOG (a vertical segment shorter than the sweep's tolerance) above a distant horizontal edge, a short "
                 "horizontal segment beside a distant vertical edge, a ZERO-LENGTH segment (repeated route point) beside a distant vertical edge, "
                 "two crossings on one line: the crossing nodes created are exactly the geometric crossings (a segment whose close event is "
                 "sorted before its open event must not stay open and `cross` everything further along the sweep), and every segment still "
                 "runs from its opening to its closing node; each scene with std::sort keeping and reversing equivalent elements", floor=12)
    fn = prog.fn("dialect::OrthoPlanariser::computeCrossings")
    F = Fraction

    def node(i, x, y):
        return default_obj(prog, "dialect::Node", {"_id": i, "m_ID": i, "m_cx": F(x), "m_cy": F(y)})

    def seg(a, b):
        ax, ay, bx, by = a.f["m_cx"], a.f["m_cy"], b.f["m_cx"], b.f["m_cy"]
        if abs(by - ay) <= abs(bx - ax):
            lo, hi = (a, b) if bx > ax else (b, a)
            return default_obj(prog, "dialect::EdgeSegment", {"orientation": 0, "constCoord": ay, "lowerBound": lo.f["m_cx"], "upperBound": hi.f["m_cx"],
                                                              "openingNode": lo, "closingNode": hi})
        lo, hi = (a, b) if by > ay else (b, a)
        return default_obj(prog, "dialect::EdgeSegment", {"orientation": 1, "constCoord": ax, "lowerBound": lo.f["m_cy"], "upperBound": hi.f["m_cy"],
                                                          "openingNode": lo, "closingNode": hi})
    scenes = [
        ("plain crossing", [((0, 50), (100, 50)), ((50, 0), (50, 100))], [(50, 50)]),
        ("T-junction (vertical ends on the horizontal)", [((0, 50), (100, 50)), ((50, 0), (50, 50))], []),
        ("route with a one-unit vertical jog, 100 above an edge it never meets",
         [((0, 0), (100, 0)), ((100, 0), (100, 1)), ((100, 1), (200, 1)), ((0, 100), (200, 100))], []),
        ("half-unit horizontal segment, left of a distant vertical edge", [((50, 10), (50.5, 10)), ((80, 0), (80, 20)), ((50.5, 10), (50.5, 60))], []),
        ("zero-length segment (repeated route point), left of a distant vertical edge",
         [((0, 0), (0, 40)), ((0, 40), (0, 40)), ((20, 0), (20, 80))], []),
        ("two crossings on one horizontal line", [((0, 50), (100, 50)), ((30, 0), (30, 100)), ((70, 20), (70, 90))], [(30, 50), (70, 50)]),
    ]
    for name, pairs, want in scenes:
        for adversarial in (False, True):
            nodes, segs = [], []
            cache = {}
            for k, (p, q) in enumerate(pairs):
                ends = []
                for pt in (p, q):
                    key = (F(pt[0]), F(pt[1]), k if p == q else None)       # a repeated route point is two distinct nodes at one place
                    if p == q:
                        nd = node(len(nodes), *pt)
                        nodes.append(nd)
                    else:
                        nd = cache.get(key)
                        if nd is None:
                            nd = cache[key] = node(len(nodes), *pt)
                            nodes.append(nd)
                    ends.append(nd)
                segs.append(seg(*ends))
            created = []

            def alloc(it_, recv, args):
                o = default_obj(prog, "dialect::Node", {"_id": 1000 + len(created), "m_ID": 1000 + len(created), "m_cx": F(0), "m_cy": F(0)})
                created.append(o)
                return o
            it = Interp(prog, Oracle([]), max_steps=3000000)
            it.unstable_sort_reverses = adversarial
            it.vhooks["dialect::Node::allocate"] = alloc
            it.vhooks["dialect::Graph::getIEL"] = lambda it_, rc, a: F(80)
            pl = default_obj(prog, "dialect::OrthoPlanariser", {"m_edgeSegments": Vec(list(segs), "dialect::EdgeSegment *"), "m_givenGraph": Obj("dialect::Graph", {})})
            inst = name + (" [std::sort returning equivalent events in reverse order]" if adversarial else "")
            r.count()
            try:
                out = it.call(fn, pl, None, None, arg_values=[])
            except Unsupported as e:
                raise AnalysisBroken("computeCrossings outside the interpreter subset (%s): %s" % (inst, e))
            except AssertFail as e:
                r.bad(inst, fn.where(), "assertion fails: %s" % e)
                continue
            got = sorted((F(x.f["m_cx"]), F(x.f["m_cy"])) for x in out.items)
            bad = None
            if got != sorted((F(a), F(b)) for a, b in want):
                bad = "crossing nodes created at %s, the segments cross at %s" % ([(str(a), str(b)) for a, b in got], want)
            for sg in pl.f["m_edgeSegments"].items:
                o_, c_ = sg.f["openingNode"], sg.f["closingNode"]
                var = "m_cx" if sg.f["orientation"] == 0 else "m_cy"
                if bad is None and (F(o_.f[var]) != F(sg.f["lowerBound"]) or F(c_.f[var]) != F(sg.f["upperBound"]) or F(sg.f["lowerBound"]) > F(sg.f["upperBound"])):
                    bad = "a segment's bounds [%s, %s] no longer match its end nodes (%s, %s)" % (sg.f["lowerBound"], sg.f["upperBound"], o_.f[var], c_.f[var])
            (r.bad if bad else r.ok)(inst, fn.where(), bad or "%d crossing(s)" % len(got))


def rule_route_clears(chk, prog):
    r = chk.rule("ROUTE-CLEARS-BENDS", "Graph::route discards the per-edge state of an earlier routing / planarisation before it routes again: every "
                 "path to RoutingAdapter::route passes Graph::clearAllRoutes, which calls Edge::clearRouteAndBends for every edge, which clears "
                 "both the route and the bend nodes (planarise() reads the bend nodes of edges whose new route is straight); Graph::buildUniqueBendPoints "
                 "sets the bend nodes of EVERY edge, straight ones included (routes may also be replaced through Edge::setRoute)", floor=4)
    fn = prog.fn("dialect::Graph::route")
    g = CFG(fn)
    clr = [c for c in calls(fn) if c.get("cname") == "dialect::Graph::clearAllRoutes"]
    rt = [c for c in calls(fn) if c.get("cname") == "dialect::RoutingAdapter::route"]
    r.count()
    if not rt:
        raise AnalysisBroken("Graph::route no longer calls RoutingAdapter::route")
    if not clr or g.must_precede([c["id"] for c in clr], rt[0]["id"]) is not None:
        r.bad("Graph::route", fn.where(), "the graph is routed again without clearAllRoutes(): edges that become straight keep the bend nodes of "
              "the previous planarisation")
    else:
        r.ok("Graph::route", fn.loc(clr[0]))
    fc = prog.fn("dialect::Graph::clearAllRoutes")
    cs = [c for c in calls(fc) if c.get("cname") == "dialect::Edge::clearRouteAndBends"]
    loops = [n for n in fc.nodes() if n.get("k") == "CXXForRangeStmt"]
    r.count()
    ok = bool(cs) and len(loops) == 1 and "m_edges" in norm(loops[0].get("range")) and CFG(fc).iteration_can_skip(loops[0], [cs[0]["id"]]) is None
    (r.ok if ok else r.bad)("Graph::clearAllRoutes", fc.where(), "" if ok else "not every edge of the graph has clearRouteAndBends() called")
    fb = prog.fn("dialect::Graph::buildUniqueBendPoints")
    sb = [c for c in calls(fb) if c.get("cname") == "dialect::Edge::setBendNodes"]
    el = [n for n in fb.nodes() if n.get("k") in ("CXXForRangeStmt", "ForStmt") and "m_edges" in (norm(n.get("range")) if n.get("range") is not None else norm(n.get("init")) + norm(n.get("cond")))]
    r.count()
    if not sb or not el:
        raise AnalysisBroken("buildUniqueBendPoints: loop over the edges / setBendNodes not found")
    skip = CFG(fb).iteration_can_skip(el[0], [c["id"] for c in sb])
    (r.ok if skip is None else r.bad)("Graph::buildUniqueBendPoints", fb.loc(el[0]), "" if skip is None else
                                     "an edge can pass through buildUniqueBendPoints without its bend nodes being set (%s): an edge whose route has "
                                     "become straight keeps the bend nodes of an earlier planarisation, which are not nodes of the new graph" % CFG(fb).describe(skip))
    fe = prog.fn("dialect::Edge::clearRouteAndBends")
    cleared = {norm(call_object(c)) for c in calls(fe) if str(c.get("cname", "")).endswith("::clear")}
    r.count()
    (r.ok if {"m_route", "m_bendNodes"} <= cleared else r.bad)("Edge::clearRouteAndBends", fe.where(), "" if {"m_route", "m_bendNodes"} <= cleared else
                                                              "clears only %s" % sorted(cleared))


def rule_planarise_coverage(chk, prog):
    """Each stage of the planariser builds a NEW graph; what is not copied over is gone."""
    r = chk.rule("PLANARISE-COVERAGE", "OrthoPlanariser::removeEdgeOverlaps / removeEdgeCrossings build a fresh graph each: every loop that carries "
                 "nodes or edges over (ghosts of the given graph's nodes, the unique bend points, ghosts of the overlap-free graph's nodes, the "
                 "crossing nodes; one edge per consecutive pair of every node group, one edge per edge segment) runs over the whole source "
                 "collection and no iteration can end without Graph::addNode / addEdge -- nothing about a node (degree, kind) lets it be left "
                 "behind, an isolated original node included", floor=6)
    # (source collections are named only where the name is a member / accessor; locals may be renamed freely: they are counted)
    want = {"dialect::OrthoPlanariser::removeEdgeOverlaps": [("dialect::Graph::addNode", "getNodeLookup()", 1), ("dialect::Graph::addNode", "", 2),
                                                            ("dialect::Graph::addEdge", "", 1)],
            "dialect::OrthoPlanariser::removeEdgeCrossings": [("dialect::Graph::addNode", "getNodeLookup()", 1), ("dialect::Graph::addNode", "", 2),
                                                             ("dialect::Graph::addEdge", "", 1)]}
    for q, items in want.items():
        fn = prog.fn(q)
        g = CFG(fn)
        adders = [c for c in calls(fn) if c.get("cname") in ("dialect::Graph::addNode", "dialect::Graph::addEdge")]
        found = []
        for c in adders:
            loops = [a for a in fn.ancestors(c) if a.get("k") in ("CXXForRangeStmt", "ForStmt")]
            r.count()
            inst = "%s in %s (line %s)" % (c["cname"].split("::")[-1], q.split("::")[-1], fn.loc(c).rsplit(":", 1)[-1])
            if not loops:
                r.bad(inst, fn.loc(c), "not applied in a loop over a collection")
                continue
            bad = None
            for lp in loops:                      # innermost first; every enclosing loop must reach the adder on every iteration too, unless it is
                skip = g.iteration_can_skip(lp, [c["id"]])     # the counting loop `i + 1 < gp.size()` whose body is the adder
                if skip is not None and lp is loops[0]:
                    bad = "an iteration of the loop at line %s can end without %s (%s)" % (lp.get("l"), c["cname"].split("::")[-1], g.describe(skip))
                    break
            rng = norm(loops[0].get("range")) if loops[0].get("k") == "CXXForRangeStmt" else norm(loops[0].get("cond"))
            found.append((c["cname"], rng))
            (r.bad if bad else r.ok)(inst, fn.loc(c), bad or "over `%s`" % rng)
        for cname, src_, need in items:
            r.count()
            hit = [f for f in found if f[0] == cname and src_ in f[1]]
            what = "%s: at least %d loop(s) with %s%s" % (q.split("::")[-1], need, cname.split("::")[-1], (" over " + src_) if src_ else "")
            (r.ok if len(hit) >= need else r.bad)(what, fn.where(), "" if len(hit) >= need else
                                                  "only %d such loop(s) left (found: %s): part of the old graph is no longer carried over" % (len(hit), found))


def rule_sibling_trees(chk, prog):
    """Tree::symmetricLayout: how the child trees of a node are put side by side."""
    from fractions import Fraction
    from ..microai.interp import Interp, Obj, Vec, MapVal, Box, Oracle, Unsupported, AssertFail, default_obj
    from .c14 import _enum
    r = chk.rule("SIBLING-TREES-APART", "the placement step of Tree::symmetricLayout (body of the loop over the child trees of one isomorphism class), "
                 "interpreted as a fragment for sequences of already laid-out child trees with ASYMMETRIC per-rank bounds -- a central tree followed "
                 "by trees on the positive and the negative side, and sides only -- for a vertical and a horizontal growth direction, tight and "
                 "loose boundaries: after every step the rank intervals of the placed child trees are pairwise disjoint on every rank, and the "
                 "parent's per-rank bounds and overall bounds enclose all of them (they are what the next tree, and the parent's own parent, is "
                 "kept away from)", floor=8)
    fn = prog.fn("dialect::Tree::symmetricLayout")
    loops = [n for n in fn.nodes() if n.get("k") == "CXXForRangeStmt" and n.get("var", {}).get("name") == "t"]
    if len(loops) != 1:
        loops = [n for n in fn.nodes() if n.get("k") == "CXXForRangeStmt" and any(
            x.get("k") == "DeclRefExpr" and x.get("ref") == "mustPlaceCentralTree" for x in walk(n.get("body") or {}))]
        loops = loops[-1:] if loops else []
    if len(loops) != 1:
        raise AnalysisBroken("symmetricLayout: the loop over the child trees of a class was not found")
    body = loops[0]["body"]
    dids = {}
    for d in fn.nodes():
        if d.get("k") == "VarDecl" and d.get("name") in ("t", "mustPlaceCentralTree", "positiveNext", "baseTrans"):
            dids[d["name"]] = d["did"]
    for p_ in fn.params:
        dids[p_["name"]] = p_["did"]
    need = {"t", "mustPlaceCentralTree", "positiveNext", "baseTrans", "growthDir", "nodeSep"}
    if not need <= set(dids):
        raise AnalysisBroken("symmetricLayout: locals of the placement step not found (%s)" % sorted(need - set(dids)))
    F = Fraction

    def child(ranks, tight, gd):
        return default_obj(prog, "dialect::Tree", {
            "m_lb": min(F(a) for a, b in ranks), "m_ub": max(F(b) for a, b in ranks), "m_isSymmetric": False, "m_growthDir": gd,
            "m_nodes": MapVal({}), "m_depth": len(ranks), "m_boundaryTight": tight,
            "m_boundsByRank": Vec([Vec([F(a), F(b)], "double") for a, b in ranks], "std::vector<double>")})
    A2 = [(-1, 1), (-1, 6)]                   # leans to the positive side
    B2 = [(-1, 1), (-5, 1)]                   # leans to the negative side
    A3 = [(-1, 1), (-2, 1), (-1, 7)]
    seqs = [("central tree, then one tree on each side", True, [A2, B2, B2]),
            ("central tree of depth 3, then a deeper and a shallower side tree", True, [A3, A3, B2]),
            ("sides only (four trees)", False, [A2, A2, B2, B2]),
            ("sides only, mixed depths", False, [A3, B2, A2, A3])]
    for name, central, kids in seqs:
        for gname in ("dialect::CardinalDir::SOUTH", "dialect::CardinalDir::EAST"):
            for tight in (True, False):
                gd = _enum(prog, gname)
                depth = 1 + max(len(k) for k in kids)
                parent = default_obj(prog, "dialect::Tree", {
                    "m_lb": F(-1), "m_ub": F(1), "m_isSymmetric": False, "m_growthDir": gd, "m_nodes": MapVal({}), "m_depth": depth,
                    "m_boundaryTight": tight,
                    "m_boundsByRank": Vec([Vec([F(-1), F(1)], "double")] + [Vec([F(0), F(0)], "double") for _ in range(depth - 1)], "std::vector<double>")})
                vertical = gname.endswith("SOUTH") or gname.endswith("NORTH")
                base = default_obj(prog, "Avoid::Point", {"x": F(0) if vertical else F(10), "y": F(10) if vertical else F(0)})
                must, posn = Box(central), Box(True)
                placed = []
                inst = "%s; growth %s; %s boundary" % (name, gname.split("::")[-1], "tight" if tight else "loose")
                r.count()
                bad = None
                for k, ranks in enumerate(kids):
                    t = child(ranks, tight, gd)
                    env = {dids["t"]: Box(t), dids["mustPlaceCentralTree"]: must, dids["positiveNext"]: posn, dids["baseTrans"]: Box(base),
                           dids["growthDir"]: Box(gd), dids["nodeSep"]: Box(F(1, 2)), "this": parent}
                    it = Interp(prog, Oracle([]), max_steps=200000)
                    try:
                        it.ex(body, env)
                    except Unsupported as e:
                        raise AnalysisBroken("placement step of symmetricLayout outside the interpreter subset (%s): %s" % (inst, e))
                    except AssertFail as e:
                        bad = "assertion fails: %s" % e
                        break
                    placed.append(t)
                    for rk in range(1, depth):
                        ivs = []
                        for j, c in enumerate(placed):
                            if rk - 1 < c.f["m_depth"]:
                                row = c.f["m_boundsByRank"].items[rk - 1].items
                                ivs.append((F(row[0]), F(row[1]), j))
                        for x in range(len(ivs)):
                            for y in range(x):
                                if min(ivs[x][1], ivs[y][1]) > max(ivs[x][0], ivs[y][0]):
                                    bad = bad or ("after placing child %d: on rank %d child %d occupies [%s, %s] and child %d [%s, %s] -- they overlap" % (
                                        k, rk, ivs[y][2], ivs[y][0], ivs[y][1], ivs[x][2], ivs[x][0], ivs[x][1]))
                        prow = parent.f["m_boundsByRank"].items[rk].items
                        if ivs and (F(prow[0]) > min(i_[0] for i_ in ivs) or F(prow[1]) < max(i_[1] for i_ in ivs)):
                            bad = bad or ("after placing child %d: the parent records [%s, %s] for rank %d, but its child trees reach from %s to %s there" % (
                                k, prow[0], prow[1], rk, min(i_[0] for i_ in ivs), max(i_[1] for i_ in ivs)))
                    lo = min([F(-1)] + [F(c.f["m_lb"]) for c in placed])
                    hi = max([F(1)] + [F(c.f["m_ub"]) for c in placed])
                    if F(parent.f["m_lb"]) > lo or F(parent.f["m_ub"]) < hi:
                        bad = bad or "after placing child %d: the parent's bounds [%s, %s] do not enclose its child trees [%s, %s]" % (
                            k, parent.f["m_lb"], parent.f["m_ub"], lo, hi)
                    if bad:
                        break
                (r.bad if bad else r.ok)(inst, fn.loc(loops[0]), bad or "%d child trees" % len(kids))


def rule_leaf_bounds(chk, prog):
    from fractions import Fraction as F
    from ..microai.interp import Interp, Vec, Oracle, Unsupported, AssertFail, default_obj
    from .c14 import _enum
    r = chk.rule("LEAF-TREE-BOUNDS", "Tree::symmetricLayout interpreted whole on a leaf tree (depth 1, root 20 wide and 60 high, root somewhere else, "
                 "stale bounds) for each requested growth direction and each PREVIOUS growth direction of the tree object: afterwards the tree "
                 "records the requested direction, its root is at the origin, and its overall and rank-0 bounds are minus / plus half the root's "
                 "extent ACROSS the requested direction (width for north / south, height for east / west) -- these are the intervals the parent "
                 "keeps its child trees apart by", floor=8)
    fn = prog.fn("dialect::Tree::symmetricLayout")
    dirs = ("EAST", "SOUTH", "WEST", "NORTH")
    for prev in ("NORTH", "EAST"):
        for g in dirs:
            r.count()
            gd = _enum(prog, "dialect::CardinalDir::" + g)
            root = default_obj(prog, "dialect::Node", {"m_w": F(20), "m_h": F(60), "m_cx": F(5), "m_cy": F(7)})
            t = default_obj(prog, "dialect::Tree", {"m_root": root, "m_depth": 1, "m_growthDir": _enum(prog, "dialect::CardinalDir::" + prev),
                                                    "m_lb": F(-3), "m_ub": F(4), "m_isSymmetric": False,
                                                    "m_boundsByRank": Vec([Vec([F(-3), F(4)], "double")], "std::vector<double>")})
            it = Interp(prog, Oracle([]), max_steps=100000)
            bad = None
            try:
                it.call(fn, t, None, None, arg_values=[gd, F(1), F(2), True])
            except Unsupported as e:
                raise AnalysisBroken("symmetricLayout on a leaf outside the interpreter subset: %s" % e)
            except AssertFail as e:
                bad = "assertion fails: %s" % e
            if not bad:
                half = F(10) if g in ("SOUTH", "NORTH") else F(30)
                rows = t.f["m_boundsByRank"].items
                got = (F(t.f["m_lb"]), F(t.f["m_ub"]))
                if got != (-half, half):
                    bad = "the leaf's bounds are [%s, %s]; half the root's extent across the growth direction is %s" % (got[0], got[1], half)
                elif len(rows) != 1 or (F(rows[0].items[0]), F(rows[0].items[1])) != (-half, half):
                    bad = "the leaf's rank-0 bounds are %s, expected [%s, %s]" % ([str(x) for x in rows[0].items] if rows else "missing", -half, half)
                elif t.f["m_growthDir"] != gd:
                    bad = "the tree does not record the requested growth direction"
                elif (F(root.f["m_cx"]), F(root.f["m_cy"])) != (0, 0):
                    bad = "the root is left at (%s, %s)" % (root.f["m_cx"], root.f["m_cy"])
            (r.bad if bad else r.ok)("leaf grown %s, previously %s" % (g, prev), fn.where(), bad or "")


def run(chk):
    prog = chk.load()
    chk.guard(rule_planarise_coverage, chk, prog)
    chk.guard(rule_leaf_bounds, chk, prog)
    chk.guard(rule_sibling_trees, chk, prog)
    chk.guard(rule_peel, chk, prog)
    chk.guard(rule_stems, chk, prog)
    chk.guard(rule_buckets, chk, prog)
    chk.guard(rule_buckets_in_range, chk, prog)
    chk.guard(rule_components, chk, prog)
    chk.guard(rule_node_groups, chk, prog)
    chk.guard(rule_crossings, chk, prog)
    chk.guard(rule_route_clears, chk, prog)
    from ..rules import mirrors
    r_m = chk.rule("MIRROR", "the x / y accessors of the planarisation events stay mirror images (tables/mirrors.json)", floor=1)
    mirrors.check(r_m, prog, ["dialect::Event::"])
    from .c14 import rule_tree_flip
    chk.guard(rule_tree_flip, chk, prog)          # bounds of a flipped / translated tree: what keeps sibling trees off each other
