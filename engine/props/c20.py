"""C20 -- results are reproducible: no dependence on addresses, clocks, random devices or indeterminate memory.

Decides:
  PTR-ORDER-CMP        no ordering predicate (operator() of a comparator, operator<, function handed to a sort/heap algorithm) applies
                       < > <= >= to two pointers, except as the final fallback after an id comparison, or at a site reviewed in
                       tables/ptr_order_reviewed.json (address order provably cannot reach a result there)
  PTR-ORDER-CONTAINER  every order-observing use (begin/rbegin/range-for/lower_bound) of a std::set / std::map keyed by raw pointers with
                       the default (address) order is a reviewed site; a new one is a violation
  NONDET-SOURCES       library code reads clocks / time only at the reviewed sites (progress callback timing, log stamps, profiling
                       timers) and never rand/srand/random_device
  SEEDED-PRNG          cola::PseudoRandom is a pure linear congruential generator: constant default seed, state only in the object
  ID-TIEBREAK          CompareConstraints (both solver copies): equal slack is resolved through left->id, then right->id -- never by address
  GLOBAL-STATE         mutable process-wide state (globals, static members, static locals) and its writers are exactly the reviewed ones
  PAIRED-BORDERS       (shared with C09) the process-wide Rectangle borders are restored on every path of every function that changes them
  TURN-PRUNE-MIRROR    (shared with C05) the x and y turn-pruning blocks of the A* search are mirror images (orientation independence)
  INIT                 (shared with C15) no constructor leaves a scalar member indeterminate that is later read
Not decided: translation / rotation / permutation invariance of numerical results.
"""
import json
import os
import re

from ..astq import strip, strip_casts, calls, call_args, call_object, norm, literal_value, src, writes, written_field
from ..facts import AnalysisBroken, VERIF, walk
from ..cfg import CFG
from ..rules import ptrorder
from .c15 import rule_init

NONDET = {"rand", "srand", "random", "srandom", "drand48", "time", "clock", "gettimeofday", "clock_gettime", "getpid", "std::rand", "std::srand",
          "std::time", "std::clock"}


def split_targs(s):
    out, d, cur = [], 0, ""
    for ch in s:
        if ch == "<":
            d += 1
        if ch == ">":
            d -= 1
        if ch == "," and d == 0:
            out.append(cur.strip())
            cur = ""
        else:
            cur += ch
    out.append(cur.strip())
    return out


def ptr_default_container(t):
    m = re.match(r"(?:const )?std::(set|map|multiset|multimap)<(.*)>$", t.strip().rstrip("&").strip())
    if not m:
        return None
    kind, args = m.group(1), split_targs(m.group(2))
    nkey = 1 if "set" in kind else 2
    k0 = args[0].replace("const ", "").strip()
    if not (k0.endswith("*") or k0.startswith("std::shared_ptr<") or k0.startswith("std::pair<") and _pair_has_ptr(k0)):
        return None
    if len(args) > nkey and not args[nkey].startswith("std::less<"):
        return None
    return kind, args[0]


def _pair_has_ptr(t):
    inner = split_targs(t[t.find("<") + 1:t.rfind(">")])
    return any(x.replace("const ", "").strip().endswith("*") or x.strip().startswith("std::shared_ptr<") for x in inner)


def container_sites(prog):
    out = {}
    for f in prog.all_functions():
        if f.tmpl == "pattern":
            continue
        for n in f.nodes():
            if n.get("k") == "CXXMemberCallExpr":
                cn = n.get("cname", "")
                m = re.match(r"(std::(?:set|map|multiset|multimap)<.*>)::(begin|rbegin|cbegin|crbegin|lower_bound|upper_bound)$", cn)
                if m:
                    pd = ptr_default_container(m.group(1))
                    if pd:
                        out.setdefault((f.q, norm(call_object(n))), []).append((f, n, pd))
            elif n.get("k") == "CXXForRangeStmt":
                pd = ptr_default_container(strip(n["range"]).get("t", ""))
                if pd:
                    out.setdefault((f.q, norm(n["range"])), []).append((f, n, pd))
    return out


def load_reviewed():
    p = os.path.join(VERIF, "tables", "ptr_order_reviewed.json")
    return json.load(open(p))


def rule_ptr_cmp(chk, prog, reviewed):
    r = chk.rule("PTR-ORDER-CMP", "in every ordering predicate of the five libraries a relational comparison of two pointers is either the final "
                 "fallback after an id comparison or a reviewed site (tables/ptr_order_reviewed.json: comparators)", floor=30)
    table = reviewed["comparators"]
    cmps = ptrorder.comparator_functions(prog)
    for k, f in sorted(cmps.items()):
        cl = ptrorder.classify(f)
        r.count(max(1, len(cl)))
        raw = [s for s, c in cl if c == "raw"]
        if not raw:
            r.ok(f.q, f.where(), "%d address comparisons, all fallbacks after ids" % len(cl) if cl else "", nontrivial=bool(cl))
            continue
        for s in raw:
            inst = "%s: %s" % (f.q, norm(s))
            if inst in table:
                r.ok(inst, f.loc(s), "reviewed: " + table[inst])
            else:
                r.bad(inst, f.loc(s), "ordering predicate compares the addresses `%s`: the order of equal-keyed elements, and whatever is derived "
                      "from it, depends on where the allocator placed the objects" % norm(s))


def rule_ptr_containers(chk, prog, reviewed):
    r = chk.rule("PTR-ORDER-CONTAINER", "order-observing uses of std::set<T*> / std::map<T*,..> with the default address order are exactly the "
                 "reviewed (function | container) sites of tables/ptr_order_reviewed.json: containers", floor=10)
    table = reviewed["containers"]
    sites = container_sites(prog)
    for (fq, obj), lst in sorted(sites.items()):
        inst = "%s | %s" % (fq, obj)
        f, n, pd = lst[0]
        r.count(len(lst))
        if inst in table:
            r.ok(inst, f.loc(n), "reviewed: " + table[inst])
        else:
            r.bad(inst, f.loc(n), "iterates a std::%s keyed by %s in address order: the visiting order depends on the allocator" % (pd[0], pd[1]))


def rule_nondet(chk, prog, reviewed):
    r = chk.rule("NONDET-SOURCES", "calls of rand/srand/random/time/clock/gettimeofday/std::random_device/std::chrono::*::now in library code are "
                 "exactly the reviewed sites (tables/ptr_order_reviewed.json: nondet_sources), none of which feeds a result", floor=2)
    table = reviewed["nondet_sources"]
    seen = 0
    for f in prog.all_functions():
        if f.tmpl == "pattern":
            continue
        for n in f.nodes():
            cn = n.get("cname", "")
            hit = cn in NONDET or cn.startswith("std::random_device") or (cn.startswith("std::chrono::") and cn.endswith("::now")) \
                or cn.startswith("std::random_shuffle") or cn.startswith("std::shuffle")
            if n.get("k") in ("CXXConstructExpr", "CXXTemporaryObjectExpr") and str(n.get("cname", "")).startswith("std::random_device"):
                hit = True
            if not hit:
                continue
            seen += 1
            inst = "%s: %s" % (f.q, cn.split("(")[0])
            r.count()
            if inst in table:
                r.ok(inst, f.loc(n), "reviewed: " + table[inst])
            else:
                r.bad(inst, f.loc(n), "library code reads a non-deterministic source (%s)" % cn)
    # positive control: the rule must recognise the calls it is about
    if seen < 2:
        raise AnalysisBroken("NONDET-SOURCES matched %d call sites; the reviewed tree has at least the two clock() reads of Avoid::Router" % seen)


def rule_prng(chk, prog):
    r = chk.rule("SEEDED-PRNG", "cola::PseudoRandom: the constructor's default seed is a literal, getNext() updates only this->seed from "
                 "this->seed and the four constants, there is no static state", floor=1)
    rec = prog.record("cola::PseudoRandom")
    bad = None
    if rec.get("statics"):
        bad = "has static data members %s" % [s_["name"] for s_ in rec["statics"]]
    ctor = [f for f in prog.all_functions() if f.cls == "cola::PseudoRandom" and f.kind == "ctor"]
    gn = prog.fn("cola::PseudoRandom::getNext")
    for lhs, node, op in writes(gn):
        fq, elem, mn = written_field(lhs)
        if fq != "cola::PseudoRandom::seed":
            bad = bad or "getNext writes %s" % (fq or norm(lhs))
    for n in gn.nodes():
        if n.get("k") == "DeclRefExpr" and n.get("rk") == "Var" and "::" in str(n.get("ref")):
            bad = bad or "getNext reads the global %s" % n.get("ref")
        if "callee" in n:
            bad = bad or "getNext calls %s" % n.get("cname")
        if n.get("k") == "VarDecl" and n.get("static"):
            bad = bad or "getNext has a static local"
    # default seed: find a construction using the default argument
    dv = None
    for f in prog.all_functions():
        for n in f.nodes():
            if n.get("k") in ("CXXConstructExpr",) and n.get("cname") == "cola::PseudoRandom":
                for a in n.get("ch", []):
                    if a.get("k") == "CXXDefaultArgExpr" and a.get("expr") is not None:
                        dv = literal_value(a["expr"])
        for i in f.d.get("inits", []):
            e = i.get("expr")
            if e is not None and strip(e) is not None and strip(e).get("cname") == "cola::PseudoRandom":
                for a in strip(e).get("ch", []):
                    if a.get("k") == "CXXDefaultArgExpr" and a.get("expr") is not None:
                        dv = literal_value(a["expr"])
    if dv is None:
        bad = bad or "default seed is not a literal constant"
    r.count()
    (r.bad if bad else r.ok)("cola::PseudoRandom", gn.where(), bad or "default seed %s" % dv)


def rule_id_tiebreak(chk, prog):
    from ..microai.interp import Interp, Obj, Oracle, enumerate_paths, AssertFail, Unsupported, default_obj
    from ..microai.poly import Poly
    from fractions import Fraction
    r = chk.rule("ID-TIEBREAK", "CompareConstraints::operator()(l, r) (both copies), interpreted with equal slack: the result is decided by "
                 "left->id, then right->id (a strict weak order on ids), independent of the objects' addresses", floor=2)
    for ns in ("vpsc", "Avoid"):
        fn = prog.fn(ns + "::CompareConstraints::operator()")
        bad = None
        n = 0

        def mk(lid, rid, ts=0):
            blk_l = default_obj(prog, ns + "::Block", {"timeStamp": 0, "posn": Fraction(0)})
            blk_l.f["ps"] = default_obj(prog, ns + "::PositionStats", {"scale": Fraction(1)})
            blk_r = default_obj(prog, ns + "::Block", {"timeStamp": 0, "posn": Fraction(0)})
            blk_r.f["ps"] = default_obj(prog, ns + "::PositionStats", {"scale": Fraction(1)})
            L = default_obj(prog, ns + "::Variable", {"id": lid, "block": blk_l, "scale": Fraction(1), "offset": Fraction(0)})
            R = default_obj(prog, ns + "::Variable", {"id": rid, "block": blk_r, "scale": Fraction(1), "offset": Fraction(5)})
            return default_obj(prog, ns + "::Constraint", {"left": L, "right": R, "gap": Fraction(2), "timeStamp": 1, "needsScaling": False})
        flip = (ns == "Avoid")      # libavoid's heap is a max-heap: the final slack comparison is reversed, the id tie-break is not
        for (a, b) in (((1, 2), (1, 3)), ((1, 3), (1, 2)), ((1, 2), (2, 1)), ((2, 1), (1, 2)), ((1, 2), (1, 2))):
            c1, c2 = mk(*a), mk(*b)
            it = Interp(prog, Oracle([]))
            try:
                got = it.call(fn, default_obj(prog, ns + "::CompareConstraints", {}), None, None, arg_values=[c1, c2])
            except (Unsupported, AssertFail) as e:
                raise AnalysisBroken("%s::CompareConstraints outside the interpreter subset: %s" % (ns, e))
            n += 1
            want = (a[0] < b[0]) if a[0] != b[0] else (a[1] < b[1])
            if bool(got) != want:
                bad = "equal slack, ids %s vs %s: returns %s, expected %s (order by left id, then right id)" % (a, b, got, want)
        r.count(n)
        (r.bad if bad else r.ok)(ns + "::CompareConstraints::operator()", fn.where(), bad or "")


def rule_global_state(chk, prog):
    r = chk.rule("GLOBAL-STATE", "the mutable process-wide state of the libraries (non-const namespace-scope variables, static data members, "
                 "static locals) and the functions that store to it are exactly the reviewed entries of tables/global_state.json: anything "
                 "else would let earlier calls influence later results", floor=9)
    table = json.load(open(os.path.join(VERIF, "tables", "global_state.json")))
    tg, tl = table["globals"], table["static_locals"]
    mutable = {q: v for q, v in prog.vars.items() if "const" not in str(v.get("t", "")).replace("const char *", "")}
    writers = {}
    for f in prog.all_functions():
        if f.tmpl == "pattern":
            continue
        for lhs, node, op in writes(f):
            e = strip_casts(lhs)
            while e is not None and e.get("k") in ("ArraySubscriptExpr",):
                e = strip_casts(e["ch"][0])
            if e is not None and e.get("rk") == "Var" and str(e.get("ref")) in prog.vars:
                writers.setdefault(str(e.get("ref")), set()).add(f.q)
        # mutation through non-const member calls on a global container (push_back ...)
        for n in calls(f):
            if n.get("k") == "CXXMemberCallExpr" and not n.get("constm"):
                o = call_object(n)
                o = strip_casts(o) if o is not None else None
                if o is not None and o.get("k") == "DeclRefExpr" and str(o.get("ref")) in mutable and \
                        _basename_(n.get("cname", "")) in ("push_back", "insert", "clear", "erase", "resize", "emplace_back", "pop_back", "assign"):
                    writers.setdefault(str(o.get("ref")), set()).add(f.q)
    for q in sorted(set(mutable) | set(tg)):
        r.count()
        if q not in mutable:
            r.ok(q, "", "no longer mutable / removed")
            continue
        v = mutable[q]
        where = "%s:%s" % (str(v.get("file", "")).replace("/repo/", ""), v.get("l"))
        if q not in tg:
            r.bad(q, where, "new mutable process-wide variable `%s` (%s): state that survives between calls" % (q, v.get("t")))
            continue
        extra = sorted(writers.get(q, set()) - set(tg[q]["writers"]))
        if extra:
            r.bad(q, where, "`%s` is now also written by %s (reviewed writers: %s)" % (q, extra, tg[q]["writers"]))
        else:
            r.ok(q, where, "reviewed: " + tg[q]["reason"])
    # callers of the border setters: the process-wide padding may only be touched by the reviewed functions, each of which leaves it at
    # the saved value or at the default 0 when it returns
    tb = table.get("border_callers", {})
    callers = {}
    for f in prog.all_functions():
        if f.tmpl == "pattern" or "/tests/" in f.file:
            continue
        for c in calls(f):
            if c.get("cname") in ("vpsc::Rectangle::setXBorder", "vpsc::Rectangle::setYBorder"):
                callers.setdefault(f.q, (f, []))[1].append(c)
    for q, (f, cs) in sorted(callers.items()):
        r.count()
        if q not in tb:
            r.bad("border setter called by " + q, f.loc(cs[0]), "%s changes the process-wide rectangle padding: unrelated later computations "
                  "(removeoverlaps, constraint generation) give different results" % q)
            continue
        from ..cfg import CFG
        g = CFG(f)
        bad = None
        for axis in ("X", "Y"):
            mine = [c for c in cs if c["cname"].endswith("set%sBorder" % axis)]
            if not mine:
                continue
            # the last call on every path to the exit passes 0 or a local saved from the static at entry
            finals = []
            for c in mine:
                a = strip_casts(call_args(c)[0])
                lit = literal_value(a)
                saved = a is not None and a.get("k") == "DeclRefExpr" and a.get("rk") == "Var" and "::" not in str(a.get("ref"))
                if lit in ("0", "0.0") or saved:
                    finals.append(c["id"])
            others = [c for c in mine if c["id"] not in finals]
            from ..rules.guards import path_condition, show
            for c in others:
                if g.must_follow(c["id"], finals) is not None:
                    # correlated branches: the reset sits under the same (unmodified) condition as the change
                    pcs = show(path_condition(f, c, inline=False))
                    same = [x for x in mine if x["id"] in finals and show(path_condition(f, x, inline=False)) == pcs and x.get("l", 0) > c.get("l", 0)]
                    if same and pcs != "true":
                        continue
                    bad = bad or "after set%sBorder(%s) the function can return without putting the border back" % (axis, norm(call_args(c)[0]))
        (r.bad if bad else r.ok)("border setter called by " + q, f.loc(cs[0]), bad or ("reviewed: " + tb[q]))
    seen = set()
    for f in prog.all_functions():
        for n in f.nodes():
            if n.get("k") == "VarDecl" and (n.get("static") or n.get("sc") == "static") and "const" not in str(n.get("t", "")):
                key = "%s: %s" % (re.sub(r"<[^<>]*>", "", f.q), n.get("name"))
                if key in seen:
                    continue
                seen.add(key)
                r.count()
                if key in tl:
                    r.ok(key, f.loc(n), "reviewed: " + tl[key])
                else:
                    r.bad(key, f.loc(n), "new mutable static local `%s` in %s: state that survives between calls" % (n.get("name"), f.q))
            elif n.get("k") == "VarDecl" and (n.get("static") or n.get("sc") == "static") and "/tests/" not in f.file:
                # a const static local is initialised once, on the first call: harmless only if the initialiser is a constant expression
                dyn = None
                for x in walk(n.get("init") or {}):
                    if x.get("k") == "DeclRefExpr" and x.get("rk") in ("Var", "ParmVar"):
                        v = prog.vars.get(str(x.get("ref")))
                        if v is None or "const" not in str(v.get("t", "")):
                            dyn = dyn or "`%s`" % x.get("ref")
                    elif x.get("k") in ("CallExpr", "CXXMemberCallExpr", "CXXOperatorCallExpr") and not str(x.get("cname", "")).startswith("std::numeric_limits"):
                        dyn = dyn or "a call of %s" % x.get("cname")
                    elif x.get("k") == "CXXThisExpr":
                        dyn = dyn or "`this`"
                key = "%s: %s" % (re.sub(r"<[^<>]*>", "", f.q), n.get("name"))
                if key in seen:
                    continue
                seen.add(key)
                r.count()
                if dyn and key not in tl:
                    r.bad(key, f.loc(n), "const static local `%s` in %s is initialised from %s: it keeps the value of the FIRST call for the rest of "
                          "the process" % (n.get("name"), f.q, dyn))
                else:
                    r.ok(key, f.loc(n), "constant initialiser" if not dyn else "reviewed: " + tl[key])


def _basename_(cname):
    from ..microai.interp import _basename
    return _basename(cname)


def rule_ptr_misc(chk, prog, reviewed):
    r = chk.rule("PTR-ORDER-MISC", "other ways an address can order things: std::sort / stable_sort / min_element / max_element / std::min / "
                 "std::max with the default comparison on pointer (or shared_ptr) operands, and iteration over unordered containers keyed "
                 "by pointers -- exactly the reviewed sites (tables/ptr_order_reviewed.json: misc)", floor=1)
    table = reviewed.get("misc", {})
    n_seen = 0
    for f in prog.all_functions():
        if f.tmpl == "pattern" or "/tests/" in f.file:
            continue
        for n in f.nodes():
            cn = n.get("cname", "")
            inst = None
            if n.get("k") == "CallExpr" and (cn.startswith("std::sort<") or cn.startswith("std::stable_sort<") or cn.startswith("std::min_element<")
                                             or cn.startswith("std::max_element<")) and len(n.get("ch", [])) == 3:
                # two iterator arguments, default operator<: element type from the iterator type
                t0 = strip(n["ch"][1]).get("t", "")
                el = t0
                if ("*" in el and ("__normal_iterator<" in el or el.rstrip().endswith("**"))) and _elem_is_ptr(el):
                    inst = "%s: %s(%s)" % (f.q, cn.split("<")[0], norm(n["ch"][1]))
            elif n.get("k") == "CallExpr" and (cn.startswith("std::min<") or cn.startswith("std::max<")) and len(n.get("ch", [])) == 3:
                t0 = strip(n["ch"][1]).get("t", "")
                if t0.replace("const", "").strip().endswith("*") or "shared_ptr<" in t0:
                    inst = "%s: %s(%s, %s)" % (f.q, cn.split("<")[0], norm(n["ch"][1]), norm(n["ch"][2]))
            elif n.get("k") == "CXXForRangeStmt":
                t0 = strip(n["range"]).get("t", "")
                m = re.match(r"(?:const )?std::unordered_(set|map|multiset|multimap)<(.*)>", t0.strip().rstrip("&").strip())
                if m and _key_is_ptr(split_targs(m.group(2))[0]):
                    inst = "%s | %s" % (f.q, norm(n["range"]))
            elif n.get("k") == "CXXMemberCallExpr" and re.match(r"std::unordered_(set|map|multiset|multimap)<.*>::(begin|cbegin)$", cn):
                m = re.match(r"std::unordered_(?:set|map|multiset|multimap)<(.*)>::", cn)
                if m and _key_is_ptr(split_targs(m.group(1))[0]):
                    inst = "%s | %s" % (f.q, norm(call_object(n)))
            if inst is None:
                continue
            n_seen += 1
            r.count()
            if inst in table:
                r.ok(inst, f.loc(n), "reviewed: " + table[inst])
            else:
                r.bad(inst, f.loc(n), "orders or visits elements by their addresses (default comparison / hash of a pointer)")
    if n_seen == 0:
        r.count()
        r.ok("no such site in the five libraries", "", "")


def _elem_is_ptr(itert):
    m = re.search(r"__normal_iterator<(.*?),", itert)
    el = m.group(1).strip() if m else itert
    el = el.replace("const", "").strip()
    return el.endswith("**") or el.endswith("* *") or ("shared_ptr<" in el and el.rstrip().endswith("*"))


def _key_is_ptr(k):
    k = k.replace("const ", "").strip()
    return k.endswith("*") or k.startswith("std::shared_ptr<")


def rule_translation(chk, prog):
    """Translating every desired position of a block by t translates the block's optimum by t (unit scales)."""
    from . import c02
    from ..microai.poly import Poly, to_poly, r_add, r_sub, num_den
    from ..microai.interp import Unsupported
    from fractions import Fraction
    r = chk.rule("TRANSLATION-EQUIVARIANT", "Block::updateWeightedPosition (both solver copies), symbolic, 1-3 unit-scale variables: replacing "
                 "every desired position d_i by d_i + t changes the block position by exactly t (rational identity); the slack of a "
                 "constraint is unchanged when both variables are translated by t", floor=2)
    c02.PROG[0] = prog
    for ns in ("vpsc", "Avoid"):
        fn = prog.fn(ns + "::Block::updateWeightedPosition")
        bad = None
        n = 0
        for k in (1, 2, 3):
            res = []
            for shift in (False, True):
                vs = [c02.mkvar(ns, i, False) for i in range(k)]
                if shift:
                    for v in vs:
                        v.f["desiredPosition"] = r_add(v.f["desiredPosition"], Poly.var("t"))
                b = c02.mkblock(ns, vs, False)
                try:
                    rows = c02.run_all(prog, fn, b, [])
                except Unsupported as e:
                    raise AnalysisBroken("%s::Block::updateWeightedPosition outside the interpreter subset: %s" % (ns, e))
                ok_rows = [out for val, descr, out in rows if out[0] == "ret"]
                if len(ok_rows) != 1:
                    raise AnalysisBroken("updateWeightedPosition: %d normal paths for %d variables" % (len(ok_rows), k))
                res.append(ok_rows[0][2].f["posn"])
            n += 1
            diff = r_sub(r_sub(res[1], res[0]), Poly.var("t"))
            dn, dd = num_den(diff)
            if dn != Poly.const(0):
                bad = bad or "with %d variable(s): translating all desired positions by t moves the block by %s, not by t" % (k, r_sub(res[1], res[0]))
        r.count(n)
        (r.bad if bad else r.ok)(ns + "::Block::updateWeightedPosition", fn.where(), bad or "")


def rule_borders_exception_safe(chk, prog):
    """The rectangle borders are process-wide: an exception that leaves a function while they are changed poisons every later call."""
    from ..callgraph import CallGraph
    from ..astq import in_macro
    r = chk.rule("BORDERS-EXCEPTION-SAFE", "every function of the five libraries that changes vpsc::Rectangle::xBorder / yBorder: if, between the change "
                 "and the next border call, it calls anything from which a `throw` is reachable in the call graph (the solver's "
                 "UnsatisfiedConstraint, libcola's InvalidVariableIndexException, ...; assertion macros excluded), the exit by exception is "
                 "protected -- the change sits in a try block whose catch-all handler puts the borders back, or a local guard object declared "
                 "before the change does so in its destructor; functions whose changed stretch cannot throw need nothing", floor=5)
    cg = CallGraph(prog)
    by_key = {f.key: f for f in prog.all_functions()}
    throws = set()
    for f in prog.all_functions():
        if f.body and any(n.get("k") == "CXXThrowExpr" and n.get("ch") and not in_macro(f, n) for n in f.nodes()):
            throws.add(f.key)
    may = set(throws)
    changed = True
    callers = {}
    for k, es in cg.edges.items():
        for e in es:
            callers.setdefault(e, set()).add(k)
    work = list(throws)
    while work:
        k = work.pop()
        for c in callers.get(k, ()):
            if c not in may:
                may.add(c)
                work.append(c)
    setters = ("vpsc::Rectangle::setXBorder", "vpsc::Rectangle::setYBorder")
    n_fn = 0
    for fn in prog.all_functions():
        if not fn.body or "/tests/" in fn.file:
            continue
        sets = [c for c in calls(fn) if c.get("cname") in setters]
        if not sets:
            continue
        n_fn += 1
        g = CFG(fn)
        set_ids = {c["id"] for c in sets}
        risky = []
        for m in sets:
            a = strip_casts(call_args(m)[0])
            if literal_value(a) in ("0", "0.0", 0):
                continue                                    # putting the default back
            for c in calls(fn):
                if c["id"] in set_ids or c.get("id") not in g.pos:
                    continue
                tgt = c.get("callee")
                cands = {tgt} | set(cg.overriders.get(tgt, ())) if c.get("virt") else {tgt}
                if not (cands & may):
                    continue
                # (same-condition pairs `if (h) set(eps); ...; if (h) set(0);` make the path that skips the second `if` infeasible: the
                # stretch ends, in source order, at the next border call after the change)
                later = [x.get("l", 0) for x in sets if x.get("l", 0) > m.get("l", 0)]
                if later and c.get("l", 0) > min(later):
                    continue
                if g.search([g.after(m["id"])], blocked=list(set_ids - {m["id"]}), targets=[c["id"]]) is not None:
                    risky.append((m, c))
        r.count()
        if not risky:
            r.ok(fn.q, fn.where(), "no throwing call while the border is changed")
            continue
        m, c = risky[0]
        prot = None
        tries = [a_ for a_ in fn.ancestors(m) if a_.get("k") == "CXXTryStmt"]
        for t in tries:
            for h in t.get("handlers", []):
                if h.get("ct") in (None, "<null>") and h.get("var") is None and any(x.get("cname") in setters for x in walk(h.get("body") or {})):
                    prot = "catch-all handler restores"
        if prot is None:
            for d in fn.nodes():
                if d.get("k") == "VarDecl" and d.get("l", 10 ** 9) <= m.get("l", 0):
                    t_ = str(d.get("t", "")).replace("struct ", "").replace("class ", "")
                    for dq in (t_, "cola::" + t_, "vpsc::" + t_, "topology::" + t_):
                        for df in prog.fns(dq + "::~" + t_.split("::")[-1]):
                            if df.body and any(x.get("cname") in setters for x in calls(df)):
                                prot = "guard object `%s` restores in its destructor" % d.get("name")
        if prot:
            r.ok(fn.q, fn.loc(m), "%s (e.g. %s may throw)" % (prot, str(c.get("cname"))))
        else:
            r.bad(fn.q, fn.loc(c), "%s can throw while the process-wide rectangle border set at line %s is still in force, and nothing restores it on "
                  "that exit: every later layout / overlap removal in the process works with enlarged rectangles" % (str(c.get("cname")), m.get("l")))
    if n_fn < 4:
        raise AnalysisBroken("functions changing the rectangle borders not found (%d)" % n_fn)


def run(chk):
    prog = chk.load()
    reviewed = load_reviewed()
    chk.guard(rule_ptr_cmp, chk, prog, reviewed)
    chk.guard(rule_ptr_containers, chk, prog, reviewed)
    chk.guard(rule_ptr_misc, chk, prog, reviewed)
    chk.guard(rule_nondet, chk, prog, reviewed)
    chk.guard(rule_prng, chk, prog)
    chk.guard(rule_id_tiebreak, chk, prog)
    chk.guard(rule_global_state, chk, prog)
    chk.guard(rule_translation, chk, prog)
    from .c09 import rule_paired_borders
    from .c05 import rule_turn_prune_mirror, rule_flags_mirror, rule_endpoint_dirs
    chk.guard(rule_paired_borders, chk, prog)
    chk.guard(rule_borders_exception_safe, chk, prog)
    chk.guard(rule_turn_prune_mirror, chk, prog)
    chk.guard(rule_flags_mirror, chk, prog)          # low/high passes of the visibility flags are mirror images
    chk.guard(rule_endpoint_dirs, chk, prog)         # up/down permitted directions are treated alike
    from ..rules import mirrors
    r = chk.rule("MIRROR", "the x and y twins of the rectangle / box accessors and movers are mirror images (tables/mirrors.json): a "
                 "transposed scene is treated as the transpose", floor=8)
    mirrors.check(r, prog, ["vpsc::Rectangle::", "Avoid::Box::", "topology::LayoutObstacle::"], sample=chk.sample)
    chk.guard(rule_init, chk, prog, prop="C20")
    from .c15 import rule_array_init
    chk.guard(rule_array_init, chk, prog)
    from .c15 import rule_point_vectors_filled
    chk.guard(rule_point_vectors_filled, chk, prog)     # a skipped element of a size-constructed Point vector is heap garbage
    from .c07 import rule_done_reset
    chk.guard(rule_done_reset, chk, prog)            # a shared convergence test must not carry state from one layout into the next
