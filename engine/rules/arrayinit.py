"""ARRAY-INIT: every user constructor gives every element of a scalar array member a value (flow-insensitive over the constructor body, member
helpers on `this` followed one level): a loop `for (i = 0; i < B; ++i) a[i] = ...` with B >= the array bound, stores to constant indices,
a mem-initialiser / default member initialiser, or memset / std::fill over the member."""
import re

from ..astq import strip_casts, writes, calls, call_args, call_object, norm, literal_value
from ..facts import walk

SCALAR_ARRAY = re.compile(r"^(const )?(double|float|bool|int|unsigned int|unsigned|long|unsigned long|short|unsigned short|char|unsigned char|size_t)"
                          r"( ?\*)?\[(\d+)\]$")


def _const_int(prog, e):
    e = strip_casts(e)
    if e is None:
        return None
    lv = literal_value(e)
    if lv is not None and re.fullmatch(r"-?\d+", str(lv)):
        return int(lv)
    if e.get("k") == "DeclRefExpr":
        if e.get("rk") == "EnumConstant" or e.get("rk") == "EnumConstantDecl":
            for en in prog.enums.values():
                for c in en.get("enumerators", []):
                    if c["name"] == str(e.get("ref", "")).split("::")[-1] and (str(en.get("q", "")).rsplit("::", 1)[0] in str(e.get("ref", "")) or True):
                        if str(e.get("ref", "")).endswith(c["name"]):
                            return int(c["v"])
        v = prog.vars.get(str(e.get("ref")))
        if v is not None and "const" in str(v.get("t", "")) and v.get("init") is not None:
            return _const_int(prog, v["init"])
    return None


def covered(prog, fn, field_q, bound, depth=1):
    """Set of indices of this->field_q that fn stores to (None = all)."""
    got = set()
    if fn.body is None:
        return got
    loops = [n for n in fn.nodes() if n.get("k") == "ForStmt"]
    for lhs, node, op in writes(fn):
        e = strip_casts(lhs)
        if e is None or e.get("k") != "ArraySubscriptExpr":
            continue
        base = strip_casts(e["ch"][0])
        if base is None or base.get("k") != "MemberExpr" or str(base.get("ref")) != field_q:
            continue
        b0 = strip_casts(base["ch"][0]) if base.get("ch") else None
        if b0 is not None and b0.get("k") != "CXXThisExpr":
            continue
        idx = strip_casts(e["ch"][1])
        k = _const_int(prog, idx)
        if k is not None:
            got.add(k)
            continue
        # loop-indexed store: the index is the induction variable of an enclosing `for (i = 0; i < B; ++i)`
        if idx is not None and idx.get("k") == "DeclRefExpr":
            for lp in loops:
                if not any(x is node or x.get("id") == node.get("id") for x in walk(lp.get("body") or {})):
                    continue
                init, cond = lp.get("init"), lp.get("cond")
                start = None
                for d in walk(init or {}):
                    if d.get("k") == "VarDecl" and d.get("did") == idx.get("did"):
                        start = _const_int(prog, d.get("init"))
                c = strip_casts(cond) if cond is not None else None
                if start == 0 and c is not None and c.get("k") == "BinaryOperator" and c.get("op") in ("<", "!="):
                    l_, r_ = strip_casts(c["ch"][0]), c["ch"][1]
                    if l_ is not None and l_.get("did") == idx.get("did"):
                        hi = _const_int(prog, r_)
                        if hi is not None:
                            got.update(range(0, hi))
    for c in calls(fn):
        cn = str(c.get("cname", ""))
        if cn in ("memset",) or cn.startswith("std::fill") or cn.startswith("std::fill_n"):
            if any(x.get("k") == "MemberExpr" and str(x.get("ref")) == field_q for a in call_args(c)[:1] for x in walk(a)):
                got.update(range(bound))
        elif depth > 0 and c.get("k") == "CXXMemberCallExpr":
            o = call_object(c)
            if o is not None and (strip_casts(o) or {}).get("k") == "CXXThisExpr":
                callee = prog.by_key.get(c.get("callee"))
                if callee is not None and callee.body is not None and callee.cls == fn.cls:
                    got |= covered(prog, callee, field_q, bound, depth - 1)
    return got


def scan(prog):
    """Yields (class, field, bound, ctor, missing-index-list)."""
    out = []
    for q, rec in sorted(prog.records.items()):
        arrays = []
        for f in rec.get("fields", []):
            m = SCALAR_ARRAY.match(str(f.get("t", "")))
            if m:
                arrays.append((f["name"], int(m.group(4)), f))
        if not arrays:
            continue
        ctors = [f for f in prog.all_functions() if f.kind == "ctor" and f.cls == q and f.tmpl != "pattern" and not f.d.get("defaulted")
                 and f.body is not None and "/tests/" not in f.file]
        for name, bound, fdecl in arrays:
            fq = "%s::%s" % (q, name)
            if fdecl.get("init") is not None or fdecl.get("has_init"):
                for c in ctors:
                    out.append((q, name, bound, c, []))
                continue
            for c in ctors:
                if c.d.get("copy") or c.d.get("move"):
                    continue
                got = set()
                for ini in c.d.get("inits", []):
                    if ini.get("member") == name and ini.get("expr") is not None:
                        got.update(range(bound))
                    if ini.get("delegating") or (ini.get("member") is None and ini.get("expr") is not None and ini.get("base") is None):
                        tgt = prog.by_key.get((ini.get("expr") or {}).get("callee"))
                        if tgt is not None and tgt.cls == q:
                            got |= covered(prog, tgt, fq, bound)
                            for i2 in tgt.d.get("inits", []):
                                if i2.get("member") == name and i2.get("expr") is not None:
                                    got.update(range(bound))
                got |= covered(prog, c, fq, bound)
                out.append((q, name, bound, c, [i for i in range(bound) if i not in got]))
    return out
