"""GUARDED-BY: the condition under which a statement executes, as a propositional formula over atoms.

path_condition(fn, node) walks the syntactic ancestors of `node` and collects, for every enclosing if / conditional
operator / loop condition, the condition (positively when the node is in the then/body part, negated in the else
part).  && || ! are interpreted; everything else is an opaque atom identified by its normal form (locals that are
initialised once are inlined).  entails(cond, required) is decided by a truth table over the atoms.

This is a syntactic (dominance-by-nesting) guard: early `continue`/`return` guards are handled separately by
negated_early_exits().
"""
import itertools

from ..astq import strip, strip_casts, norm, single_assignment_locals, literal_value
from ..facts import walk


def formula(n, sal=None):
    n = strip_casts(n)
    if n is None:
        return ("atom", "?")
    k = n.get("k")
    if k == "BinaryOperator" and n.get("op") == "&&":
        return ("and", formula(n["ch"][0], sal), formula(n["ch"][1], sal))
    if k == "BinaryOperator" and n.get("op") == "||":
        return ("or", formula(n["ch"][0], sal), formula(n["ch"][1], sal))
    if k == "UnaryOperator" and n.get("op") == "!":
        return ("not", formula(n["ch"][0], sal))
    if k == "BinaryOperator" and n.get("op") in ("==", "!="):
        l, r = n["ch"]
        lv, rv = literal_value(l), literal_value(r)
        # x == false / x == true / x != 0 on a boolean-ish operand
        for a, b in ((l, rv), (r, lv)):
            if b in ("false", "true"):
                f = formula(a, sal)
                pos = (b == "true") == (n["op"] == "==")
                return f if pos else ("not", f)
    if k == "CXXBoolLiteralExpr":
        return ("const", n.get("v") == "true")
    if k == "DeclRefExpr" and sal and n.get("did") in sal and n.get("t") == "bool":
        return formula(sal[n["did"]], sal)
    return ("atom", norm(n, sal))


def atoms(f, out=None):
    out = out if out is not None else set()
    if f[0] == "atom":
        out.add(f[1])
    elif f[0] in ("and", "or"):
        atoms(f[1], out)
        atoms(f[2], out)
    elif f[0] == "not":
        atoms(f[1], out)
    return out


def evalf(f, env):
    if f[0] == "atom":
        return env[f[1]]
    if f[0] == "const":
        return f[1]
    if f[0] == "and":
        return evalf(f[1], env) and evalf(f[2], env)
    if f[0] == "or":
        return evalf(f[1], env) or evalf(f[2], env)
    if f[0] == "not":
        return not evalf(f[1], env)
    raise ValueError(f)


def conj(fs):
    out = ("const", True)
    for f in fs:
        out = ("and", out, f)
    return out


def entails(cond, required):
    """cond => required, by truth table (at most 2^14 rows)."""
    al = sorted(atoms(cond) | atoms(required))
    if len(al) > 14:
        return False
    for vals in itertools.product((False, True), repeat=len(al)):
        env = dict(zip(al, vals))
        if evalf(cond, env) and not evalf(required, env):
            return False
    return True


def _contains(root, node):
    if root is None:
        return False
    nid = node.get("id")
    for x in walk(root):
        if x is node or (nid is not None and x.get("id") == nid):
            return True
    return False


def _always_leaves(st):
    """Statement cannot complete normally (ends in continue / break / return / throw on every path), syntactically."""
    if st is None:
        return False
    k = st.get("k")
    if k in ("ContinueStmt", "BreakStmt", "ReturnStmt"):
        return True
    if k in ("ExprWithCleanups", "CXXThrowExpr"):
        x = strip(st)
        return x is not None and x.get("k") == "CXXThrowExpr"
    if k == "CompoundStmt":
        ch = [c for c in st.get("ch", []) if c.get("k") != "NullStmt"]
        return bool(ch) and _always_leaves(ch[-1])
    if k == "IfStmt":
        return st.get("else") is not None and _always_leaves(st.get("then")) and _always_leaves(st.get("else"))
    return False


def path_condition(fn, node, inline=True, early=False):
    """Conjunction of the conditions of all enclosing ifs / ?: / loops, with polarity.
    early=True also adds the negation of every earlier sibling `if (c) { ...; continue/return/break; }` guard."""
    sal = single_assignment_locals(fn) if inline else None
    fs = []
    child = node
    for a in fn.ancestors(node):
        k = a.get("k")
        if early and k == "CompoundStmt":
            for st in a.get("ch", []):
                if st is child or (st.get("id") is not None and st.get("id") == child.get("id")):
                    break
                if st.get("k") == "IfStmt":
                    if _always_leaves(st.get("then")) and not _always_leaves(st.get("else")):
                        fs.append(("not", formula(st["cond"], sal)))
                        lc = _leave_condition(st.get("else"), sal)        # `if (a) continue; else if (b) continue;`
                        if lc != ("const", False):
                            fs.append(("not", lc))
                    elif st.get("else") is not None and _always_leaves(st.get("else")) and not _always_leaves(st.get("then")):
                        fs.append(formula(st["cond"], sal))
                        lc = _leave_condition(st.get("then"), sal)
                        if lc != ("const", False):
                            fs.append(("not", lc))
                    else:
                        # a leave nested deeper: `if (a) { ...; if (b) continue; }` lets the statement be reached only under !(a && b)
                        lc = _leave_condition(st, sal)
                        if lc != ("const", False):
                            fs.append(("not", lc))
        if k == "IfStmt":
            if _contains(a.get("then"), child):
                fs.append(formula(a["cond"], sal))
            elif _contains(a.get("else"), child):
                fs.append(("not", formula(a["cond"], sal)))
        elif k == "ConditionalOperator":
            c = a["ch"]
            if _contains(c[1], child):
                fs.append(formula(c[0], sal))
            elif _contains(c[2], child):
                fs.append(("not", formula(c[0], sal)))
        elif k in ("WhileStmt", "ForStmt"):
            if a.get("cond") is not None and _contains(a.get("body"), child):
                fs.append(formula(a["cond"], sal))
        elif k == "BinaryOperator" and a.get("op") == "&&":
            if _contains(a["ch"][1], child):
                fs.append(formula(a["ch"][0], sal))
        elif k == "BinaryOperator" and a.get("op") == "||":
            if _contains(a["ch"][1], child):
                fs.append(("not", formula(a["ch"][0], sal)))
        child = a
    return conj(fs)


def _leave_condition(st, sal):
    """Condition (over the statement's own branch conditions) under which control leaves through continue / break / return / throw
    somewhere inside st; assignments in between are ignored (atoms are opaque)."""
    if st is None:
        return ("const", False)
    k = st.get("k")
    if k in ("ContinueStmt", "BreakStmt", "ReturnStmt", "CXXThrowExpr"):
        return ("const", True)
    if k == "CompoundStmt":
        out = ("const", False)
        for c in st.get("ch", []):
            lc = _leave_condition(c, sal)
            if lc == ("const", True):
                return ("const", True) if out == ("const", False) else ("or", out, lc)
            if lc != ("const", False):
                out = lc if out == ("const", False) else ("or", out, lc)
        return out
    if k == "IfStmt":
        c = formula(st["cond"], sal)
        a, b = _leave_condition(st.get("then"), sal), _leave_condition(st.get("else"), sal)
        parts = []
        if a != ("const", False):
            parts.append(c if a == ("const", True) else ("and", c, a))
        if b != ("const", False):
            parts.append(("not", c) if b == ("const", True) else ("and", ("not", c), b))
        if not parts:
            return ("const", False)
        return parts[0] if len(parts) == 1 else ("or", parts[0], parts[1])
    return ("const", False)          # loops / switches: a leave inside them ends the inner construct, or is not modelled


def show(f):
    if f[0] == "atom":
        return f[1]
    if f[0] == "const":
        return "true" if f[1] else "false"
    if f[0] == "not":
        return "!" + show(f[1])
    return "(%s %s %s)" % (show(f[1]), "&&" if f[0] == "and" else "||", show(f[2]))


def map_atoms(f, fn):
    """Formula with every atom string passed through fn (used to make a rule independent of local variable names)."""
    if f[0] == "atom":
        return ("atom", fn(f[1]))
    if f[0] == "const":
        return f
    if f[0] == "not":
        return ("not", map_atoms(f[1], fn))
    return (f[0], map_atoms(f[1], fn), map_atoms(f[2], fn))
