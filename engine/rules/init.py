"""INIT: constructor-initialisation completeness for scalar members.

For every record defined under /repo/cola and every user-provided constructor
with a body, the set of scalar members (bool / enum / pointer / integer /
floating) that are *must-initialised* is computed:
  - default member initialiser,
  - written mem-initialiser,
  - delegating constructor: the target's set,
  - plain assignment `this->F = ...` on every normal CFG path of the body,
    following calls of member functions on `this` (depth <= 2).
A (class, field, constructor) triple outside that set is a deviation unless it
is in the reviewed table with a reason.
"""
from ..astq import member_of_this, strip, is_this, call_object
from ..cfg import CFG
from ..facts import AnalysisBroken

SCALAR = {"bool", "enum", "pointer", "int", "float"}


def _assign_nodes(prog, fn, field_q, depth, memo):
    """Nodes of fn that definitely assign this->field."""
    out = []
    for n in fn.nodes():
        k = n.get("k")
        if k == "BinaryOperator" and n.get("op") == "=":
            if member_of_this(n["ch"][0]) == field_q:
                out.append(n["id"])
        elif k == "CXXMemberCallExpr" and depth > 0 and "callee" in n:
            obj = call_object(n)
            if obj is not None and is_this(obj):
                callee = prog.by_key.get(n["callee"])
                if callee is not None and callee.body is not None and callee.key != fn.key:
                    if field_q in must_assign(prog, callee, depth - 1, memo):
                        out.append(n["id"])
    return out


def must_assign(prog, fn, depth, memo):
    """Fields of *this assigned on every normal path through fn's body."""
    mk = (fn.key, depth)
    if mk in memo:
        return memo[mk]
    memo[mk] = set()
    res = set()
    if fn.cfg is None or fn.cls is None:
        return res
    rec = prog.records.get(fn.cls)
    if rec is None:
        return res
    cands = set()
    for n in fn.nodes():
        if n.get("k") == "BinaryOperator" and n.get("op") == "=":
            f = member_of_this(n["ch"][0])
            if f:
                cands.add(f)
    if depth > 0:
        for n in fn.nodes():
            if n.get("k") == "CXXMemberCallExpr" and "callee" in n:
                obj = call_object(n)
                if obj is not None and is_this(obj):
                    callee = prog.by_key.get(n["callee"])
                    if callee is not None and callee.body is not None and callee.key != fn.key:
                        cands |= must_assign(prog, callee, depth - 1, memo)
    if cands:
        g = CFG(fn)
        for f in cands:
            ids = _assign_nodes(prog, fn, f, depth, memo)
            if ids and g.exit_reachable_avoiding(ids) is None:
                res.add(f)
    memo[mk] = res
    return res


def ctor_must_init(prog, ctor, memo, seen=()):
    res = set()
    for i in ctor.d.get("inits", []):
        if i.get("delegating"):
            e = strip(i.get("expr"))
            if e is not None and "callee" in e and e["callee"] not in seen:
                tgt = prog.by_key.get(e["callee"])
                if tgt is not None:
                    res |= ctor_must_init(prog, tgt, memo, seen + (ctor.key,))
        elif i.get("mq") and (i.get("written") or i.get("inclass")):
            res.add(i["mq"])
    res |= must_assign(prog, ctor, 2, memo)
    return res


def scan(prog):
    """Returns (triples_examined, deviations); a deviation is
    dict(cls, field, fq, ctor, where, sk, kind)."""
    memo = {}
    examined = 0
    devs = []
    ctors_by_cls = {}
    for f in prog.all_functions():
        if f.kind == "ctor" and f.tmpl != "pattern":
            ctors_by_cls.setdefault(f.cls, []).append(f)
    for q, r in sorted(prog.records.items()):
        if r.get("dependent") or r.get("tag") == "union":
            continue
        fields = [f for f in r["fields"] if f["sk"] in SCALAR and not f.get("inclass")]
        if not fields:
            continue
        user = ctors_by_cls.get(q, [])
        for c in user:
            if c.d.get("defaulted"):
                continue    # `= default`: copies / value-initialises member-wise
            init = ctor_must_init(prog, c, memo)
            for f in fields:
                examined += 1
                if f["q"] not in init:
                    devs.append({"cls": q, "field": f["name"], "fq": f["q"], "ctor": c.key, "where": c.where(),
                                 "sk": f["sk"], "kind": "user-ctor"})
        if not r.get("userctor"):
            # no user constructor at all: default-initialisation leaves scalars indeterminate
            used = any(c.get("default") and c.get("used") for c in r["ctors"])
            for f in fields:
                examined += 1
                if used:
                    devs.append({"cls": q, "field": f["name"], "fq": f["q"], "ctor": "<implicit default constructor>",
                                 "where": "%s:%d" % (r["file"].replace("/repo/", ""), r["l"]), "sk": f["sk"], "kind": "implicit-ctor"})
    return examined, devs
