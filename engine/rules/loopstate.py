"""Loop-carried state: in a loop whose iterations are meant to be independent (one obstacle edge, one pair of segments ...), every
local variable declared outside the loop and stored inside it must be stored before it is read in each iteration; otherwise a
value computed for one element leaks into the treatment of the next.  Scalars only (containers that accumulate results are
method calls, not stores, and are not looked at)."""
from ..astq import strip_casts, writes
from ..cfg import CFG
from ..facts import walk


def carried_locals(fn, loop):
    """[(name, first store node, offending read node)] for outer locals of scalar type that carry a value across iterations."""
    g = CFG(fn)
    body_ids = {n["id"] for n in walk(loop["body"]) if "id" in n}
    declared_inside = {n.get("did") for n in walk(loop) if n.get("k") == "VarDecl"}
    stores = {}
    for lhs, node, op in writes(fn):
        if node["id"] not in body_ids:
            continue
        e = strip_casts(lhs)
        while e is not None and e.get("k") == "MemberExpr" and e.get("ch"):
            e = strip_casts(e["ch"][0])
        if e is not None and e.get("k") == "DeclRefExpr" and e.get("rk") == "Var" and e.get("did") not in declared_inside \
                and "::" not in str(e.get("ref")):
            whole = strip_casts(lhs).get("k") == "DeclRefExpr" and op == "="
            st = stores.setdefault(e["did"], {"name": e.get("ref"), "all": [], "whole": []})
            st["all"].append(node)
            if whole:
                st["whole"].append(node)
    hdr, body = g.loop_header(loop)
    out = []
    for did, info in sorted(stores.items(), key=lambda kv: str(kv[1]["name"])):
        lhs_ids = set()
        for node in info["all"]:
            for x in walk(node["ch"][0]):
                if "id" in x:
                    lhs_ids.add(x["id"])
        # compound assignments / increments read their own target: accumulators and counters are loop-carried by design
        if any(n_.get("k") in ("CompoundAssignOperator", "UnaryOperator") for n_ in info["all"]):
            # ... unless every iteration assigns the variable as a whole before its first compound update (hoisted declaration, proper reset)
            comp = [n_ for n_ in info["all"] if n_.get("k") in ("CompoundAssignOperator", "UnaryOperator")]
            start_c = [(body, 0)] if body is not None else None
            if info["whole"] and start_c is not None and g.search(start_c, blocked=[n_["id"] for n_ in info["whole"]],
                                                                    targets=[n_["id"] for n_ in comp]) is None:
                continue
            out.append((info["name"], info["all"][0], None))
            continue
        reads = [n for n in walk(loop["body"]) if n.get("k") == "DeclRefExpr" and n.get("did") == did and n.get("id") not in lhs_ids and n.get("id") in g.pos]
        kill = [n["id"] for n in info["whole"]]
        for rd in reads:
            if body is None:
                break
            if g.search([(body, 0)], blocked=kill, targets=[rd["id"]]) is not None:
                out.append((info["name"], info["all"][0], rd))
                break
    return out
