"""MIRROR rule: frozen pairs of functions that must stay mirror images of each other (tables/mirrors.json)."""
import json
import os

from ..facts import VERIF, AnalysisBroken
from ..sibling.mirror import mirror_equal


def check(rule, prog, prefixes, sample=None):
    table = json.load(open(os.path.join(VERIF, "tables", "mirrors.json")))["pairs"]
    n = 0
    for key, set_name in sorted(table.items()):
        a, b = key.split(" <-> ")
        if not any(a.startswith(p) for p in prefixes):
            continue
        fa, fb = prog.fns(a), prog.fns(b)
        if len(fa) != 1 or len(fb) != 1:
            raise AnalysisBroken("mirror pair %s: function(s) not found" % key)
        n += 1
        rule.count()
        ok, diff = mirror_equal(fa[0], fb[0], set_name)
        if ok:
            rule.ok(key, fa[0].where(), "mirror images under %s" % set_name)
            if sample is not None and n == 1:
                sample({"rule": rule.id, "pair": key, "swap": set_name})
        else:
            rule.bad(key, fa[0].where(), "%s (%s) and %s (%s) are no longer mirror images under %s: `...%s` vs `...%s`" % (
                a.split("::")[-1], fa[0].where(), b.split("::")[-1], fb[0].where(), set_name, diff[0][-90:], diff[1][-90:]))
    return n
