"""PTR-ORDER: ordering predicates must not depend on object addresses.

(a) comparator functions: a relational operator (< > <= >=) applied to two operands of pointer type inside a
    function used as an ordering predicate.  Such a comparison is tolerated only as the *final fallback*:
    it must be dominated by a comparison of a data key named `id` reached through both arguments
    (ids are unique per caller contract), so that it decides only between objects the data cannot separate.
(b) containers: see c20.py (ordered containers keyed by raw pointers with the default comparator).
"""
from ..astq import strip, strip_casts, norm, calls, call_args
from ..cfg import CFG

REL = ("<", ">", "<=", ">=")


def is_ptr_type(t):
    return t.rstrip().endswith("*") or t.rstrip().endswith("*const")


def comparator_functions(prog):
    """Functions used as strict-weak-order predicates."""
    out = {}
    passed = set()
    for f in prog.all_functions():
        for n in calls(f):
            cn = n.get("cname", "")
            if cn.startswith("std::sort") or cn.startswith("std::stable_sort") or cn == "qsort" or cn.endswith("::sort") \
                    or cn.startswith("std::make_heap") or cn.startswith("std::push_heap") or cn.startswith("std::pop_heap") \
                    or cn.startswith("std::lower_bound") or cn.startswith("std::upper_bound") or cn.startswith("std::min_element") \
                    or cn.startswith("std::max_element"):
                for a in n.get("ch", []):
                    a = strip_casts(a)
                    while a is not None and a.get("k") == "UnaryOperator" and a.get("op") == "&":
                        a = strip_casts(a["ch"][0])
                    if a is not None and a.get("k") == "DeclRefExpr" and a.get("rk") in ("Function", "CXXMethod"):
                        passed.add(a["ref"])
    for f in prog.all_functions():
        if f.tmpl == "pattern":
            continue
        ps = f.params
        if f.key in passed:
            out[f.key] = f
            continue
        if len(ps) == 2 and f.d.get("ret") == "bool" and f.name == "operator()":
            out[f.key] = f
        elif f.d.get("opname") == "<" and f.d.get("ret") == "bool":
            out[f.key] = f
    return out


def pointer_relational_sites(f):
    sites = []
    for n in f.nodes():
        if n.get("k") == "BinaryOperator" and (n.get("op") in REL or n.get("op") == "-"):
            a, b = n["ch"]
            ta, tb = strip(a).get("t", ""), strip(b).get("t", "")
            if is_ptr_type(ta) and is_ptr_type(tb):
                sites.append(n)         # a < b on addresses, or the qsort idiom `return a - b` on addresses
    return sites


def id_guards(f):
    """Comparisons of an `id` data key reached through both parameters."""
    out = []
    pnames = [p["name"] for p in f.params]
    for n in f.nodes():
        if n.get("k") == "BinaryOperator" and n.get("op") in ("<", ">", "!=", "=="):
            a, b = n["ch"]
            ta, tb = strip(a).get("t", ""), strip(b).get("t", "")
            if is_ptr_type(ta) or is_ptr_type(tb):
                continue
            sa, sb = norm(a), norm(b)
            if (sa.endswith(".id") or sa.endswith(".id()") or "id" in sa.split(".")[-1].lower()) and \
               (sb.endswith(".id") or sb.endswith(".id()") or "id" in sb.split(".")[-1].lower()):
                if sa != sb:
                    out.append(n)
    return out


def classify(f):
    """[(site node, 'fallback-after-id' | 'raw')]"""
    sites = pointer_relational_sites(f)
    if not sites:
        return []
    g = CFG(f)
    guards = [x["id"] for x in id_guards(f)]
    res = []
    for s in sites:
        if guards and s["id"] in g.pos and g.must_precede(guards, s["id"]) is None:
            res.append((s, "fallback-after-id"))
        else:
            res.append((s, "raw"))
    return res


def check_comparator(rule, prog, q):
    fs = prog.fns(q)
    if not fs:
        from ..facts import AnalysisBroken
        raise AnalysisBroken("comparator %s not found" % q)
    for f in fs:
        cl = classify(f)
        rule.count(max(1, len(cl)))
        raw = [s for s, c in cl if c == "raw"]
        if raw:
            rule.bad(f.q, f.loc(raw[0]), "orders by the addresses of its arguments (`%s`) without first comparing a data key: "
                     "the order of coincident elements depends on the allocator" % norm(raw[0]))
        else:
            rule.ok(f.q, f.where(), "%d address comparison(s), all final fallbacks after an id comparison" % len(cl))
