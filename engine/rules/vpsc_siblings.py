"""SIBLING rule over the two VPSC solver copies (libvpsc vs libavoid/vpsc.cpp)."""
import json
import os
import re

from ..facts import VERIF, AnalysisBroken
from ..sibling.canon import canonical, first_difference

HEAP_METHODS = {"isEmpty": "empty", "findMin": "top", "deleteMin": "pop", "insert": "push",
                "empty": "empty", "top": "top", "pop": "pop", "push": "push", "size": "size"}
HEAP_TYPES = [
    "PairingHeap<NS::Constraint *, NS::CompareConstraints>",
    "std::priority_queue<NS::Constraint *, std::vector<NS::Constraint *>, NS::CompareConstraints>",
    "std::priority_queue<NS::Constraint *, std::vector<NS::Constraint *, std::allocator<NS::Constraint *>>, NS::CompareConstraints>",
]


def _post(form):
    for t in HEAP_TYPES:
        form = form.replace(t, "HEAP")
    # heap method names
    def meth(m):
        return "HEAP::" + HEAP_METHODS.get(m.group(1), m.group(1))
    form = re.sub(r"HEAP::(\w+)", meth, form)
    # libavoid's IncSolver has no Solver base: drop the class qualifier of solver members
    form = form.replace("NS::Solver::", "NS::IncSolver::")
    form = form.replace("std::vector<NS::Constraint *, std::allocator<NS::Constraint *>>", "std::vector<NS::Constraint *>")
    return form


def pairs(prog):
    """[(avoid fn, vpsc fn or None)] for every function defined in libavoid/vpsc.{cpp,h}."""
    out = []
    for f in sorted(prog.all_functions(), key=lambda f: f.key):
        if not (f.file.endswith("libavoid/vpsc.cpp") or f.file.endswith("libavoid/vpsc.h")):
            continue
        want = f.key.replace("Avoid::", "vpsc::")
        g = prog.by_key.get(want)
        if g is None and "vpsc::IncSolver::" in want:
            g = prog.by_key.get(want.replace("vpsc::IncSolver::", "vpsc::Solver::"))
        out.append((f, g))
    return out


def check(rule, prog, only=None, sample=None):
    table = json.load(open(os.path.join(VERIF, "tables", "siblings.json")))
    excluded = table["excluded"]
    rewrites = table["rewrites"]
    n_same = 0
    for f, g in pairs(prog):
        if only is not None and not only(f):
            continue
        if f.q.split("<")[0] in excluded:
            rule.ok(f.q, f.where(), "excluded: " + excluded[f.q.split("<")[0]], nontrivial=False)
            continue
        if g is None:
            rule.bad(f.q, f.where(), "function of the libavoid solver copy has no counterpart in libvpsc and is not in the exclusion table")
            continue
        a = _post(canonical(f))
        b = _post(canonical(g))
        rw = rewrites.get(f.q)
        if rw:
            a = a.replace(rw[0][0], rw[0][1])
        rule.count()
        if a == b:
            n_same += 1
            rule.ok(f.q, f.where(), "structurally identical to %s" % g.where())
            if sample is not None and n_same == 1:
                sample({"rule": rule.id, "pair": [f.key, g.key], "canonical_form_bytes": len(a)})
        else:
            x, y = first_difference(a, b)
            rule.bad(f.q, f.where(), "the two solver copies disagree: %s (libavoid) vs %s (libvpsc); first difference: `...%s` vs `...%s`"
                     % (f.where(), g.where(), x.replace("\n", " ")[-110:], y.replace("\n", " ")[-110:]))
    return n_same
