"""Engine C: canonical structural form of a function body, for sibling comparison.

Dropped: parentheses, implicit casts, temporaries, statements that come from assertion macros.
Alpha-renamed: locals and parameters (by first occurrence).  Unified: the namespaces of the two copies.
Kept: operators, literals, member and callee names, control structure, declared types.
"""
import re

from ..astq import TRANSPARENT, ASSERT_MACROS
from ..facts import children

DROP_MACROS = set(ASSERT_MACROS)


def unify(s, ns_map):
    if not isinstance(s, str):
        return s
    for a, b in ns_map:
        s = re.sub(r"\b%s::" % re.escape(a), b + "::", s)
    return s


class Canon:
    def __init__(self, ns_map=(("vpsc", "NS"), ("Avoid", "NS")), alias=None, drop_calls=(), keep_names=False, abstract_std=False):
        self.keep_names = keep_names
        self.abstract_std = abstract_std        # std:: callees by unqualified name, local declarations without their type
        self.ns_map = ns_map
        self.alias = alias or {}
        self.drop_calls = set(drop_calls)
        self.names = {}

    def local(self, did):
        if did not in self.names:
            self.names[did] = "v%d" % len(self.names)
        return self.names[did]

    def u(self, s):
        s = unify(s, self.ns_map)
        return self.alias.get(s, s)

    def form(self, n):
        if n is None:
            return "_"
        k = n.get("k")
        if k in TRANSPARENT:
            c = n.get("ch")
            return self.form(c[0]) if c else "_"
        if n.get("mac") in DROP_MACROS:
            return None
        if k == "VarDecl":
            nm = self.local(n["did"]) if not self.keep_names else str(n.get("name"))
            init = self.form(n.get("init")) if n.get("init") is not None else "_"
            return "decl(%s:%s=%s)" % (nm, "_" if self.abstract_std else self.u(n.get("t", "")), init)
        if k == "DeclRefExpr":
            if n.get("rk") in ("Var", "ParmVar") and "::" not in str(n.get("ref")):
                return self.local(n["did"]) if not self.keep_names else str(n.get("ref"))
            ref_ = self.u(str(n.get("ref")))
            if self.abstract_std and ref_.startswith("std::"):
                head_ = ref_.split("(")[0]
                depth_, out_ = 0, []
                for ch_ in head_:
                    if ch_ == "<" and not "".join(out_).endswith("operator"):
                        depth_ += 1
                    elif ch_ == ">" and depth_ > 0:
                        depth_ -= 1
                    elif depth_ == 0:
                        out_.append(ch_)
                return "std::" + "".join(out_).split("::")[-1]
            return ref_
        parts = [k]
        for a in ("op", "v", "arrow", "postfix", "arr", "val", "name"):
            if a in n:
                parts.append("%s=%s" % (a, n[a]))
        if k == "MemberExpr":
            parts.append(self.u(str(n.get("ref")).split("(")[0]))
        if "cname" in n:
            cn = self.u(n["cname"])
            if self.abstract_std and cn.startswith("std::"):
                depth_, out_ = 0, []
                for ch_ in cn:
                    if ch_ == "<":
                        depth_ += 1
                    elif ch_ == ">":
                        depth_ -= 1
                    elif depth_ == 0:
                        out_.append(ch_)
                cn = "std::" + "".join(out_).split("::")[-1]
            if cn in self.drop_calls:
                return None
            parts.append(cn)
        if k in ("CStyleCastExpr", "CXXStaticCastExpr", "CXXFunctionalCastExpr", "CXXNewExpr", "CXXDeleteExpr", "CXXConstCastExpr"):
            parts.append(self.u(n.get("t", "") or n.get("at", "")))
            if k in ("CStyleCastExpr", "CXXStaticCastExpr", "CXXFunctionalCastExpr", "CXXConstCastExpr") and n.get("ck") in ("NoOp",):
                c = n.get("ch")
                return self.form(c[0]) if c else "_"
        if k == "CompoundStmt":
            ch = [c for c in (n.get("ch") or []) if c.get("mac") not in DROP_MACROS and c.get("k") != "NullStmt"]
            if len(ch) == 1 and ch[0].get("k") != "DeclStmt":
                return self.form(ch[0])     # braces around a single statement are not structure
        kids = []
        if k == "LambdaExpr":
            for p in n.get("params", []):
                kids.append(self.form(p))
        for c in children(n):
            if k == "LambdaExpr" and c.get("k") == "VarDecl":
                continue
            f = self.form(c)
            if f is not None:
                kids.append(f)
        return "%s(%s)" % (" ".join(parts), ",".join(kids))


def canonical(fn, **kw):
    c = Canon(**kw)
    parts = []
    for p in fn.params:
        parts.append("param(%s:%s)" % (c.local(p["did"]), c.u(p["t"])))
    for i in fn.d.get("inits", []):
        if i.get("written"):
            parts.append("init(%s=%s)" % (i.get("member") or c.u(str(i.get("base"))), c.form(i.get("expr"))))
    parts.append(c.form(fn.body))
    return "\n".join(str(p) for p in parts)


def first_difference(a, b):
    i = 0
    n = min(len(a), len(b))
    while i < n and a[i] == b[i]:
        i += 1
    return a[max(0, i - 60):i + 80], b[max(0, i - 60):i + 80]
