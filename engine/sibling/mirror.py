"""Mirror siblings: two functions that are mirror images of each other under an antonym swap
(above<->below, min<->max, '<'<->'>', X<->Y, left<->right ...).  Contradiction rule (Engler et al.): the pairs
frozen in tables/mirrors.json are mirror images on the reviewed tree; if applying the swap to one no longer
gives the other, one of the two is wrong.

The swap works on camel-case parts of repository identifiers (maxX -> max|X), never on clang node-kind names."""
import re

from .canon import canonical

OPS = [("op=>(", "op=<("), ("op=>=(", "op=<=(")]
SETS = {
    "above/below": ([("Above", "Below"), ("above", "below"), ("max", "min"), ("Max", "Min")], OPS),
    "min/max": ([("Min", "Max"), ("min", "max")], []),
    "min/max+ops": ([("Min", "Max"), ("min", "max")], OPS),
    "low/high": ([("low", "high"), ("Low", "High"), ("min", "max"), ("Min", "Max")], OPS),
    "left/right": ([("Left", "Right"), ("left", "right")], []),
    "in/out": ([("In", "Out"), ("in", "out"), ("true", "false")], []),
    "x/y": ([("X", "Y"), ("x", "y"), ("width", "height"), ("Width", "Height"), ("w", "h"), ("cx", "cy"), ("HORIZONTAL", "VERTICAL")], []),
    "x/y+dims": ([("X", "Y"), ("x", "y"), ("XDIM", "YDIM"), ("XL_EDGE", "YL_EDGE"), ("XH_EDGE", "YH_EDGE"), ("Avoid::XDIM", "Avoid::YDIM")], []),
    "scan fwd/rev": ([("XL_CONN", "XH_CONN"), ("XL_EDGE", "XH_EDGE"), ("YL_CONN", "YH_CONN"), ("YL_EDGE", "YH_EDGE"), ("begin", "rbegin"),
                      ("end", "rend"), ("nvert", "rvert"), ("_Rb_tree_const_iterator", "reverse_iterator"), ("_Rb_tree_iterator", "reverse_iterator")], []),
    "src/dst": ([("src", "dst"), ("Src", "Dst")], []),
    "i/j": ([("i", "j"), ("I", "J"), ("vert1", "vert2")], []),
    "j/k": ([("J", "K"), ("j", "k")], []),
    "begin/finish": ([("Begin", "Finish"), ("begin", "finish"), ("front", "back")], []),
}
PROT = re.compile(r"^(CXX\w+|\w+Expr|\w+Stmt|\w+Operator|\w+Literal|decl|param|init|op|arrow|postfix|v\d+|NS|std|double|int|unsigned|"
                  r"bool|const|long|void|float|size_t|NEGDBLMAX|POSDBLMAX)$")
PART = re.compile(r"[A-Z]+(?![a-z])|[A-Z]?[a-z0-9]+|_+")


def swap_ident(w, table):
    if w in ("NEGDBLMAX", "POSDBLMAX") or (w in table and len(w) > 1 and (w.isupper() or "_" in w or w in ("begin", "rbegin", "end", "rend", "nvert", "rvert"))):
        return table[w]
    if PROT.match(w):
        return w
    parts = PART.findall(w)
    if "".join(parts) != w:
        return table.get(w, w)
    return "".join(table.get(p_, p_) for p_ in parts)


def mirror_form(text, set_name):
    pairs, ops = SETS[set_name]
    table = {"NEGDBLMAX": "POSDBLMAX", "POSDBLMAX": "NEGDBLMAX"}
    for a, b in pairs:
        table[a] = b
        table[b] = a
    out = re.sub(r"[A-Za-z_][A-Za-z_0-9]*", lambda m: swap_ident(m.group(0), table), text)
    if ops:
        ot = {}
        for a, b in ops:
            ot[a] = b
            ot[b] = a
        rx = re.compile("|".join(re.escape(k) for k in sorted(ot, key=len, reverse=True)))
        out = rx.sub(lambda m: ot[m.group(0)], out)
    return out


def _norm(text):
    text = re.sub(r"UnaryOperator op=-\((FloatingLiteral v=1\.797693134862315[0-9]*E\+308\(\))\)", "NEGDBLMAX()", text)
    return re.sub(r"FloatingLiteral v=1\.797693134862315[0-9]*E\+308\(\)", "POSDBLMAX()", text)


def mirror_equal(f, g, set_name):
    a = _norm(canonical(f, ns_map=()))
    b = _norm(canonical(g, ns_map=()))
    am = mirror_form(a, set_name)
    if am == b:
        return True, None
    i = 0
    n = min(len(am), len(b))
    while i < n and am[i] == b[i]:
        i += 1
    return False, (am[max(0, i - 60):i + 60].replace("\n", " "), b[max(0, i - 60):i + 60].replace("\n", " "))


def mirror_blocks_equal(a, b, set_name, abstract_std=False):
    """Two statements of one function (locals kept by name) are mirror images under the swap."""
    from .canon import Canon
    fa = _norm(str(Canon(ns_map=(), keep_names=True, abstract_std=abstract_std).form(a)))
    fb = _norm(str(Canon(ns_map=(), keep_names=True, abstract_std=abstract_std).form(b)))
    am = mirror_form(fa, set_name)
    if am == fb:
        return True, None
    i = 0
    n = min(len(am), len(fb))
    while i < n and am[i] == fb[i]:
        i += 1
    return False, (am[max(0, i - 60):i + 60], fb[max(0, i - 60):i + 60])
