#!/usr/bin/env python3
"""Writes MANIFEST.json from the per-property registry below (kept in one place so it stays valid)."""
import json, os
HERE = os.path.dirname(os.path.abspath(__file__))

CHECKS = {}   # filled by register()
NA = {}

def register(pid, text, note, technique, design_ref):
    CHECKS[pid] = dict(text=text, note=note, technique=technique, design_ref=design_ref)

def na(pid, reason):
    NA[pid] = reason

exec(open(os.path.join(HERE, "manifest_registry.py")).read())

m = {
 "version": 1,
 "setup_cmd": "sh tools/adaptafacts/build.sh",
 "hooks": {"guard": "ADAPTAGRAMS_VERIF", "enable": "none: all checks read the unmodified sources; no instrumentation is compiled into /repo",
           "baseline_off_cmd": "cd /repo/cola && make -k check", "source_commits": [], "add_only": True},
 "engines": [
  {"name": "adaptafacts", "path": "tools/adaptafacts/adaptafacts.cc", "serves_properties": sorted(CHECKS),
   "kind_free_text": "libTooling serializer of the type-resolved clang AST + CFG of every function/record under /repo/cola"},
  {"name": "engine", "path": "engine/", "serves_properties": sorted(CHECKS),
   "kind_free_text": "Python rule runner: CFG path queries, call graph, who-writes / who-calls, constructor-initialisation dataflow, "
                     "abstract interpretation of small pure functions over finite / sign / affine domains, sibling structural comparison"},
 ],
 "checks": [],
 "not_applicable": [{"property_id": k, "reason": v} for k, v in sorted(NA.items())],
 "notes": "Technique family: static analysis only. Exit 2 = analysis broken (anchor vanished / floor undershot), never a pass. See DESIGN.md.",
}
for pid in sorted(CHECKS):
    c = CHECKS[pid]
    m["checks"].append({
        "property_id": pid,
        "quick_cmd": "./check %s --tier quick" % pid,
        "thorough_cmd": "./check %s --tier thorough" % pid,
        "evidence_file": "evidence/%s.json" % pid,
        "replay_cmd_template": "./check %s --replay {path}" % pid,
        "engine": "engine",
        "level_claimed": {"category": "other", "text": c["text"], "design_ref": c["design_ref"]},
        "level_note": c["note"],
        "technique": c["technique"],
    })
json.dump(m, open(os.path.join(HERE, "MANIFEST.json"), "w"), indent=1)
print("MANIFEST.json: %d checks, %d not applicable" % (len(m["checks"]), len(m["not_applicable"])))
