# One entry per property: register(...) for claimed ones, na(...) for the rest.
register("C15",
    "Exact structural rules, each a necessary condition of memory safety on valid use: constructor-initialisation completeness of scalar "
    "members over all constructors of all classes (CFG dataflow), destructor releases what the class allocates, router-owned objects are "
    "deleted only under the destructor guard, no iterator use after erase. Decides those clauses for every path/constructor/call site; "
    "does not decide absence of all UB for all API histories. Added: destructor drain loops, no address of a local stored in a member, Edge::getRoute writes within its arrays, ActionInfo identity. Added later: containers whose element addresses are handed out lose elements only at reviewed sites; the two blocks of a solver split are each inserted xor deleted (both copies).",
    "Trusted: clang 14 AST/CFG; reviewed exception tables under tables/ (each entry with a reason); exceptional (throwing) paths are out of scope.",
    "custom dataflow / typestate lints over the type-resolved clang AST, CFG and call graph (libTooling extractor + Python rules)",
    "DESIGN.md §5 C15")
register("C16",
    "Near-complete for the stated domain: the decision tree of every geometry predicate (vecDir, segmentIntersect, pointOnLine, "
    "inBetween, colinear, inValidRegion, cornerSide, segmentShapeIntersect, segmentIntersectPoint classification, inPoly, inPolyGen, "
    "libvpsc LineSegment::Intersect) is extracted by symbolic interpretation of its syntax tree (coordinates are polynomial symbols, "
    "branches are signs of integer polynomials) and shown equal to an independent exact-arithmetic definition on every realisable sign "
    "class of an integer grid, all degenerate configurations included. Intersection *coordinates* (rounded rationals) are not decided. Added: returned intersection points satisfy both line equations identically.",
    "Trusted: the interpreter (engine/microai), the reference definitions in engine/props/c16.py, integer-valued inputs (a tolerance |t|<1 "
    "folds into the sign atoms), polygon sizes n=3,4; grid side 4-6 decides realisability.",
    "abstract interpretation of the clang AST over a sign-atom domain (path-enumerating symbolic evaluation, no execution), decision-table "
    "equivalence against exact reference predicates",
    "DESIGN.md §5 C16")
register("C01",
    "Decides the reporting half structurally, for all paths: every normal return / copyResult() of Solver::satisfy, Solver::refine and "
    "both IncSolver::satisfy copies is dominated by a complete scan of all m constraints that throws on slack < threshold<=0 (no "
    "iteration can skip the test, the failing branch always throws); solve() only returns through satisfy()/refine()/copyResult(); "
    "slack() is +DBL_MAX for flagged constraints and right-gap-left otherwise (symbolic identity); only the reviewed functions write "
    "Constraint::unsatisfiable / Variable::finalPosition; the two solver copies agree function by function. Does not decide that "
    "merging/splitting reaches feasibility, the iff-infeasible clause, or finiteness. Added after seeded rounds: the needsScaling flag covers every constraint ending on a scaled variable (constructor + addConstraint interpreted over all scale patterns).",
    "Trusted: clang CFG without exception edges; tables/c01_writers.json and tables/siblings.json (reviewed, with reasons).",
    "CFG dominance / must-pass-through rules, who-writes over the resolved AST, symbolic evaluation of slack(), sibling structural comparison",
    "DESIGN.md §5 C01")
register("C02",
    "Optimality itself is numerical and not decided. Decided, by symbolic interpretation of the solver's arithmetic kernels in both copies: "
    "block placement is the least-squares stationary point (rational identity for 1-3 scaled variables), dfdv()/cost() have the objective's "
    "form, and compute_dfdv (both overloads) assigns multipliers satisfying KKT stationarity at every non-root variable of chain/fork "
    "block trees; plus function-by-function agreement of the two solver copies. Added: IncSolver::solve keeps iterating while the last pass split a block (repaired defect); KKT stationarity of the computed multipliers for unequal scales.",
    "Trusted: engine/microai; positivity of weights/scales (zero-denominator paths are outside the precondition); shapes up to 4 variables.",
    "abstract interpretation over exact rational functions (symbolic KKT identities) + sibling structural comparison",
    "DESIGN.md §5 C02")
register("C09",
    "For every path of removeoverlaps the global borders are restored at normal exit; every Rectangle mover reachable from it is "
    "size-preserving and attains the requested coordinate (symbolic affine evaluation); no other writer of a rectangle extent is reachable; "
    "every generated constraint is left + (ext(a)+ext(b))/2 <= right with the right dimension and side; the scan-line comparator does not "
    "order by addresses before ids. Does not decide that the constraint set removes all overlap, nor the <1% bound for fixed rectangles. Added: the saved borders are per-call locals; the left / right neighbour-list helpers classify alike.",
    "Trusted: clang CFG (no exception edges: the catch(char*) path is out of scope); call graph over resolved callees.",
    "CFG pairing rule, call-graph reachability + who-writes, symbolic affine evaluation, semantic template match of constraint constructions",
    "DESIGN.md §5 C09")
register("C18",
    "Strong for the transform clause: each of the 7 SepTransform cases is extracted symbolically as a signed permutation of (xgap,ygap) "
    "with type swap iff axes swap, shown equal to the documented geometric matrix and -- for rotations -- to the maps the Graph applies to "
    "node centres and route points; group laws of D4; addSep(d,g);transform(T) == addSep(T(d),g) for all 8x7x2x2 cases; enum tables "
    "(negateSepDir, weakening/strengthening, conversions, cardFlip, getCardinalDir) over all enumerators; gaps only negated by unary minus; "
    "the flippedRetrieval contract of the two deep-layer retrieval methods on every path. TGLF text round trip is not decided. Added: TGLF writer/reader round trip, VPSC constraint generated from a stored separation (both dimensions alike), distinct node ids in Graph::writeTglf(true).",
    "Trusted: engine/microai; the documented meaning of the flips (constraints.h) encoded as matrices in engine/props/c18.py.",
    "abstract interpretation over finite enum domains and affine gap symbols; CFG must-precede rule; who-writes / reader-provenance rules",
    "DESIGN.md §5 C18")
register("C06",
    "Decides the bookkeeping clauses without which incremental routing cannot match a fresh router, for every path / action type: the "
    "route length used by the selective-reroute test is recomputed whenever a route is stored; the per-edge estimate carries no state "
    "from one obstacle edge to the next; the crossing point through which the estimate is taken is the minimiser (symbolic, same-side "
    "and opposite-side end points); Router::processActions removes, re-tests (every moved and every deleted id), marks, re-adds, blocks "
    "and recomputes visibility for every queued action under conditions no stronger than the reviewed ones; processTransaction gives up "
    "only when nothing is queued; every connector with a raised flag reaches generatePath; blocker ids are recorded and re-tested. Does "
    "not decide equality of route costs with a fresh router for all edit histories, nor validity of every route. Added: the per-connector loop of the selective-reroute test skips a connector only for the three reviewed reasons; generatePath clears the reroute flag before the search only, so the search's retry signal survives.",
    "Trusted: clang AST/CFG; propositional path conditions over normal-form atoms (early continues included); the interpreter for the "
    "crossing-point table (8x7 integer end-point pairs, one axis-parallel edge).",
    "CFG must-pass-through / loop-carried-dependence dataflow, guarded-by entailment over path conditions, who-writes, symbolic "
    "interpretation of the crossing-point computation",
    "DESIGN.md §5 C06")
register("C05",
    "Decides admissibility of the orthogonal search heuristic for every abstract input: the decision table of bends() (128 rows, "
    "extracted symbolically) never exceeds the free-plane minimum bend count and never reaches its assertion; the direction tables are "
    "the rotations of the 4-cycle; estimatedCostSpecific returns exactly euclideanDist for polyline and manhattanDist + k*segmentPenalty "
    "with k <= the minimum bends over the allowed arrival directions for orthogonal routing; turn pruning always exempts end points. "
    "Does not decide completeness of the scan-line graph, axis-parallelism of all output segments, or optimality of the search. Added: A* heap discipline; Node::isInsideShape strictness; x/y turn-pruning blocks and forward/reverse visibility-flag passes are mirror images.",
    "Trusted: engine/microai; the 0-1 BFS reference for minimum bends in the free plane (engine/props/c05.py).",
    "abstract interpretation of the clang AST over finite direction sets and sign atoms (decision tables) compared with a BFS reference",
    "DESIGN.md §5 C05")
register("C03",
    "Decides the structural clauses behind obstacle avoidance for every path/call site: only reviewed functions make an edge visible; in "
    "checkVis and vertexSweep visibility is granted only under cone(i) && cone(j) && unblocked (truth-table entailment over the enclosing "
    "conditions) with the cone tests applied to the right vertices; firstBlocker and newBlockingShape test every obstacle side "
    "(prev(k),k) / (i,i+1 mod n) with a per-shape / per-edge end-point state and report/remove exactly on a hit; the straight-line fallback "
    "is taken only when the search found no path; route ends are written from the source/destination vertices. Does not decide the "
    "geometric adequacy of the sweep / orthogonal scan, nor nudging. Added: both producers of Router::contains test routingPolygon(); movement limits are only tightened; scan-line helper mirrors.",
    "Trusted: clang AST/CFG; tables/c03_setdist_callers.json (reviewed producers of dummy / orthogonal edges).",
    "who-calls + guarded-by rules (propositional entailment over path conditions), CFG must-pass-through, semantic template match",
    "DESIGN.md §5 C03")
register("C04",
    "Decides the shape of the A* search that makes polyline routes shortest paths *given* the visibility graph: the heuristic is exactly "
    "euclideanDist (symbolic), f = g + h at every store, g accumulates parent g + cost(edge length), heap order is ANodeCmp whose decision "
    "table is a min-heap on f with tolerance and time-stamp tie-break, PENDING entries are only replaced by cheaper ones, cost() is the "
    "edge length when all penalties are zero and length + {0,1,2}*segmentPenalty otherwise, stored edge lengths are Euclidean. Does not "
    "decide that the visibility graph contains a shortest path or that pruning keeps one. Added: the C16 decision tables of inValidRegion / cornerSide / vecDir (which visibility edges exist); bend validity is direction-symmetric; blocker bookkeeping; heap discipline.",
    "Trusted: engine/microai; angle classes of angleBetween abstracted to {0, (0,pi), pi}.",
    "symbolic interpretation (decision tables) of heuristic / comparator / cost + who-writes rules on the A* node fields",
    "DESIGN.md §5 C04")
register("C07",
    "Decides structurally that what run() enforces is what makeFeasible() makes feasible (the two translators of every compound-constraint "
    "class build the same constraint shapes), that every generated constraint records its creator before it is emitted, that projection is "
    "preceded by generation from all compound and extra constraints into the projected set, that project() solves and publishes all n "
    "positions, that checkUnsatisfiable reports exactly the flagged constraints, and that no size-changing writer of a node rectangle is "
    "reachable from the layout entry points. Does not decide numerical satisfaction to 1e-4 or NaN-freeness. The uninitialised "
    "DistributionConstraint::sep is a known finding reported under C15. Added: the makeFeasible protocol (add-then-satisfy, whole-set scan for flagged constraints, rollback, saved positions); exact unsatisfiable report.",
    "Trusted: clang AST/CFG/call graph; exempt classes (OrthogonalEdgeConstraint, PageBoundaryConstraints) per the code's own comments.",
    "sibling comparison of constraint-construction shapes (normal forms + path conditions), CFG must-precede, call-graph reachability",
    "DESIGN.md §5 C07")
register("C17",
    "Strong on small multigraphs: floyd_warshall, johnsons and dijkstra (every source) are interpreted symbolically with positive symbolic "
    "edge weights; each leaf of the resulting decision tree is compared with an independent Bellman-Ford on all weight assignments in "
    "{1..4}^k satisfying it, and the leaves must partition the assignments (triangle, path+isolated node, parallel and reversed-parallel "
    "edges, self-loop, unit weights, square+chord): exact lengths, zero diagonal, symmetry, the unreachable sentinel. "
    "ConstrainedFDLayout::computePathLengths is checked the same way for scaling, sentinel, adjacency classes and replacement of "
    "non-positive lengths. Does not decide larger graphs beyond these shapes nor floating-point rounding. Added: all branch conditions are forms in the weights without constant term (no absolute tolerance); multigraph shapes; unreachable entries.",
    "Trusted: engine/microai incl. its model of std::vector / valarray / the PairingHeap code it interprets; weights bounded far below DBL_MAX.",
    "symbolic interpretation (decision trees over path-length comparisons) vs Bellman-Ford reference on enumerated small weights",
    "DESIGN.md §5 C17")
register("C11",
    "Decides, for every path / call site: a pin is offered to a connector end only when its class matches and it is free or not exclusive "
    "(propositional entailment over the enclosing conditions); only usePin/freeActivePin touch the pin-user bookkeeping and pins are freed "
    "before every rerouting round; temporary pin visibility is removed on every path of generatePath; checkpoint direction masks are "
    "restored whenever they were applied; every function that replaces a shape's geometry repositions all of its pins; pin positions are "
    "the documented affine functions of the shape's bounding box (symbolic); default pin directions follow the attachment position. "
    "Does not decide that the cheapest pin is chosen nor numeric end-point equality after moves. Added: pins repositioned from the shape's own polygon; updatePositionAndVisibility refreshes everything on every path; queued end-point changes (user vs pin-follow) interpreted on all short sequences. Added later: the pin-availability test is equivalent at its three sites; breakpoint insertion at both ends of a line is mirror-image code.",
    "Trusted: clang AST/CFG; engine/microai; offsetBoundingBox abstracted to a symbolic box.",
    "guarded-by entailment, who-writes, CFG pairing rules, symbolic affine evaluation of pin positions, finite direction table",
    "DESIGN.md §5 C11")
register("C08",
    "Decides the generation side of overlap avoidance: addShape (interpreted) records every same-group non-exempt pair exactly once and "
    "stores half extents in (x, y) order; generateSeparationConstraints (symbolic rectangles, sampled leaves) emits a constraint for a pair "
    "iff the rectangles overlap in the other dimension, ordered by centre, with gap = sum of the half extents of that dimension, creator "
    "recorded; all libcola addShape call sites pass width/2, height/2 of the same rectangle and cover all indices; the non-overlap object is "
    "appended to extraConstraints whenever requested and a containment constraint is created for every non-root cluster. Does not decide "
    "that the constraints remove all overlap for all inputs nor the cluster containment numerics. Added: exemption groups, cluster/cluster and cluster/shape constraint forms, cluster bounding rectangles and boundary-variable numbering (interpreted on small hierarchies). Added later: fixed-rectangle clusters are tied to their rectangle by four equalities; nodes no cluster lists join the root cluster under count == 0 and nothing else (count atoms evaluated arithmetically).",
    "Trusted: engine/microai incl. its std::list/map/set model; cluster-bounded shapes are not interpreted (plain shapes only).",
    "abstract interpretation (object-level) of the constraint generator + guarded-by / loop-coverage rules",
    "DESIGN.md §5 C08")
register("C10",
    "Decides the immobility clauses structurally: a shiftable nudging segment is created for a first/last route segment only under the "
    "option that allows it (with room and no fixed route), and for a segment carrying a checkpoint only under that option (entailment over "
    "path conditions incl. early exits); a fixed segment's points are never written, a free segment writes the clamped solver position to "
    "exactly one coordinate of exactly its own points (symbolic); fixed segments get the fixed weight/id, zig-zags the channel middle; no "
    "function reachable from the nudging entry point changes the number of points of a route; low/high and above/below helpers stay mirror "
    "images. Does not decide separation distances, channel-width reasoning or the ordering of nudged segments. Added: movement limits only tightened; nudging regions closed under overlapsWith; the pair-constraint loop carries no state; checkpoint cache complete. Added later: changed routing parameters / options always mark the settings dirty and reach the next transaction; fixedOrder only raises the flag the comparator shares; run-time integers narrowed to 16 bits are reviewed sites (connector ids keep full width).",
    "Trusted: clang AST/CFG/call graph; engine/microai; the displayRoute()/router accessors are abstracted by hooks.",
    "guarded-by entailment with early-exit guards, symbolic evaluation of the position write-back, call-graph closure rule, mirror siblings",
    "DESIGN.md §5 C10")
register("C12",
    "Decides how a hyperedge tree (the temporary mirror that rerouting and improvement edit) is written back: addConns / "
    "listJunctionsAndConnectors / writeEdgesToConns are interpreted on abstract trees (hand-made shapes plus every tree of up to 6 nodes, "
    "7 in the thorough tier): one connector per junction-free path, exactly one source and one target end per connector, every terminal the "
    "end of exactly one connector, junction and connector lists complete and duplicate-free, routes through the path's points between the "
    "positions of the two ends; performRerouting writes every hyperedge with terminals back and deletes every registered old connector "
    "and junction; the tree builder flags the dummy pin vertex and its orthogonal-partner copy, which the write-back drops from routes. The "
    "improver's tree surgery (removeZeroLengthEdges, moveJunctionAlongCommonEdge, segment shifting) is interpreted on hand-made trees: every "
    "connector keeps an edge of the tree or is recorded deleted, terminal positions are conserved, connector identity changes at junctions "
    "only, no junction lands on its own connector's terminal; removeJunctionAndMergeConnectors re-attaches the survivor to exactly what the "
    "deleted connector's far end was attached to. Does not decide that the spanning-tree construction produces a tree over all terminals.",
    "Trusted: the interpreter; ConnRef / ConnEnd / Router are abstracted by hooks that record end-point updates.",
    "abstract interpretation of the write-back recursion on an enumerated family of abstract trees + CFG coverage rules",
    "DESIGN.md §5 C12")
register("C13",
    "Decides the step-length mechanism topology preservation rests on: TriConstraint::maxSafeAlpha returns 1, or exactly the alpha at "
    "which the constraint's own slack() vanishes on the line from initial to final positions (symbolic rational identity, both "
    "orientations); Node::posOnLine is that interpolation; TopologyConstraints::solve takes the minimum alpha over every topology "
    "constraint, moves every node by it, satisfies (splits / merges) the limiting constraint whenever alpha < 1 and reports it, and the "
    "add-on repeats while it does; the (dimension, corner) tables agree with one geometric definition; EdgePoint::prune hands every "
    "StraightConstraint of both merged segments to the merged one; PruneDegenerate drops exactly the non-turning one of two coincident bend "
    "points. Does not decide that the generated constraints cover every node/segment pair, overlap freedom, or convexity of bends.",
    "Trusted: the interpreter; logging macros abstracted away; clang CFG.",
    "symbolic interpretation (rational identities) + CFG argmin / coverage rules",
    "DESIGN.md §5 C13")
register("C20",
    "Decides the structural sources of irreproducibility, for every function of the five libraries: no ordering predicate compares object "
    "addresses except as a last resort after data keys (50 predicates), no order-observing use of a container ordered by raw or shared "
    "pointers, no default sort / min / max over pointers and no pointer-keyed unordered container outside the reviewed sites whose order "
    "provably cannot reach a result (tables/ptr_order_reviewed.json, each with its reason; sites where it could were repaired, §6); no "
    "clock / random source outside logging and progress timing; the layout's pseudo-random generator is a pure seeded LCG; equal-slack "
    "constraints are ordered by ids; mutable process-wide state and its writers are exactly the reviewed ones and the rectangle borders "
    "are put back by every function that changes them; no constructor leaves a scalar member indeterminate; block positions are "
    "translation-equivariant (symbolic); the x/y twins of rectangle accessors and the turn-pruning blocks of the A* search are mirror "
    "images. Does not decide bit-identical results, rotation / permutation invariance of numerical results.",
    "Trusted: the reviewed tables (reasons from allocator-perturbation and comparison-flip experiments recorded under replays/c20_ptr_order); "
    "clang AST type information for container keys.",
    "custom lints over the type-resolved AST (address-order comparators / containers / algorithms, nondeterminism sources, global state), "
    "CFG pairing rule, constructor-initialisation dataflow, symbolic identity, mirror siblings",
    "DESIGN.md §5 C20")
register("C19",
    "Weak but exact coverage clauses of the decompositions: in dialect::peel every round turns all current leaves into stems, severs the "
    "same leaves, adds every stem (dropping only the mirror stem of a double-centre tree), takes the next leaves before re-testing, and "
    "afterwards turns every connected component of the workspace into exactly one Tree; one stem per leaf to the other end of its edge; "
    "the stem's root->leaf edge is added on every path; identifyRootNode is an argmax scan; NodeBuckets moves are erase-iff-insert and "
    "every former neighbour drops one bucket; Graph::getConnComps erases a node from `remaining` on every path on which it is placed, "
    "adds every reached edge once and records every component. Does not decide acyclicity, degree conditions of the core, symmetric "
    "tree layout or planarisation. Added: OrthoPlanariser::computeNodeGroups interpreted on small collinear segment sets (incl. zero-length segments; std::sort modelled both as keeping and as reversing equivalent elements): no segment is lost; Graph::route clears routes and bend nodes before routing again.",
    "Trusted: clang AST/CFG; normal forms of call arguments.",
    "CFG coverage / must-pass-through rules and guarded-by entailment over the decomposition code",
    "DESIGN.md §5 C19")
register("C14",
    "Weak but exact: along every path of doHOLA the padding applied to the caller's nodes sums to zero for core nodes and for non-root tree "
    "nodes (abstract execution over polynomial padding sums), padding primitives add exactly (dw,dh) to every intended node, every routing "
    "adapter of the pipeline is orthogonal, node dimensions are only written by the reviewed setters. Everything else the statement says "
    "(no overlaps, routes avoid nodes, returned constraints satisfied) is a numerical pipeline result and is not decided. Added: final-rotation consistency (layout options, SepMatrix transform, turn count); Tree::flip / translate keep bounds and nodes together. Added later: the id-ordered merge loops (setPosesInCorrespNodes, padCorrespNodes, Tree::addNetwork, RoutingAdapter::addEdges) interpreted on 9 key-set pairs; tree nodes added to the graph are recorded for the tree's cluster (or unreachable while the box node is present).",
    "Trusted: node classes (core nodes shared with the working copy; per-tree non-root node sets disjoint) as documented in hola.cpp.",
    "abstract interpretation of doHOLA over an additive padding domain + who-writes / constructor-argument rules",
    "DESIGN.md §5 C14")
# clauses added in the later seeding rounds (kept separate so that the texts above stay readable)
for _p, _t in {
 "C01": "Added in later rounds: a new static Solver deactivates every constraint it takes over; IncSolver::addConstraint queues every in-block constraint for the split/violation scan.",
 "C02": "Added in later rounds: refine's try budget is only spent on non-improving passes; the parked half of a split block is placed in the units of its own scale (both copies); split threshold is scale-free.",
 "C03": "Added in later rounds: sweep border recording, free-side lines of both scan directions, totality of the sweep's edge ordering, shape blocking incl. corner touches, every path edge registered with its connector, outside-of-graph visibility fix, connector ends on a deleted obstacle are re-queued, chords through an obstacle with both ends on its boundary, enclosing shapes ignored for both end points alike.",
 "C04": "Added in later rounds: checkAllMissingEdges visits every unordered pair; the sweep ordering is total; shape blocking incl. corner touches.",
 "C05": "Added in later rounds: end-point direction sets; scan-segment list merge keeps every covered stretch (list iterators modelled with their stability); the cost-target set covers every arrival candidate; the final step into the target is charged.",
 "C06": "Added in later rounds: enclosing shapes are ignored for both end points of a re-tested edge alike.",
 "C07": "Added in later rounds: majorization rebuilds its projection per run; convergence test reset; FixedRelativeConstraint offsets taken from the sorted id list; run(x,y) projects both axes on every path and reports unsatisfiable constraints of the idle axis; processed non-overlap pairs are never offered again.",
 "C08": "Added in later rounds: a node shared by two sibling clusters gets a replacement entry in both directions; fixed-rectangle clusters are recognised for every rectangle index incl. 0.",
 "C10": "Added in later rounds: connector-pair ids keep their full width; overlapsWith counts touching free intervals; the gap of a reduced group is rewritten whatever the group ends at.",
 "C12": "Added in later rounds: HyperedgeImprover::execute leaves no connector of a junction out, updates connector ends for every root under major changes and writes every root back in both passes; newAndDeletedObjectLists serves every processed hyperedge after the transaction; terminal roles (source end, end vertex) survive the removal of zero-length edges.",
 "C13": "Added in later rounds: segment/node attachment decided by node id; resize copies back the extent the solver reached; of two coincident bends the redundant one is pruned.",
 "C14": "Added in later rounds: alignments returned for the core are dropped when planarisation no longer maintains them; Tree::addConstraints aligns the middle child only when it is in line.",
 "C15": "Added in later rounds: arrays of scalars are initialised before use in constructors; copies of owning classes re-own or are deleted.",
 "C16": "Added in later rounds: Rectangle(corner, corner) yields the same winding for all four corner orders; segmentShapeIntersect incl. the corner touch.",
 "C17": "Added in later rounds: the neighbour matrix G is written for every pair incl. the diagonal.",
 "C18": "Added in later rounds: subset transforms visit every listed pair; two-argument addFixedRelativeSep honours flipped retrieval; Graph assignment / swap re-points the SepMatrix back-pointers.",
 "C19": "Added in later rounds: x/y twins of the planariser mirror each other.",
 "C20": "Added in later rounds: const static locals with run-time initialisers; arrays of scalars initialised in constructors; the layout constructor resets the caller's convergence test.",
}.items():
    CHECKS[_p]["text"] = CHECKS[_p]["text"].rstrip() + " " + _t
# clauses added in round g
for _p, _t in {
 "C02": "Round g: no single-precision storage or conversion in the solver classes; the static solver re-places its blocks at the start of every satisfy().",
 "C03": "Round g: the improver collects the shift segments of every hyperedge tree; hyperedge rerouting is not led through foreign connection points; nudging clamps to the channel in the unifying pass too.",
 "C07": "Round g: makeFeasible rewinds every compound constraint's sub-constraint cursor, in the combined branch too; nothing overwrites the projected positions in moveTo.",
 "C10": "Round g: every segment of every orthogonal connector is represented in nudging; no shiftable segment for a fixed-route connector; holding a segment in the solver and refusing its write-back are one decision.",
 "C11": "Round g: the hyperedge improver never reads checkpoints (known finding).",
 "C12": "Round g: a hyperedge registered through several junctions is collected once (calcHyperedgeConnectors interpreted); the improver's object lists are cleared in every transaction; setRecommendedPosition stores for fixed junctions too; a shifting segment that takes in a terminal becomes immovable.",
 "C14": "Round g: doHOLA restores the caller's nodes' edge records on every return; the tree-only rank separation depends on node dimensions; addNetwork keeps earlier trees' entries in the shared lookups; sibling trees are kept apart for asymmetric trees.",
 "C15": "Round g: observers of a SeparationConstraint reading the freed guideline variable (known finding); ~Router frees objects of pending additions.",
}.items():
    CHECKS[_p]["text"] = CHECKS[_p]["text"].rstrip() + " " + _t
# clauses added in round j
for _p, _t in {
 "C02": "Round j: Block::merge leaves the merged block at the least-squares stationary point of all its variables (symbolic, scaled).",
 "C03": "Round k: a polygon's offset bounding box encloses it for every vertex order; naive visibility of a shape covers connector end points.",
 "C10": "Round k: crossing flags are per connector pair in buildOrthogonalNudgingOrderInfo; CmpLineOrder decides by the fixed segment before the bend order.",
 "C17": "Round l: the ideal length is used as given (no clamping of valid fractional values); the shortest-path routines keep no state between calls.",
 "C14": "Round j: chain anchor directions are looked up for the ordered pair the fall-back uses; the configuration after two consecutive bends composes the single-bend configurations.",
}.items():
    CHECKS[_p]["text"] = CHECKS[_p]["text"].rstrip() + " " + _t
# clauses added in round i
for _p, _t in {
 "C01": "Round i: the static solver never looks at Constraint::equality (known finding).",
 "C04": "Round i: walks of the intrusive edge / vertex lists step to the next element before a call that may move the current one to another list.",
 "C05": "Round i: the bend estimate is consistent, not only admissible (the search never re-opens a state); a free end point gets a pass-through vertex at its position (vertical-only end points: known finding).",
 "C06": "Round i: the crossing pass is not run on its own output (known finding); list walks as in C04.",
 "C07": "Round i: every compound constraint of a list is offered to every solver set-up; translators never read makeFeasible's bookkeeping.",
 "C09": "Round i: every fixed rectangle gets a heavy variable, whatever it overlaps at the start.",
 "C13": "Round i: the working copy of a resized node is a sliver at the node's current centre; coincident bends are recognised up to rounding.",
}.items():
    CHECKS[_p]["text"] = CHECKS[_p]["text"].rstrip() + " " + _t
# clauses added in round h
for _p, _t in {
 "C06": "Round h: the three producers of the contains sets agree (shared with C03); phase conditions see leaves nested in an earlier sibling if.",
 "C08": "Round h: the containment compound records sub-constraints for every node and child cluster, node-less clusters included; clusters below a fixed-rectangle cluster get their own bounds.",
 "C11": "Round h: an end-point update stores the given ConnEnd unconditionally; the active pin is identified by its vertex; setRoutingCheckpoints marks the connector for rerouting; processActions cannot start a nested transaction; fixed-route connectors keep their pins.",
 "C14": "Round h: a leaf tree's bounds are half its root's extent across the REQUESTED growth direction.",
 "C15": "Round h: no solver object is read after it was freed in the same function; no vector / deque iterator is used after the container may have grown; std::prev(end()) only of non-empty containers; thrown char pointers outlive the throw; a caller's topology nodes are not replaced; constraints generated for one projection / dropped from the owning list are freed.",
 "C17": "Round h: the neighbour matrix of computeNeighbours holds 0 / 1 flags; the majorization layout corrects non-positive lengths in the array it actually uses.",
 "C19": "Round h: leaf-tree bounds across the requested growth direction; NodeBuckets has a leaf bucket for edgeless graphs.",
}.items():
    CHECKS[_p]["text"] = CHECKS[_p]["text"].rstrip() + " " + _t
# clauses added in rounds e / f
for _p, _t in {
 "C01": "Rounds e/f: the constraint heaps hand out stale and block-internal constraints first (comparator table, both copies); copyResult publishes position() for every variable; solver constructors and addConstraint clear a stale unsatisfiable flag.",
 "C03": "Rounds e/f: clearFixedRoute queues both end points again.",
 "C04": "Rounds e/f: angleBetween is one atan2 of cross and dot product (exact for collinear points); the sweep's candidate condition is equivalent to the reviewed one; an orthogonal step's cost ignores the angle penalty.",
 "C05": "Rounds e/f: a scan segment is completed only past its end or at its end under a covering vertical segment; end-point directions widened on the outside of the scan are restored after the graph is built.",
 "C06": "Rounds e/f: the selective-reroute test compares its lower bound with a bound on the COST of the current route.",
 "C08": "Rounds e/f: calculateClusterPathsToEachNode and the non-overlap grouping interpreted on multi-parent hierarchies (two / three sibling clusters sharing a node, node child of a cluster and of its parent).",
 "C09": "Rounds e/f: every solve is followed by a copy-back loop that moves every rectangle; overlapX / overlapY are the missing separation (interpreted on a grid); borders are restored on exceptional exits too.",
 "C10": "Rounds e/f: connector-pair ids are only paired for two different connectors.",
 "C11": "Rounds e/f: Polygon::checkpointsOnSegment meets its documented window for every segment / modifier; both moveAttachedConns mark their updates as pin-move updates.",
 "C12": "Rounds e/f: a terminal whose pin class has pins on two sides is a modelled scenario (known finding).",
 "C13": "Rounds e/f: pruning on closed paths keeps them closed; a segment is skipped as hidden only when it is not attached to the hiding neighbour.",
 "C15": "Rounds e/f: queued pin actions never read their (possibly destroyed) pin; vertices are unlisted before they are deleted; pin-set keys change only outside the set; stale solver pointers are never looked through; constructors set members before calling code that reads them; nullable ConnEnd pointers are tested before use; queued end updates are detached from an obstacle before it is freed; the four Router::delete* entry points free or queue their object; size-constructed Point vectors are completely filled.",
 "C17": "Rounds e/f: only computePathLengths produces entries of D / G and every constructor reaches it; K2 components and edgeless graphs.",
 "C18": "Rounds e/f: a later addSep overwrites exactly its component(s) (9216 call pairs); the TGLF reader does not reorder route points.",
 "C19": "Rounds e/f: the planariser's copy loops cover all nodes / edges; computeCrossings interpreted on segment sets with sub-tolerance segments finds exactly the geometric crossings; the placement step of symmetricLayout keeps sibling trees apart for asymmetric trees.",
 "C20": "Rounds e/f: process-wide borders are restored on exceptional exits (call-graph closure of throw); size-constructed Point vectors are completely filled.",
}.items():
    CHECKS[_p]["text"] = CHECKS[_p]["text"].rstrip() + " " + _t
for _p, _r in {
}.items():
    na(_p, _r)
for _p in ["C01","C02","C03","C04","C05","C06","C07","C08","C09","C10","C11","C12","C13","C14","C16","C17","C18","C19","C20"]:
    if _p not in CHECKS:
        na(_p, "static check designed (DESIGN.md §5) but not yet registered in this commit")
