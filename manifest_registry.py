# One entry per property: register(...) for claimed ones, na(...) for the rest.
register("C15",
    "Exact structural rules, each a necessary condition of memory safety on valid use: constructor-initialisation completeness of scalar "
    "members over all constructors of all classes (CFG dataflow), destructor releases what the class allocates, router-owned objects are "
    "deleted only under the destructor guard, no iterator use after erase. Decides those clauses for every path/constructor/call site; "
    "does not decide absence of all UB for all API histories.",
    "Trusted: clang 14 AST/CFG; reviewed exception tables under tables/ (each entry with a reason); exceptional (throwing) paths are out of scope.",
    "custom dataflow / typestate lints over the type-resolved clang AST, CFG and call graph (libTooling extractor + Python rules)",
    "DESIGN.md §5 C15")
register("C16",
    "Near-complete for the stated domain: the decision tree of every geometry predicate (vecDir, segmentIntersect, pointOnLine, "
    "inBetween, colinear, inValidRegion, cornerSide, segmentShapeIntersect, segmentIntersectPoint classification, inPoly, inPolyGen, "
    "libvpsc LineSegment::Intersect) is extracted by symbolic interpretation of its syntax tree (coordinates are polynomial symbols, "
    "branches are signs of integer polynomials) and shown equal to an independent exact-arithmetic definition on every realisable sign "
    "class of an integer grid, all degenerate configurations included. Intersection *coordinates* (rounded rationals) are not decided.",
    "Trusted: the interpreter (engine/microai), the reference definitions in engine/props/c16.py, integer-valued inputs (a tolerance |t|<1 "
    "folds into the sign atoms), polygon sizes n=3,4; grid side 4-6 decides realisability.",
    "abstract interpretation of the clang AST over a sign-atom domain (path-enumerating symbolic evaluation, no execution), decision-table "
    "equivalence against exact reference predicates",
    "DESIGN.md §5 C16")
for _p, _r in {
 "C06": "equality of route costs between an incrementally edited router and a fresh one quantifies over run-time visibility-graph contents after arbitrary edit histories; no rule over code shape is a necessary condition of it",
 "C12": "tree-ness and terminal preservation of hyperedges are invariants of dynamically rewritten run-time graphs; not visible in code shape",
 "C13": "topology preservation depends on run-time geometry of paths and rectangles; the library's own checks are run-time asserts",
 "C19": "partition / planarity of decompositions are invariants of run-time graph data",
}.items():
    na(_p, _r)
for _p in ["C01","C02","C03","C04","C05","C07","C08","C09","C10","C11","C14","C16","C17","C18","C20"]:
    if _p not in CHECKS:
        na(_p, "static check designed (DESIGN.md §5) but not yet registered in this commit")
