// Observation 4 (UNMODIFIED code): vpsc::Solver (static) only ever merges
// across constraints that are violated (slack < 0), so an equality constraint
// whose right variable is too far to the right is silently left unsatisfied
// (nothing flagged, no exception).  IncSolver handles it.
#include <cstdio>
#include <cmath>
#include "libvpsc/variable.h"
#include "libvpsc/constraint.h"
#include "libvpsc/solve_VPSC.h"
using namespace vpsc;
int main()
{
    Variables vs;
    Constraints cs;
    vs.push_back(new Variable(0, 0));
    vs.push_back(new Variable(1, 10));
    cs.push_back(new Constraint(vs[0], vs[1], 2, true));   // v0 + 2 == v1
    { Solver s(vs, cs); s.solve(); }
    double a = vs[0]->finalPosition, b = vs[1]->finalPosition;
    printf("Solver:    %g %g (optimum 4 6) unsatisfiable=%d\n", a, b, (int) cs[0]->unsatisfiable);
    { IncSolver s(vs, cs); s.solve(); }
    printf("IncSolver: %g %g\n", vs[0]->finalPosition, vs[1]->finalPosition);
    return fabs(a + 2 - b) > 1e-6 ? 1 : 0;
}
