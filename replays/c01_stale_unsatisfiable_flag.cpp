// Observation on the UNMODIFIED code (property C01):
// Constraint::unsatisfiable is set by IncSolver::satisfy() when a constraint closes an infeasible cycle, but
// nothing in libvpsc ever clears it: neither the Solver/IncSolver constructor (which does reset `active` and
// rebuilds the in/out lists) nor a later satisfy()/solve().  slack() returns DBL_MAX for a flagged constraint,
// so a NEW solver built over a now feasible system that still contains the once-flagged constraint silently
// ignores it: the constraint stays flagged although the system is feasible ("flagged iff infeasible" fails),
// and the reported positions violate it.
//
// exit 1 = defect present, exit 0 = not present.
#include <cstdio>
#include <cmath>
#include "libvpsc/variable.h"
#include "libvpsc/constraint.h"
#include "libvpsc/solve_VPSC.h"
using namespace vpsc;
int main()
{
    Variables vs;
    vs.push_back(new Variable(0, 0.0));
    vs.push_back(new Variable(1, 0.0));
    Constraint *c0 = new Constraint(vs[0], vs[1], 3);   // a + 3 <= b
    Constraint *c1 = new Constraint(vs[1], vs[0], 3);   // b + 3 <= a   (together: infeasible)
    {
        Constraints cs; cs.push_back(c0); cs.push_back(c1);
        IncSolver s(vs, cs);
        s.solve();
        printf("first solve (infeasible pair): c0.unsatisfiable=%d c1.unsatisfiable=%d\n",
                c0->unsatisfiable, c1->unsatisfiable);
    }
    // The user drops the constraint that was NOT flagged; what is left is a single, trivially feasible constraint.
    Constraint *kept = c0->unsatisfiable ? c0 : c1;
    Constraints cs2; cs2.push_back(kept);
    vs[0]->desiredPosition = 0; vs[1]->desiredPosition = 0;
    IncSolver s2(vs, cs2);
    s2.solve();
    double slack = kept->right->finalPosition - kept->gap - kept->left->finalPosition;
    printf("second solver over the single constraint v%d + 3 <= v%d: unsatisfiable=%d, positions %g %g, slack=%g\n",
            kept->left->id, kept->right->id, kept->unsatisfiable, vs[0]->finalPosition, vs[1]->finalPosition, slack);
    if (kept->unsatisfiable || slack < -1e-6) {
        printf("DEFECT: a feasible one-constraint system is reported with the constraint flagged unsatisfiable / violated\n");
        return 1;
    }
    printf("ok\n");
    return 0;
}
