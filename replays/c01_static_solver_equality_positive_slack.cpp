// Observation on the UNMODIFIED code: the static vpsc::Solver does not enforce an
// equality constraint whose slack is positive (left+gap < right), and does not
// flag it either.
#include <cstdio>
#include <cmath>
#include "libvpsc/variable.h"
#include "libvpsc/constraint.h"
#include "libvpsc/solve_VPSC.h"
using namespace vpsc;
int main()
{
    Variables vs; Constraints cs;
    vs.push_back(new Variable(0, 0.0, 1.0));
    vs.push_back(new Variable(1, 10.0, 1.0));
    cs.push_back(new Constraint(vs[0], vs[1], 5.0, true));   // a + 5 == b
    Solver s(vs, cs);
    s.solve();
    double err = vs[1]->finalPosition - 5.0 - vs[0]->finalPosition;
    printf("a=%g b=%g  a+5==b off by %g, unsatisfiable flag=%d\n",
           vs[0]->finalPosition, vs[1]->finalPosition, err, (int) cs[0]->unsatisfiable);
    if (std::fabs(err) > 1e-6 && !cs[0]->unsatisfiable) { printf("equality neither satisfied nor flagged\n"); return 1; }
    return 0;
}
