// C02 replay: vpsc::IncSolver::solve() returned a feasible but non-optimal placement on this 8-variable problem (cost 1138478.9,
// optimum 1119678.1 as found by the static vpsc::Solver): pass 1 splits the block on constraint 2 (1->3, one of two equally tight
// paths round the cycle 0-1-3), the merges re-join it through constraint 4 (0->1) at unchanged cost, the loop `while cost changed`
// stops, and constraint 6 (4->7, multiplier -397.4) is never split.  Fixed by 5f41051 (loop also continues while splitCnt > 0).
// Build: g++ -std=gnu++11 -I/repo/cola c02_incsolver_degenerate_split.cpp /repo/cola/libvpsc/.libs/libvpsc.a   (exit 1 = IncSolver worse)
#include "libvpsc/variable.h"
#include "libvpsc/constraint.h"
#include "libvpsc/solve_VPSC.h"
#include <cstdio>
#include <vector>
using namespace vpsc;
static const double D[8]={606,671,403,132,937,484,462,118}, W[8]={1,1,1,2,1,2,1,1};
static const int C[8][3]={{2,6,200},{0,3,150},{1,3,100},{1,2,150},{0,1,50},{6,7,150},{4,7,100},{4,5,200}};
template<class S> double run(const char* name){
  Variables vs; Constraints cs;
  for(int i=0;i<8;++i) vs.push_back(new Variable(i,D[i],W[i]));
  for(int k=0;k<8;++k) cs.push_back(new Constraint(vs[C[k][0]],vs[C[k][1]],C[k][2]));
  S s(vs,cs); s.solve();
  double cost=0; for(int i=0;i<8;++i){ double d=vs[i]->finalPosition-D[i]; cost+=W[i]*d*d; }
  printf("%s cost=%.4f pos:",name,cost); for(int i=0;i<8;++i) printf(" %.3f",vs[i]->finalPosition); printf("\n");
  for(int k=0;k<8;++k){ double sl=vs[C[k][1]]->finalPosition-vs[C[k][0]]->finalPosition-C[k][2]; if(sl<-1e-6) printf("  violated %d\n",k);}
  return cost;
}
int main(){ double a=run<Solver>("Solver   "); double b=run<IncSolver>("IncSolver"); return b>a+1e-6; }
