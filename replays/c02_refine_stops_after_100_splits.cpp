// Observation 1 (UNMODIFIED code): vpsc::Solver::solve() stops refining after
// 100 splits (Solver::refine: "unsigned maxtries=100", one split per
// iteration).  A problem made of K independent 3-variable groups that each need
// one split is therefore returned only partly refined as soon as K > 100
// (n = 3K variables, "hundreds").  No exception, nothing is flagged.
//
//   group:  v0 (desired 7), v1 (desired 4), v2 (desired 0), weights 1
//           v0 + 2 <= v2,   v0 + 1 <= v1
//   optimum of one group: 2.5, 4, 4.5   (satisfy() alone gives 2.667 3.667 4.667)
#include <cstdio>
#include <cstdlib>
#include <cmath>
#include "libvpsc/variable.h"
#include "libvpsc/constraint.h"
#include "libvpsc/solve_VPSC.h"
using namespace vpsc;
int main(int argc, char **argv)
{
    int K = argc > 1 ? atoi(argv[1]) : 150;
    Variables vs;
    Constraints cs;
    for (int k = 0; k < K; ++k) {
        int b = 3 * k;
        vs.push_back(new Variable(b, 7));
        vs.push_back(new Variable(b + 1, 4));
        vs.push_back(new Variable(b + 2, 0));
        cs.push_back(new Constraint(vs[b], vs[b + 2], 2));
        cs.push_back(new Constraint(vs[b], vs[b + 1], 1));
    }
    Solver s(vs, cs);
    s.solve();
    int bad = 0;
    for (int k = 0; k < K; ++k) {
        int b = 3 * k;
        double e = fabs(vs[b]->finalPosition - 2.5) + fabs(vs[b + 1]->finalPosition - 4)
                + fabs(vs[b + 2]->finalPosition - 4.5);
        if (e > 1e-6) {
            if (!bad) printf("group %d: %g %g %g (optimum 2.5 4 4.5)\n", k,
                    vs[b]->finalPosition, vs[b + 1]->finalPosition, vs[b + 2]->finalPosition);
            ++bad;
        }
    }
    printf("%d of %d groups not optimal (n = %d variables)\n", bad, K, 3 * K);
    return bad ? 1 : 0;
}
