// Observation 3 (UNMODIFIED code): vpsc::Solver (static) with scaled variables.
// Blocks::split() does "r->posn = b->posn" although the two blocks may have
// different ps.scale, so while mergeLeft(l) runs the variables of r sit at
// wrong places; l is then merged with r again across another constraint, the
// next refine() iteration splits that one and merges the first again, ... until
// maxtries runs out.  Result: solve() == satisfy(), feasible but not optimal,
// nothing flagged.  (With other inputs the same defect ends in the
// COLA_ASSERT(cs[i]->slack()>ZERO_UPPERBOUND) of Solver::refine.)
// vpsc::IncSolver returns the optimum for the same input.
#include <cstdio>
#include <cmath>
#include "libvpsc/variable.h"
#include "libvpsc/constraint.h"
#include "libvpsc/solve_VPSC.h"
using namespace vpsc;
int main()
{
    const int n = 5, m = 5;
    double d[n] = {7, 6, 6, 4, 0}, s[n] = {2.5, 1, 2, 2, 1.5};
    int L[m] = {1, 1, 2, 0, 3}, R[m] = {3, 2, 4, 1, 4};
    double G[m] = {1, 3, 0, 0, 0};   //  s[L]*x[L] + G <= s[R]*x[R]
    double cost[2], x[2][n];
    for (int mode = 0; mode < 2; ++mode) {
        Variables vs;
        Constraints cs;
        for (int i = 0; i < n; ++i) vs.push_back(new Variable(i, d[i], 1, s[i]));
        for (int j = 0; j < m; ++j) cs.push_back(new Constraint(vs[L[j]], vs[R[j]], G[j]));
        if (mode == 0) { Solver sv(vs, cs); sv.solve(); }
        else { IncSolver sv(vs, cs); sv.solve(); }
        cost[mode] = 0;
        double viol = 0;
        for (int i = 0; i < n; ++i) {
            x[mode][i] = vs[i]->finalPosition;
            cost[mode] += pow(x[mode][i] - d[i], 2);
        }
        for (int j = 0; j < m; ++j)
            viol = fmax(viol, s[L[j]] * x[mode][L[j]] + G[j] - s[R[j]] * x[mode][R[j]]);
        printf("%s:", mode ? "IncSolver" : "Solver   ");
        for (int i = 0; i < n; ++i) printf(" %.5f", x[mode][i]);
        printf("   cost %.6f   max violation %g\n", cost[mode], viol);
    }
    // optimum (checked by hand / QP): 2.09587 5.23966 4.11983 4 5.49311, cost 58.3379
    return cost[0] > cost[1] + 1e-6 ? 1 : 0;
}
