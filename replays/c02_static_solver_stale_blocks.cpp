// obs1: the static vpsc::Solver computes the block positions in its constructor and never looks at
// Variable::desiredPosition again for a variable that is alone in its block.  Desired positions that
// are set between constructing the solver and calling solve() (the normal order for IncSolver, e.g. in
// libcola's GradientProjection), or between two calls of solve(), are silently half-ignored: the result
// is feasible, nothing is reported, but it is not the optimum (and not the optimum of the old desired
// positions either).
// exit 1 = defect present, exit 0 = not present.
#include <libvpsc/variable.h>
#include <libvpsc/constraint.h>
#include <libvpsc/solve_VPSC.h>
#include <cstdio>
#include <cmath>
#include <cstdlib>
#include <unistd.h>
#include <sys/wait.h>
using namespace vpsc;
static bool near(double a, double b) { return fabs(a - b) < 1e-6; }
int main() {
    int bad = 0;
    Variables vs; Constraints cs;
    vs.push_back(new Variable(0, 0)); vs.push_back(new Variable(1, 0));
    cs.push_back(new Constraint(vs[0], vs[1], 1));
    {
        // (a) desired positions set after construction, before the first solve()
        Solver s(vs, cs);
        vs[0]->desiredPosition = 5; vs[1]->desiredPosition = 10;
        s.solve();
        printf("(a) desired (5,10) set after Solver(): got %g %g, optimum 5 10\n", vs[0]->finalPosition, vs[1]->finalPosition);
        if (!near(vs[0]->finalPosition, 5) || !near(vs[1]->finalPosition, 10)) bad = 1;
    }
    {
        // (b) second solve() after the desired positions moved
        vs[0]->desiredPosition = 5; vs[1]->desiredPosition = 10;
        Solver s(vs, cs);
        s.solve();
        printf("(b) first solve, desired (5,10): got %g %g\n", vs[0]->finalPosition, vs[1]->finalPosition);
        vs[0]->desiredPosition = 0; vs[1]->desiredPosition = 0;
        s.solve();
        printf("(b) second solve, desired (0,0): got %g %g, optimum -0.5 0.5\n", vs[0]->finalPosition, vs[1]->finalPosition);
        if (!near(vs[0]->finalPosition, -0.5) || !near(vs[1]->finalPosition, 0.5)) bad = 1;
    }
    {
        // the same two histories with IncSolver are fine
        vs[0]->desiredPosition = 0; vs[1]->desiredPosition = 0;
        IncSolver s(vs, cs);
        vs[0]->desiredPosition = 5; vs[1]->desiredPosition = 10;
        s.solve();
        printf("(IncSolver) desired (5,10) set after construction: got %g %g\n", vs[0]->finalPosition, vs[1]->finalPosition);
        vs[0]->desiredPosition = 0; vs[1]->desiredPosition = 0;
        s.solve();
        printf("(IncSolver) second solve, desired (0,0): got %g %g\n", vs[0]->finalPosition, vs[1]->finalPosition);
    }
    {
        // (c) second solve() can even end in "UnsatisfiedConstraint" / a failed assertion: the merged
        // block keeps its stale position, so the multipliers computed in refine() are inconsistent
        // (they depend on which variable the traversal starts from), the block is split across a
        // constraint that is in fact binding, and nobody looks at that constraint again.
        // Run in a child process because the default build aborts in COLA_ASSERT.
        fflush(stdout);
        pid_t pid = fork();
        if (pid == 0) {
            Variables v; Constraints c;
            v.push_back(new Variable(0, 9.75, 4)); v.push_back(new Variable(1, 7.8, 1));
            c.push_back(new Constraint(v[0], v[1], 0));
            Solver s(v, c);
            s.solve();                                    // 9.36 9.36
            v[0]->desiredPosition = 4.7; v[1]->desiredPosition = -8.9;   // optimum 1.98 1.98
            try { s.solve(); } catch (...) { _exit(3); }
            _exit((fabs(v[0]->finalPosition - 1.98) < 1e-6 && fabs(v[1]->finalPosition - 1.98) < 1e-6) ? 0 : 2);
        }
        int st = 0; waitpid(pid, &st, 0);
        if (WIFSIGNALED(st)) { printf("(c) second solve(): process killed by signal %d (failed assertion in Solver::refine)\n", WTERMSIG(st)); bad = 1; }
        else if (WEXITSTATUS(st) == 3) { printf("(c) second solve(): exception thrown (UnsatisfiedConstraint)\n"); bad = 1; }
        else if (WEXITSTATUS(st) == 2) { printf("(c) second solve(): wrong result\n"); bad = 1; }
        else printf("(c) second solve(): ok\n");
    }
    printf(bad ? "DEFECT PRESENT\n" : "ok\n");
    return bad;
}
