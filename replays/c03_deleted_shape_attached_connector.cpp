// Shared property checker for C03 demos (copied inline into the demos).
#include <cstdio>
#include <cmath>
#include <vector>
#include <algorithm>
#include "libavoid/libavoid.h"

namespace c03 {

// Length of the part of segment p->q that lies strictly inside (by margin eps)
// the convex polygon poly.
static double insideLength(const Avoid::Polygon& poly, const Avoid::Point& p,
        const Avoid::Point& q, double eps = 1e-6)
{
    size_t n = poly.size();
    double area = 0;
    for (size_t i = 0; i < n; ++i)
    {
        const Avoid::Point& a = poly.ps[i];
        const Avoid::Point& b = poly.ps[(i + 1) % n];
        area += a.x * b.y - b.x * a.y;
    }
    double orient = (area >= 0) ? 1.0 : -1.0;
    double t0 = 0, t1 = 1;
    for (size_t i = 0; i < n; ++i)
    {
        const Avoid::Point& a = poly.ps[i];
        const Avoid::Point& b = poly.ps[(i + 1) % n];
        double ex = b.x - a.x, ey = b.y - a.y;
        double len = std::sqrt(ex * ex + ey * ey);
        if (len == 0) continue;
        // signed distance (positive inside) of p and q from the edge line.
        double f0 = orient * (ex * (p.y - a.y) - ey * (p.x - a.x)) / len - eps;
        double f1 = orient * (ex * (q.y - a.y) - ey * (q.x - a.x)) / len - eps;
        if (f0 <= 0 && f1 <= 0) return 0;
        if (f0 > 0 && f1 > 0) continue;
        double t = f0 / (f0 - f1);
        if (f0 <= 0) t0 = std::max(t0, t); else t1 = std::min(t1, t);
    }
    if (t1 <= t0) return 0;
    double dx = q.x - p.x, dy = q.y - p.y;
    return (t1 - t0) * std::sqrt(dx * dx + dy * dy);
}

static bool strictlyInside(const Avoid::Polygon& poly, const Avoid::Point& p)
{
    Avoid::Point q(p.x + 1e-3, p.y);
    return insideLength(poly, p, q, 1e-9) > 0 ||
           insideLength(poly, Avoid::Point(p.x - 1e-3, p.y), p, 1e-9) > 0;
}

// Returns the number of violations of the property for the connector.
static int checkConn(Avoid::ConnRef *conn, const std::vector<Avoid::ShapeRef *>& shapes,
        const Avoid::Point& src, const Avoid::Point& dst, const char *name)
{
    int bad = 0;
    const Avoid::PolyLine& r = conn->displayRoute();
    if (r.size() < 2)
    {
        printf("  %s: route has %d points\n", name, (int) r.size());
        return 1;
    }
    if (std::fabs(r.ps[0].x - src.x) > 1e-6 || std::fabs(r.ps[0].y - src.y) > 1e-6)
    {
        printf("  %s: route starts at (%g,%g), not at source (%g,%g)\n", name,
                r.ps[0].x, r.ps[0].y, src.x, src.y);
        ++bad;
    }
    size_t m = r.size() - 1;
    if (std::fabs(r.ps[m].x - dst.x) > 1e-6 || std::fabs(r.ps[m].y - dst.y) > 1e-6)
    {
        printf("  %s: route ends at (%g,%g), not at destination (%g,%g)\n", name,
                r.ps[m].x, r.ps[m].y, dst.x, dst.y);
        ++bad;
    }
    for (size_t s = 0; s < shapes.size(); ++s)
    {
        const Avoid::Polygon& poly = shapes[s]->polygon();
        if (strictlyInside(poly, r.ps[0]) || strictlyInside(poly, r.ps[m]))
        {
            continue;
        }
        for (size_t i = 1; i < r.size(); ++i)
        {
            double len = insideLength(poly, r.ps[i - 1], r.ps[i]);
            if (len > 1e-6)
            {
                printf("  %s: segment (%g,%g)-(%g,%g) runs %g units through the "
                        "interior of shape %u\n", name, r.ps[i - 1].x, r.ps[i - 1].y,
                        r.ps[i].x, r.ps[i].y, len, shapes[s]->id());
                ++bad;
            }
        }
    }
    return bad;
}

static void printRoute(Avoid::ConnRef *conn, const char *name)
{
    const Avoid::PolyLine& r = conn->displayRoute();
    printf("  %s route:", name);
    for (size_t i = 0; i < r.size(); ++i) printf(" (%g,%g)", r.ps[i].x, r.ps[i].y);
    printf("\n");
}

}

// Observation 1 (unmodified code): deleting a shape that a connector is
// attached to (through a connection pin) leaves the connector with a straight
// two-point route to the centre of the deleted shape, through other shapes.
using namespace Avoid;

static int run(RouterFlag flag, ConnType type, const char *name)
{
    printf("== %s routing ==\n", name);
    Router *router = new Router(flag);
    router->setRoutingParameter(segmentPenalty, 50);
    std::vector<ShapeRef *> shapes;
    Rectangle r1(Point(300, 100), Point(400, 200));
    ShapeRef *s1 = new ShapeRef(router, r1);
    new ShapeConnectionPin(s1, 1, ATTACH_POS_LEFT, ATTACH_POS_CENTRE, true,
            0.0, ConnDirLeft);
    Rectangle r2(Point(130, 100), Point(170, 220));
    shapes.push_back(new ShapeRef(router, r2));
    Point src(0, 150), pinPos(300, 150);
    ConnRef *conn = new ConnRef(router, ConnEnd(src), ConnEnd(s1, 1));
    conn->setRoutingType(type);
    router->processTransaction();
    printf("before deleting shape 1 (connector attached to its pin at (300,150))\n");
    c03::printRoute(conn, "connector");
    int bad = c03::checkConn(conn, shapes, src, pinPos, "connector");

    router->deleteShape(s1);
    router->processTransaction();
    Point att = conn->endpointConnEnds().second.position();
    printf("after deleting shape 1; destination ConnEnd now reports (%g,%g)\n",
            att.x, att.y);
    c03::printRoute(conn, "connector");
    bad += c03::checkConn(conn, shapes, src, att, "connector");
    delete router;
    return bad;
}

int main(void)
{
    int bad = run(PolyLineRouting, ConnType_PolyLine, "polyline");
    bad += run(OrthogonalRouting, ConnType_Orthogonal, "orthogonal");
    printf("%s (%d violation(s))\n", bad ? "DEFECT PRESENT" : "clean", bad);
    return bad ? 1 : 0;
}
