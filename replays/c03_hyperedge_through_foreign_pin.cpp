// Observation 2 (UNMODIFIED code): hyperedge rerouting (HyperedgeRerouter / MTST) routes an
// arm of the hyperedge straight through a shape that is not attached to the hyperedge at
// all, using the vertex of that shape's (unused) interior connection pin as a way through.
//
// exit 1 = defect present, exit 0 = fine.
#include "libavoid/libavoid.h"
#include <cstdio>
#include <algorithm>
using namespace Avoid;

static bool throughInterior(double x1, double y1, double x2, double y2, const Point& a, const Point& b)
{
    double t0 = 0, t1 = 1;
    const double d[2] = { b.x - a.x, b.y - a.y }, p[2] = { a.x, a.y };
    const double lo[2] = { x1, y1 }, hi[2] = { x2, y2 };
    for (int k = 0; k < 2; ++k)
    {
        if (d[k] == 0) { if (!(lo[k] < p[k] && p[k] < hi[k])) return false; }
        else
        {
            double ta = (lo[k] - p[k]) / d[k], tb = (hi[k] - p[k]) / d[k];
            if (ta > tb) std::swap(ta, tb);
            t0 = std::max(t0, ta); t1 = std::min(t1, tb);
        }
    }
    if (d[0] == 0 && d[1] == 0) return true;
    return t0 < t1;
}

int main(void)
{
    Router *router = new Router(OrthogonalRouting);
    router->setRoutingParameter(segmentPenalty, 50);
    router->setRoutingParameter(idealNudgingDistance, 10);

    // The bystander shape S with a centre pin that nothing is attached to.
    Rectangle rect(Point(200, 100), Point(260, 200));
    ShapeRef *S = new ShapeRef(router, rect, 1);
    new ShapeConnectionPin(S, 1, ATTACH_POS_CENTRE, ATTACH_POS_CENTRE, true, 0.0, ConnDirAll);
    // Another bystander.
    Rectangle rect2(Point(500, 0), Point(560, 60));
    new ShapeRef(router, rect2, 2);

    JunctionRef *j = new JunctionRef(router, Point(230, 400), 7);
    const Point t1(230, 0), t2(0, 400), t3(460, 400);   // t1 is straight above S's centre
    new ConnRef(router, ConnEnd(t1), ConnEnd(j), 11);
    new ConnRef(router, ConnEnd(t2), ConnEnd(j), 12);
    new ConnRef(router, ConnEnd(t3), ConnEnd(j), 13);
    router->hyperedgeRerouter()->registerHyperedgeForRerouting(j);
    router->processTransaction();

    int bad = 0;
    for (ConnRefList::const_iterator it = router->connRefs.begin(); it != router->connRefs.end(); ++it)
    {
        const PolyLine& route = (*it)->displayRoute();
        printf("conn %u:", (*it)->id());
        for (size_t k = 0; k < route.size(); ++k) printf(" (%g,%g)", route.ps[k].x, route.ps[k].y);
        printf("\n");
        for (size_t k = 1; k < route.size(); ++k)
        {
            if (throughInterior(200, 100, 260, 200, route.ps[k - 1], route.ps[k]))
            {
                printf("  DEFECT: segment (%g,%g)-(%g,%g) passes through the interior of S [200,100]-[260,200]\n",
                        route.ps[k - 1].x, route.ps[k - 1].y, route.ps[k].x, route.ps[k].y);
                ++bad;
            }
        }
    }
    delete router;
    return bad ? 1 : 0;
}
