// Shared property checker for C03 demos (copied inline into the demos).
#include <cstdio>
#include <cmath>
#include <vector>
#include <algorithm>
#include "libavoid/libavoid.h"

namespace c03 {

// Length of the part of segment p->q that lies strictly inside (by margin eps)
// the convex polygon poly.
static double insideLength(const Avoid::Polygon& poly, const Avoid::Point& p,
        const Avoid::Point& q, double eps = 1e-6)
{
    size_t n = poly.size();
    double area = 0;
    for (size_t i = 0; i < n; ++i)
    {
        const Avoid::Point& a = poly.ps[i];
        const Avoid::Point& b = poly.ps[(i + 1) % n];
        area += a.x * b.y - b.x * a.y;
    }
    double orient = (area >= 0) ? 1.0 : -1.0;
    double t0 = 0, t1 = 1;
    for (size_t i = 0; i < n; ++i)
    {
        const Avoid::Point& a = poly.ps[i];
        const Avoid::Point& b = poly.ps[(i + 1) % n];
        double ex = b.x - a.x, ey = b.y - a.y;
        double len = std::sqrt(ex * ex + ey * ey);
        if (len == 0) continue;
        // signed distance (positive inside) of p and q from the edge line.
        double f0 = orient * (ex * (p.y - a.y) - ey * (p.x - a.x)) / len - eps;
        double f1 = orient * (ex * (q.y - a.y) - ey * (q.x - a.x)) / len - eps;
        if (f0 <= 0 && f1 <= 0) return 0;
        if (f0 > 0 && f1 > 0) continue;
        double t = f0 / (f0 - f1);
        if (f0 <= 0) t0 = std::max(t0, t); else t1 = std::min(t1, t);
    }
    if (t1 <= t0) return 0;
    double dx = q.x - p.x, dy = q.y - p.y;
    return (t1 - t0) * std::sqrt(dx * dx + dy * dy);
}

static bool strictlyInside(const Avoid::Polygon& poly, const Avoid::Point& p)
{
    Avoid::Point q(p.x + 1e-3, p.y);
    return insideLength(poly, p, q, 1e-9) > 0 ||
           insideLength(poly, Avoid::Point(p.x - 1e-3, p.y), p, 1e-9) > 0;
}

// Returns the number of violations of the property for the connector.
static int checkConn(Avoid::ConnRef *conn, const std::vector<Avoid::ShapeRef *>& shapes,
        const Avoid::Point& src, const Avoid::Point& dst, const char *name)
{
    int bad = 0;
    const Avoid::PolyLine& r = conn->displayRoute();
    if (r.size() < 2)
    {
        printf("  %s: route has %d points\n", name, (int) r.size());
        return 1;
    }
    if (std::fabs(r.ps[0].x - src.x) > 1e-6 || std::fabs(r.ps[0].y - src.y) > 1e-6)
    {
        printf("  %s: route starts at (%g,%g), not at source (%g,%g)\n", name,
                r.ps[0].x, r.ps[0].y, src.x, src.y);
        ++bad;
    }
    size_t m = r.size() - 1;
    if (std::fabs(r.ps[m].x - dst.x) > 1e-6 || std::fabs(r.ps[m].y - dst.y) > 1e-6)
    {
        printf("  %s: route ends at (%g,%g), not at destination (%g,%g)\n", name,
                r.ps[m].x, r.ps[m].y, dst.x, dst.y);
        ++bad;
    }
    for (size_t s = 0; s < shapes.size(); ++s)
    {
        const Avoid::Polygon& poly = shapes[s]->polygon();
        if (strictlyInside(poly, r.ps[0]) || strictlyInside(poly, r.ps[m]))
        {
            continue;
        }
        for (size_t i = 1; i < r.size(); ++i)
        {
            double len = insideLength(poly, r.ps[i - 1], r.ps[i]);
            if (len > 1e-6)
            {
                printf("  %s: segment (%g,%g)-(%g,%g) runs %g units through the "
                        "interior of shape %u\n", name, r.ps[i - 1].x, r.ps[i - 1].y,
                        r.ps[i].x, r.ps[i].y, len, shapes[s]->id());
                ++bad;
            }
        }
    }
    return bad;
}

static void printRoute(Avoid::ConnRef *conn, const char *name)
{
    const Avoid::PolyLine& r = conn->displayRoute();
    printf("  %s route:", name);
    for (size_t i = 0; i < r.size(); ++i) printf(" (%g,%g)", r.ps[i].x, r.ps[i].y);
    printf("\n");
}

}

// Observation 3 (unmodified code), polyline routing with the default sweep
// visibility (UseLeesAlgorithm):
//  scenes 0, 1: two touching rectangles with a coincident corner.  The
//     visibility edge from a connector end point on the border of shape A to
//     the corner vertex of shape B that coincides with a corner of A is
//     accepted although it runs through the interior of A.
//  scene 2: a connector end point exactly at a corner point of a shape sees
//     the other end point on a non-adjacent side straight through the shape.
using namespace Avoid;

static int scene(int which, bool lees)
{
    Router *router = new Router(PolyLineRouting);
    router->UseLeesAlgorithm = lees;
    std::vector<ShapeRef *> shapes;
    Point src, dst;
    if (which == 0)
    {
        // A = (150,0)-(220,80) above B = (150,80)-(210,130); they share the
        // corner point (150,80).  The destination lies on the top side of A.
        Rectangle ra(Point(150, 0), Point(220, 80));
        Rectangle rb(Point(150, 80), Point(210, 130));
        shapes.push_back(new ShapeRef(router, ra));
        shapes.push_back(new ShapeRef(router, rb));
        src = Point(180, 150);
        dst = Point(190, 0);
    }
    else if (which == 2)
    {
        // A single rectangle.  The source is exactly at its bottom-right
        // corner point, the destination on its top side.
        Rectangle ra(Point(20, 30), Point(60, 50));
        shapes.push_back(new ShapeRef(router, ra));
        src = Point(60, 50);
        dst = Point(30, 30);
    }
    else
    {
        // B = (110,100)-(190,140) above A = (110,140)-(130,150); they share
        // the corner point (110,140).  The destination is the opposite
        // corner point of A.
        Rectangle rb(Point(110, 100), Point(190, 140));
        Rectangle ra(Point(110, 140), Point(130, 150));
        shapes.push_back(new ShapeRef(router, rb));
        shapes.push_back(new ShapeRef(router, ra));
        src = Point(110, 80);
        dst = Point(130, 150);
    }
    ConnRef *conn = new ConnRef(router, ConnEnd(src), ConnEnd(dst));
    router->processTransaction();
    printf("scene %d, %s visibility:\n", which,
            lees ? "sweep (default)" : "naive");
    c03::printRoute(conn, "connector");
    int bad = c03::checkConn(conn, shapes, src, dst, "connector");
    printf("  -> %s\n", bad ? "PROPERTY VIOLATED" : "ok");
    delete router;
    return bad;
}

int main(void)
{
    int bad = 0;
    for (int lees = 1; lees >= 0; --lees)
    {
        for (int which = 0; which < 3; ++which)
        {
            bad += scene(which, lees != 0);
        }
    }
    printf("%s (%d violation(s))\n", bad ? "DEFECT PRESENT" : "clean", bad);
    return bad ? 1 : 0;
}
