// Build: g++ -std=gnu++11 -I/repo/cola this.cpp /repo/cola/libavoid/.libs/libavoid.a ; at ca49d12: route (100,60) (150,100) (300,140) (350,180), FAIL; after the fix the route goes round the bar.
// C03 replay: a polyline route passes through the interior of a shape.  Flat bar S = [0,400]x[100,140]; block T1 = [150,250]x[40,100]
// rests on top of S (its corners lie on S's top edge), block T2 = [200,300]x[140,200] hangs below it.  In the Lee sweep
// (vertexSweep) a sweep centre lying on a HORIZONTAL edge of another shape is not recorded in onBorderIDs (both end vertices of the
// edge are collinear with the initial ray, so neither arm of the initial edge scan looks at the edge), and sweepVisible's touching
// case then declares a corner resting on the opposite side of S visible straight through S.
#include "libavoid/libavoid.h"
#include <cstdio>
#include <cmath>
using namespace Avoid;
static Polygon rect(double x0, double y0, double x1, double y1) { Polygon p(4); p.ps[0]=Point(x0,y0); p.ps[1]=Point(x1,y0); p.ps[2]=Point(x1,y1); p.ps[3]=Point(x0,y1); return p; }
int main()
{
    Router *router = new Router(PolyLineRouting);
    Polygon S = rect(0,100,400,140), T1 = rect(150,40,250,100), T2 = rect(200,140,300,200);
    new ShapeRef(router, S, 1); new ShapeRef(router, T1, 2); new ShapeRef(router, T2, 3);
    ConnRef *c = new ConnRef(router, ConnEnd(Point(100,60)), ConnEnd(Point(350,180)), 100);
    router->processTransaction();
    const PolyLine& r = c->displayRoute();
    printf("route:"); for (size_t i = 0; i < r.size(); ++i) printf(" (%g,%g)", r.ps[i].x, r.ps[i].y); printf("\n");
    int bad = 0;
    for (size_t i = 1; i < r.size(); ++i) {
        // does the segment cross the open interior of S = (0,400)x(100,140)?  sample it
        for (int k = 1; k < 200; ++k) {
            double t = k / 200.0, x = r.ps[i-1].x + t * (r.ps[i].x - r.ps[i-1].x), y = r.ps[i-1].y + t * (r.ps[i].y - r.ps[i-1].y);
            if (x > 0 && x < 400 && y > 100 && y < 140) { bad = 1; }
        }
    }
    printf("%s\n", bad ? "FAIL: the route passes through the interior of the bar S" : "ok");
    delete router;
    return bad;
}
