// Observation on UNMODIFIED code: a polyline connector is left running through
// an obstacle along its exact diagonal.
//
// usage: obs1 [setup]     setup = 1, 2 or 3 runs only that setup (plus nothing
//                         else); no argument runs all three and the two controls.
//                         Exit code 1 if a run setup violates, else 0.
//
// Setup 1 (default options): the connector is routed first (a straight line),
// then a square is added so that the line passes exactly through two opposite
// corners of the square.  Router::newBlockingShape() does not notice that the
// existing src--dst visibility edge is blocked (segmentIntersect() returns false
// for every side because one end of each side is collinear with the edge, and the
// "touches at an endpoint" clause of segmentShapeIntersect() only looks at the
// endpoints of the visibility edge, not at polygon corners lying on it).
//
// Setup 2 (UseLeesAlgorithm = false): the same scene built in one transaction;
// EdgeInf::firstBlocker() has the same hole, so the naive visibility check gives
// the endpoints direct visibility through the square.
//
// Setup 3 (default options, ONE transaction, fresh scene): two small rectangles
// have corners at (50,50) and (250,250); the square (100,100)-(200,200) is created
// after them.  Shapes are added to the visibility graph one at a time, so the edge
// (50,50)--(250,250) is computed before the square exists and then only vetted by
// newBlockingShape(), which misses it.  The connector (10,45)->(290,255) is routed
// (10,45) (50,50) (250,250) (290,255): straight through the square.  Creating the
// square first gives the correct route (control 2).
#include <cstdio>
#include <cstdlib>
#include <cmath>
#include "libavoid/libavoid.h"
using namespace Avoid;

static double len(const Polygon& r)
{
    double l = 0;
    for (size_t i = 1; i < r.size(); ++i) l += euclideanDist(r.ps[i-1], r.ps[i]);
    return l;
}

static void printRoute(const Polygon& r)
{
    for (size_t i = 0; i < r.size(); ++i) printf(" (%g,%g)", r.ps[i].x, r.ps[i].y);
    printf("\n");
}

int main(int argc, char **argv)
{
    int which = (argc > 1) ? atoi(argv[1]) : 0;
    int bad = 0;
    // Shortest obstacle avoiding path: (50,50)->(200,100)->(250,250) or mirror.
    const double want = 2 * std::sqrt(150.0 * 150.0 + 50.0 * 50.0);
    if (which == 0 || which == 1)
    {
        Router *router = new Router(PolyLineRouting);
        router->setRoutingParameter(segmentPenalty, 0);
        ConnRef *conn = new ConnRef(router, ConnEnd(Point(50, 50)), ConnEnd(Point(250, 250)));
        router->processTransaction();
        Rectangle sq(Point(100, 100), Point(200, 200));
        new ShapeRef(router, sq);
        router->processTransaction();
        double got = len(conn->displayRoute());
        printf("setup 1 (shape added after connector): length %.6f, shortest avoiding path %.6f, route:", got, want);
        printRoute(conn->displayRoute());
        if (std::fabs(got - want) > 1e-6) ++bad;
        delete router;
    }
    if (which == 0 || which == 2)
    {
        Router *router = new Router(PolyLineRouting);
        router->setRoutingParameter(segmentPenalty, 0);
        router->UseLeesAlgorithm = false;
        Rectangle sq(Point(100, 100), Point(200, 200));
        new ShapeRef(router, sq);
        ConnRef *conn = new ConnRef(router, ConnEnd(Point(50, 50)), ConnEnd(Point(250, 250)));
        router->processTransaction();
        double got = len(conn->displayRoute());
        printf("setup 2 (UseLeesAlgorithm=false): length %.6f, shortest avoiding path %.6f, route:", got, want);
        printRoute(conn->displayRoute());
        if (std::fabs(got - want) > 1e-6) ++bad;
        delete router;
    }
    if (which == 0)
    {
        Router *router = new Router(PolyLineRouting);
        router->setRoutingParameter(segmentPenalty, 0);
        Rectangle sq(Point(100, 100), Point(200, 200));
        new ShapeRef(router, sq);
        ConnRef *conn = new ConnRef(router, ConnEnd(Point(50, 50)), ConnEnd(Point(250, 250)));
        router->processTransaction();
        double got = len(conn->displayRoute());
        printf("control (default options, one transaction): length %.6f, shortest avoiding path %.6f, route:", got, want);
        printRoute(conn->displayRoute());
        if (std::fabs(got - want) > 1e-6) ++bad;
        delete router;
    }
    for (int order = 0; order < 2; ++order)
    {
        if (!((which == 0) || (which == 3 && order == 0))) continue;
        Router *router = new Router(PolyLineRouting);
        router->setRoutingParameter(segmentPenalty, 0);
        Rectangle a(Point(20, 50), Point(50, 80));
        Rectangle b(Point(250, 220), Point(280, 250));
        Rectangle sq(Point(100, 100), Point(200, 200));
        if (order == 1) new ShapeRef(router, sq);
        new ShapeRef(router, a);
        new ShapeRef(router, b);
        if (order == 0) new ShapeRef(router, sq);
        ConnRef *conn = new ConnRef(router, ConnEnd(Point(10, 45)), ConnEnd(Point(290, 255)));
        router->processTransaction();
        // Shortest avoiding path: (10,45) (20,80) (100,200) (250,250) (290,255).
        const double want3 = std::sqrt(10.0*10+35.0*35) + std::sqrt(80.0*80+120.0*120) +
                std::sqrt(150.0*150+50.0*50) + std::sqrt(40.0*40+5.0*5);
        double got = len(conn->displayRoute());
        printf("%s: length %.6f, shortest avoiding path %.6f, route:",
                order == 0 ? "setup 3 (one transaction, square created last)" :
                             "control 2 (one transaction, square created first)", got, want3);
        printRoute(conn->displayRoute());
        if (std::fabs(got - want3) > 1e-6) ++bad;
        delete router;
    }
    if (bad) printf("VIOLATION: %d setup(s) route through the obstacle\n", bad);
    else printf("ok\n");
    return bad ? 1 : 0;
}
