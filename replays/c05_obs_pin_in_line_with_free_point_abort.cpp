// Shared property checker for C03 demos (copied inline into the demos).
#include <cstdio>
#include <cmath>
#include <vector>
#include <algorithm>
#include "libavoid/libavoid.h"

namespace c03 {

// Length of the part of segment p->q that lies strictly inside (by margin eps)
// the convex polygon poly.
static double insideLength(const Avoid::Polygon& poly, const Avoid::Point& p,
        const Avoid::Point& q, double eps = 1e-6)
{
    size_t n = poly.size();
    double area = 0;
    for (size_t i = 0; i < n; ++i)
    {
        const Avoid::Point& a = poly.ps[i];
        const Avoid::Point& b = poly.ps[(i + 1) % n];
        area += a.x * b.y - b.x * a.y;
    }
    double orient = (area >= 0) ? 1.0 : -1.0;
    double t0 = 0, t1 = 1;
    for (size_t i = 0; i < n; ++i)
    {
        const Avoid::Point& a = poly.ps[i];
        const Avoid::Point& b = poly.ps[(i + 1) % n];
        double ex = b.x - a.x, ey = b.y - a.y;
        double len = std::sqrt(ex * ex + ey * ey);
        if (len == 0) continue;
        // signed distance (positive inside) of p and q from the edge line.
        double f0 = orient * (ex * (p.y - a.y) - ey * (p.x - a.x)) / len - eps;
        double f1 = orient * (ex * (q.y - a.y) - ey * (q.x - a.x)) / len - eps;
        if (f0 <= 0 && f1 <= 0) return 0;
        if (f0 > 0 && f1 > 0) continue;
        double t = f0 / (f0 - f1);
        if (f0 <= 0) t0 = std::max(t0, t); else t1 = std::min(t1, t);
    }
    if (t1 <= t0) return 0;
    double dx = q.x - p.x, dy = q.y - p.y;
    return (t1 - t0) * std::sqrt(dx * dx + dy * dy);
}

static bool strictlyInside(const Avoid::Polygon& poly, const Avoid::Point& p)
{
    Avoid::Point q(p.x + 1e-3, p.y);
    return insideLength(poly, p, q, 1e-9) > 0 ||
           insideLength(poly, Avoid::Point(p.x - 1e-3, p.y), p, 1e-9) > 0;
}

// Returns the number of violations of the property for the connector.
static int checkConn(Avoid::ConnRef *conn, const std::vector<Avoid::ShapeRef *>& shapes,
        const Avoid::Point& src, const Avoid::Point& dst, const char *name)
{
    int bad = 0;
    const Avoid::PolyLine& r = conn->displayRoute();
    if (r.size() < 2)
    {
        printf("  %s: route has %d points\n", name, (int) r.size());
        return 1;
    }
    if (std::fabs(r.ps[0].x - src.x) > 1e-6 || std::fabs(r.ps[0].y - src.y) > 1e-6)
    {
        printf("  %s: route starts at (%g,%g), not at source (%g,%g)\n", name,
                r.ps[0].x, r.ps[0].y, src.x, src.y);
        ++bad;
    }
    size_t m = r.size() - 1;
    if (std::fabs(r.ps[m].x - dst.x) > 1e-6 || std::fabs(r.ps[m].y - dst.y) > 1e-6)
    {
        printf("  %s: route ends at (%g,%g), not at destination (%g,%g)\n", name,
                r.ps[m].x, r.ps[m].y, dst.x, dst.y);
        ++bad;
    }
    for (size_t s = 0; s < shapes.size(); ++s)
    {
        const Avoid::Polygon& poly = shapes[s]->polygon();
        if (strictlyInside(poly, r.ps[0]) || strictlyInside(poly, r.ps[m]))
        {
            continue;
        }
        for (size_t i = 1; i < r.size(); ++i)
        {
            double len = insideLength(poly, r.ps[i - 1], r.ps[i]);
            if (len > 1e-6)
            {
                printf("  %s: segment (%g,%g)-(%g,%g) runs %g units through the "
                        "interior of shape %u\n", name, r.ps[i - 1].x, r.ps[i - 1].y,
                        r.ps[i].x, r.ps[i].y, len, shapes[s]->id());
                ++bad;
            }
        }
    }
    return bad;
}

static void printRoute(Avoid::ConnRef *conn, const char *name)
{
    const Avoid::PolyLine& r = conn->displayRoute();
    printf("  %s route:", name);
    for (size_t i = 0; i < r.size(); ++i) printf(" (%g,%g)", r.ps[i].x, r.ps[i].y);
    printf("\n");
}

}

// Observation 4 (unmodified code): orthogonal connector from a shape (class of
// four side pins) to a free end point.  After the shape is moved so that the
// pin in use is directly in line with the free end point, the next
// processTransaction() aborts on an assertion in
// AStarPathPrivate::determineEndPointLocation() (makepath.cpp).
#include <unistd.h>
#include <sys/wait.h>
using namespace Avoid;

static int child(void)
{
    Router *router = new Router(OrthogonalRouting);
    router->setRoutingParameter(segmentPenalty, 50);
    std::vector<ShapeRef *> shapes;
    Rectangle r(Point(180, 170), Point(240, 190));
    ShapeRef *s = new ShapeRef(router, r);
    shapes.push_back(s);
    new ShapeConnectionPin(s, 1, ATTACH_POS_LEFT, ATTACH_POS_CENTRE, true, 0.0, ConnDirLeft);
    new ShapeConnectionPin(s, 1, ATTACH_POS_RIGHT, ATTACH_POS_CENTRE, true, 0.0, ConnDirRight);
    new ShapeConnectionPin(s, 1, ATTACH_POS_CENTRE, ATTACH_POS_TOP, true, 0.0, ConnDirUp);
    new ShapeConnectionPin(s, 1, ATTACH_POS_CENTRE, ATTACH_POS_BOTTOM, true, 0.0, ConnDirDown);
    Point dst(200, 235);
    ConnRef *conn = new ConnRef(router, ConnEnd(s, 1), ConnEnd(dst));
    router->processTransaction();
    c03::printRoute(conn, "connector (initial)");
    int bad = c03::checkConn(conn, shapes, Point(210, 190), dst, "connector");

    router->moveShape(s, -10, 20);   // bottom pin now at (200,210), above dst
    router->processTransaction();
    c03::printRoute(conn, "connector (after move)");
    bad += c03::checkConn(conn, shapes, Point(200, 210), dst, "connector");
    return bad ? 1 : 0;
}

int main(void)
{
    setvbuf(stdout, NULL, _IONBF, 0);
    pid_t pid = fork();
    if (pid == 0)
    {
        int rc = child();
        _exit(rc);
    }
    int status = 0;
    waitpid(pid, &status, 0);
    if (WIFSIGNALED(status))
    {
        printf("DEFECT PRESENT: the process was terminated by signal %d\n",
                WTERMSIG(status));
        return 1;
    }
    if (WEXITSTATUS(status) != 0)
    {
        printf("DEFECT PRESENT\n");
        return 1;
    }
    printf("clean\n");
    return 0;
}
