// Observation (c05d/obs1): on the UNMODIFIED code the direction restriction of a free connector endpoint is
// widened PERMANENTLY by fixConnectionPointVisibilityOnOutsideOfVisibilityGraph() once the endpoint has been on
// the first/last scan position of one transaction.  After later transactions in which the endpoint is no longer
// on the outside of the scene the connector still leaves it in a forbidden direction: the same final scene
// gives different routes depending on the history, and the route found after the history is not a path that
// respects the endpoint's directions (its cost is far below the oracle's minimum over the permitted paths).
//
// exit 1 = defect present, exit 0 = absent.
#include "demo_common.h"

static ShapeRef *mkShape(Router *router, const R& r)
{
    Rectangle rr(Point(r.x1, r.y1), Point(r.x2, r.y2));
    return new ShapeRef(router, rr);
}

static bool leavesDownwards(const PolyLine& r)
{
    // libavoid's y axis points down: ConnDirDown = towards larger y.
    for (size_t i = 1; i < r.size(); ++i)
    {
        if (r.ps[i].x != r.ps[0].x || r.ps[i].y != r.ps[0].y)
        {
            return (r.ps[i].x == r.ps[0].x) && (r.ps[i].y > r.ps[0].y);
        }
    }
    return false;
}

int main()
{
    const double pen = 50;
    R a = {40, 40, 80, 80}, b = {50, 0, 70, 10}, c = {130, 30, 150, 50};
    Point s(100, 20), t(20, 20);
    std::vector<R> finalRects; finalRects.push_back(a); finalRects.push_back(b); finalRects.push_back(c);
    double want = oracle(finalRects, s, ConnDirDown, t, ConnDirAll, pen);

    // (1) fresh router on the final scene.
    Router *r1 = new Router(OrthogonalRouting);
    r1->setRoutingParameter(segmentPenalty, pen);
    mkShape(r1, a); mkShape(r1, b); mkShape(r1, c);
    ConnRef *c1 = new ConnRef(r1, ConnEnd(s, ConnDirDown), ConnEnd(t));
    r1->processTransaction();
    bool ax;
    double fresh = routeCost(c1->route(), pen, ax);
    bool freshDown = leavesDownwards(c1->route());
    printf("final scene, fresh router  : cost %g (oracle %g), leaves S downwards: %d\n", fresh, want, freshDown);
    printRoute("route", c1->route());

    // (2) same final scene, but shape b is added in a second transaction.  In the first transaction S is on
    //     the first scan line (nothing lies above it).
    Router *r2 = new Router(OrthogonalRouting);
    r2->setRoutingParameter(segmentPenalty, pen);
    mkShape(r2, a); mkShape(r2, c);
    ConnRef *c2 = new ConnRef(r2, ConnEnd(s, ConnDirDown), ConnEnd(t));
    r2->processTransaction();
    printRoute("after transaction 1 (S on the outside of the scene)", c2->route());
    mkShape(r2, b);
    r2->processTransaction();
    double hist = routeCost(c2->route(), pen, ax);
    bool histDown = leavesDownwards(c2->route());
    printf("final scene, after history : cost %g (oracle %g), leaves S downwards: %d\n", hist, want, histDown);
    printRoute("route", c2->route());

    bool defect = !histDown || fabs(hist - want) > 1e-6 || fabs(hist - fresh) > 1e-6;
    printf("%s\n", defect ? "DEFECT: route depends on the history and ignores the direction restriction of S"
                          : "ok");
    delete r1; delete r2;
    return defect ? 1 : 0;
}
