// c06d obs1 -- UNMODIFIED code: with a crossing penalty, transactions that change
// nothing (null moves) change routes, back and forth, and the routes after a
// history differ from those of a fresh router for the same scene.
// exit 1 = defect present.
#include <cstdio>
#include <cmath>
#include <vector>
#include "libavoid/libavoid.h"
using namespace Avoid;

static double SH[3][4] = {          // x, y, w, h
    {228, 137, 93, 37},             // A
    {300, 103, 128, 45},            // B
    { 22,   2,  65, 53}};           // C
static double CN[3][4] = {
    {269, 133, 142,  79},           // c0
    {130, 157, 334,  36},           // c1
    {259,  38, 340, 220}};          // c2

static bool same(const PolyLine& a, const PolyLine& b)
{
    if (a.size() != b.size()) return false;
    for (size_t i = 0; i < a.size(); ++i)
        if (fabs(a.ps[i].x - b.ps[i].x) > 1e-7 || fabs(a.ps[i].y - b.ps[i].y) > 1e-7) return false;
    return true;
}
static double len(const PolyLine& r)
{
    double l = 0;
    for (size_t i = 1; i < r.size(); ++i) l += euclideanDist(r.ps[i - 1], r.ps[i]);
    return l;
}
static void show(const char *tag, std::vector<ConnRef *>& c)
{
    printf("%s\n", tag);
    for (size_t k = 0; k < c.size(); ++k)
    {
        const PolyLine& r = c[k]->displayRoute();
        printf("   c%zu len %8.3f:", k, len(r));
        for (size_t i = 0; i < r.size(); ++i) printf(" (%g,%g)", r.ps[i].x, r.ps[i].y);
        printf("\n");
    }
}
static Router *build(std::vector<ShapeRef *>& s, std::vector<ConnRef *>& c)
{
    Router *r = new Router(PolyLineRouting);
    r->setRoutingParameter(segmentPenalty, 0);
    r->setRoutingParameter(crossingPenalty, 200);
    for (int i = 0; i < 3; ++i)
    {
        Polygon p = Rectangle(Point(SH[i][0], SH[i][1]), Point(SH[i][0] + SH[i][2], SH[i][1] + SH[i][3]));
        s.push_back(new ShapeRef(r, p));
    }
    for (int i = 0; i < 3; ++i)
        c.push_back(new ConnRef(r, ConnEnd(Point(CN[i][0], CN[i][1])), ConnEnd(Point(CN[i][2], CN[i][3]))));
    r->processTransaction();
    return r;
}

int main(void)
{
    std::vector<ShapeRef *> s, fs;
    std::vector<ConnRef *> c, fc;
    Router *r = build(s, c);
    Router *f = build(fs, fc);          // the fresh router: same scene, no history
    show("T0 (= fresh router)", c);

    int bad = 0;
    const int which[4] = {2, 0, 2, 0};  // null-move C, A, C, A
    for (int t = 0; t < 4; ++t)
    {
        std::vector<PolyLine> before;
        for (size_t k = 0; k < c.size(); ++k) before.push_back(c[k]->displayRoute());
        r->moveShape(s[which[t]], 0, 0);
        r->processTransaction();
        char tag[80];
        snprintf(tag, sizeof tag, "T%d null move of shape %c", t + 1, "ABC"[which[t]]);
        show(tag, c);
        for (size_t k = 0; k < c.size(); ++k)
        {
            if (!same(before[k], c[k]->displayRoute()))
            {
                printf("   DEFECT: c%zu was changed by a transaction that changes nothing\n", k);
                bad++;
            }
            if (fabs(len(c[k]->displayRoute()) - len(fc[k]->displayRoute())) > 1e-6)
            {
                printf("   DEFECT: c%zu differs from the fresh router's route (len %.3f)\n", k, len(fc[k]->displayRoute()));
                bad++;
            }
        }
    }
    delete r;
    delete f;
    printf(bad ? "defect present\n" : "clean\n");
    return bad ? 1 : 0;
}
