// C06 replay: after deleting an obstacle a polyline connector that does not touch it keeps its detour although the
// final scene has a shorter route (what a freshly constructed router computes).  Three defects of
// Router::markPolylineConnectorsNeedingReroutingForDeletedObstacle / ConnRef cooperate (see DESIGN.md):
//   (1) ConnRef::m_route_dist is never computed (calcRouteDist() has no caller) -> the test "estimate < current length"
//       compares with 0 and never marks anything;
//   (2) for a non-axis-parallel edge start/end are rotated in place and stay rotated for the remaining edges;
//   (3) x = (b*c + a*d) / (b + d) is used with signed b, d: wrong when the end points lie on opposite sides of the edge.
// Build:  g++ -std=gnu++11 -I/repo/cola c06_selective_reroute.cpp /repo/cola/libavoid/.libs/libavoid.a
// Pinned tree (a194586): the four fixed scenes print STALE, `random 60000` reports 404 stale routes;
// with (1) only: 70; with (1)+(2): 3; with (1)+(2)+(3) (commits 11480b3, 2a02453, efb35ca): 0 of 180000.
#include "libavoid/libavoid.h"
#include <cstdio>
#include <cmath>
#include <cstdlib>
#include <cstring>
using namespace Avoid;
static double len(const PolyLine& r){ double d=0; for(size_t i=1;i<r.size();++i) d+=hypot(r.ps[i].x-r.ps[i-1].x, r.ps[i].y-r.ps[i-1].y); return d; }
static Polygon mk(int n, const double *xy){ Polygon p(n); for(int k=0;k<n;++k) p.ps[k]=Point(xy[2*k],xy[2*k+1]); return p; }
static Polygon rp(double cx,double cy){ int n=3+rand()%4; double r=15+rand()%35, a0=(rand()%628)/100.0; Polygon p(n); for(int k=0;k<n;++k){double a=a0+2*M_PI*k/n; p.ps[k]=Point(round(cx+r*cos(a)),round(cy+r*sin(a)));} return p; }
static int scene(Polygon A, Polygon B, Point S, Point E, bool print)
{
    Router *router = new Router(PolyLineRouting);
    ShapeRef *a = new ShapeRef(router, A); new ShapeRef(router, B);
    ConnRef *c = new ConnRef(router, ConnEnd(S), ConnEnd(E));
    router->processTransaction();
    double before = len(c->displayRoute());
    router->deleteShape(a);                 // the connector does not touch A
    router->processTransaction();
    double after = len(c->displayRoute());
    Router *fresh = new Router(PolyLineRouting); new ShapeRef(fresh, B);
    ConnRef *c2 = new ConnRef(fresh, ConnEnd(S), ConnEnd(E)); fresh->processTransaction();
    double want = len(c2->displayRoute());
    int stale = after > want + 1e-6;
    if (print) printf("%s before=%.4f after-delete=%.4f fresh-router=%.4f\n", stale ? "STALE" : "ok   ", before, after, want);
    delete router; delete fresh;
    return stale;
}
int main(int argc, char **argv)
{
    if (argc > 2 && !strcmp(argv[1], "random")) {
        int bad = 0, n = atoi(argv[2]); srand(1);
        for (int t = 0; t < n; ++t) {
            Polygon A = rp(70+rand()%20,100), B = rp(150+rand()%20,60+rand()%80);
            Point S(rand()%240, rand()%200), E(rand()%240, rand()%200);
            bad += scene(A, B, S, E, false);
        }
        printf("stale routes: %d of %d\n", bad, n);
        return bad ? 1 : 0;
    }
    int bad = 0;
    { const double a[]={109,139, 42,99, 110,62}, b[]={135,136, 106,92, 139,51, 189,69, 186,122};
      bad += scene(mk(3,a), mk(5,b), Point(75,37), Point(218,193), true); }
    { const double a[]={108,59, 130,119, 70,141, 48,81}, b[]={190,56, 195,105, 150,125, 117,88, 142,45};
      bad += scene(mk(4,a), mk(5,b), Point(220,191), Point(63,11), true); }
    { const double a[]={119,66, 94,148, 36,86}, b[]={161,145, 133,132, 137,101, 167,95, 182,122};
      bad += scene(mk(3,a), mk(5,b), Point(50,23), Point(214,175), true); }
    { const double a[]={123,87, 68,145, 46,68}, b[]={160,120, 134,105, 159,90};      // needs fix (3)
      bad += scene(mk(3,a), mk(3,b), Point(235,180), Point(56,47), true); }
    return bad ? 1 : 0;
}
