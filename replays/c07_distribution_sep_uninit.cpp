// C07/C15/C20: cola::DistributionConstraint never initialises `sep`; the class documentation says an unset
// separation is derived from the outer alignments, but no such code exists: the indeterminate value becomes
// the gap of the generated vpsc constraints.
// build: g++ -std=gnu++11 -g -I/repo/cola c07_distribution_sep_uninit.cpp -L/repo/cola/libcola/.libs -lcola -L/repo/cola/libvpsc/.libs -lvpsc
// run:   valgrind -q --error-exitcode=9 ./a.out
#include "libcola/cola.h"
#include <iostream>
#include <cstdlib>
#include <cstring>
int main() {
    for (int i = 0; i < 64; ++i) { void *p = malloc(128); memset(p, 0x7F, 128); free(p); }
    cola::DistributionConstraint *d = new cola::DistributionConstraint(vpsc::XDIM);
    std::cout << d->toString() << std::endl;   // prints the indeterminate separation
    return 0;
}
