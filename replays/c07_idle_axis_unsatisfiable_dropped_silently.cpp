// Observation 1 (UNMODIFIED code): with ConstrainedFDLayout::run(true,false) an
// unsatisfiable constraint of the y dimension is silently dropped: it is violated
// by the final positions and appears in neither unsatisfiable-constraint list.
// (With run(true,true) the same input is reported correctly.)
// exit 1 = defect present, exit 0 = not present.
#include <cstdio>
#include <cmath>
#include "libcola/cola.h"
using namespace cola;

static int once(bool xAxis, bool yAxis)
{
    vpsc::Rectangles rs;
    rs.push_back(new vpsc::Rectangle(0, 20, 0, 20));
    rs.push_back(new vpsc::Rectangle(100, 120, 50, 70));
    std::vector<Edge> es; es.push_back(Edge(0,1));
    CompoundConstraints ccs;
    SeparationConstraint *s1 = new SeparationConstraint(vpsc::YDIM, 0, 1, 30);   // y1 >= y0 + 30
    SeparationConstraint *s2 = new SeparationConstraint(vpsc::YDIM, 1, 0, 30);   // y0 >= y1 + 30  (contradicts s1)
    ccs.push_back(s1); ccs.push_back(s2);
    UnsatisfiableConstraintInfos ux, uy;
    ConstrainedFDLayout alg(rs, es, 60);
    alg.setConstraints(ccs);
    alg.setUnsatisfiableConstraintInfo(&ux, &uy);
    alg.run(xAxis, yAxis);
    double d = rs[1]->getCentreY() - rs[0]->getCentreY();
    bool r1 = false, r2 = false;
    for (size_t i = 0; i < uy.size(); ++i) { if (uy[i]->cc == s1) r1 = true; if (uy[i]->cc == s2) r2 = true; }
    for (size_t i = 0; i < ux.size(); ++i) { if (ux[i]->cc == s1) r1 = true; if (ux[i]->cc == s2) r2 = true; }
    printf("run(%d,%d): y1-y0=%g, entries in x list=%zu, y list=%zu\n", (int)xAxis, (int)yAxis, d, ux.size(), uy.size());
    int bad = 0;
    if (d < 30 - 1e-4 && !r1) { printf("  s1 (y0+30<=y1) violated but not reported\n"); bad = 1; }
    if (-d < 30 - 1e-4 && !r2) { printf("  s2 (y1+30<=y0) violated but not reported\n"); bad = 1; }
    delete s1; delete s2; delete rs[0]; delete rs[1];
    return bad;
}

int main()
{
    int bad = once(true, true);      // control: reported here
    bad += once(true, false);        // defect: nothing reported
    return bad ? 1 : 0;
}
