// Observation 2 (UNMODIFIED code): ConstrainedFDLayout::makeFeasible() never returns
// when overlap avoidance is on and two overlapping rectangles are tied rigidly to
// each other (equality separations in both axes, or a FixedRelativeConstraint), so
// that their overlap cannot be removed.  NonOverlapConstraints keeps re-offering the
// same unresolvable pair.   exit 1 = defect present (watchdog fired), exit 0 = returned.
#include <cstdio>
#include <cstdlib>
#include <unistd.h>
#include <signal.h>
#include "libcola/cola.h"
using namespace cola;
static void onAlarm(int) { const char m[] = "HANG: makeFeasible() did not return within 10s\n"; if (write(1, m, sizeof(m)-1)) {} _exit(1); }
int main(int argc, char **argv)
{
    signal(SIGALRM, onAlarm); alarm(10);
    int variant = argc > 1 ? atoi(argv[1]) : 0;
    vpsc::Rectangles rs;
    rs.push_back(new vpsc::Rectangle(0, 20, 0, 20));
    rs.push_back(new vpsc::Rectangle(10, 30, 10, 30));   // overlaps rectangle 0
    std::vector<Edge> es;
    CompoundConstraints ccs;
    if (variant == 0) {
        ccs.push_back(new SeparationConstraint(vpsc::XDIM, 0, 1, 10, true));
        ccs.push_back(new SeparationConstraint(vpsc::YDIM, 0, 1, 10, true));
    } else {
        std::vector<unsigned> ids; ids.push_back(0); ids.push_back(1);
        ccs.push_back(new FixedRelativeConstraint(rs, ids, false));
    }
    ConstrainedFDLayout alg(rs, es, 60);
    alg.setConstraints(ccs);
    alg.setAvoidNodeOverlaps(true);
    alg.makeFeasible();
    printf("returned: (%g,%g) (%g,%g)\n", rs[0]->getCentreX(), rs[0]->getCentreY(), rs[1]->getCentreX(), rs[1]->getCentreY());
    return 0;
}
