// Observation on the UNMODIFIED code (property C08).  exit 1 = defect present.
//
// A fixed-size cluster F (RectangularCluster(0), a 300 x 300 rectangle) has
// two children: the ordinary rectangular cluster Q = {1, 2} and the node 3.
// Node 3 is tied to both members of Q by short edges.  Nothing overlaps at
// the start, and all of it fits easily inside the big rectangle.
//
// Expected (property): node 3 is a sibling of Q inside F, so after
// makeFeasible() + run() it must not lie inside the bounding box of Q's
// members {1, 2}.
#include <cstdio>
#include <vector>
#include <algorithm>
#include <libcola/cola.h>
#include <libcola/cluster.h>

using namespace cola;

static double ov(double a0, double a1, double b0, double b1)
{
    return std::min(a1, b1) - std::max(a0, b0);
}

int main()
{
    std::vector<vpsc::Rectangle*> rs;
    rs.push_back(new vpsc::Rectangle(  0, 300,   0, 300));  // 0: F's rectangle
    rs.push_back(new vpsc::Rectangle(100, 130, 100, 130));  // 1: in Q
    rs.push_back(new vpsc::Rectangle(100, 130, 180, 210));  // 2: in Q
    rs.push_back(new vpsc::Rectangle( 40,  70, 140, 170));  // 3: in F, not in Q

    std::vector<Edge> es;
    EdgeLengths eLengths;
    es.push_back(Edge(1, 2));  eLengths.push_back(1);
    es.push_back(Edge(1, 3));  eLengths.push_back(0.5);
    es.push_back(Edge(2, 3));  eLengths.push_back(0.5);

    RootCluster *root = new RootCluster();
    RectangularCluster *F = new RectangularCluster(0);
    RectangularCluster *Q = new RectangularCluster();
    Q->addChildNode(1);
    Q->addChildNode(2);
    F->addChildCluster(Q);
    F->addChildNode(3);
    root->addChildCluster(F);

    ConstrainedFDLayout alg(rs, es, 80, eLengths);
    alg.setAvoidNodeOverlaps(true);
    alg.setClusterHierarchy(root);
    UnsatisfiableConstraintInfos ux, uy;
    alg.setUnsatisfiableConstraintInfo(&ux, &uy);
    alg.makeFeasible();
    alg.run();

    for (unsigned i = 0; i < rs.size(); ++i)
    {
        printf("node %u: x [%8.3f, %8.3f]  y [%8.3f, %8.3f]\n", i,
                rs[i]->getMinX(), rs[i]->getMaxX(),
                rs[i]->getMinY(), rs[i]->getMaxY());
    }
    printf("unsatisfiable constraints reported: %d, %d\n", (int) ux.size(),
            (int) uy.size());
    if (!ux.empty() || !uy.empty())
    {
        return 2;
    }

    const double tol = 1e-3;
    double qx0 = std::min(rs[1]->getMinX(), rs[2]->getMinX());
    double qx1 = std::max(rs[1]->getMaxX(), rs[2]->getMaxX());
    double qy0 = std::min(rs[1]->getMinY(), rs[2]->getMinY());
    double qy1 = std::max(rs[1]->getMaxY(), rs[2]->getMaxY());
    double ox = ov(qx0, qx1, rs[3]->getMinX(), rs[3]->getMaxX());
    double oy = ov(qy0, qy1, rs[3]->getMinY(), rs[3]->getMaxY());
    int bad = 0;
    if (ox > tol && oy > tol)
    {
        printf("VIOLATION: node 3 lies inside the member box of cluster Q "
                "(x [%.3f, %.3f] y [%.3f, %.3f]) by %.3f x %.3f\n",
                qx0, qx1, qy0, qy1, ox, oy);
        ++bad;
    }
    for (unsigned i = 1; i < rs.size(); ++i)
    {
        for (unsigned j = i + 1; j < rs.size(); ++j)
        {
            double x = ov(rs[i]->getMinX(), rs[i]->getMaxX(),
                    rs[j]->getMinX(), rs[j]->getMaxX());
            double y = ov(rs[i]->getMinY(), rs[i]->getMaxY(),
                    rs[j]->getMinY(), rs[j]->getMaxY());
            if (x > tol && y > tol)
            {
                printf("VIOLATION: nodes %u and %u overlap by %.3f x %.3f\n",
                        i, j, x, y);
                ++bad;
            }
        }
    }
    alg.freeAssociatedObjects();
    if (bad)
    {
        printf("FAIL: defect present\n");
        return 1;
    }
    printf("PASS\n");
    return 0;
}
