#include <cstdio>
#include <vector>
#include <libcola/cola.h>
#include <libcola/cluster.h>
using namespace cola;
int main()
{
    std::vector<vpsc::Rectangle*> rs;
    rs.push_back(new vpsc::Rectangle(0, 30, 0, 30));
    rs.push_back(new vpsc::Rectangle(50, 80, 0, 30));
    rs.push_back(new vpsc::Rectangle(100, 130, 0, 30));
    std::vector<Edge> es; es.push_back(Edge(0,1)); es.push_back(Edge(1,2));
    RootCluster *root = new RootCluster();
    RectangularCluster *C = new RectangularCluster();
    C->addChildNode(1);
    root->addChildCluster(C);
    ConstrainedFDLayout alg(rs, es, 60);
    alg.setAvoidNodeOverlaps(true);
    alg.setClusterHierarchy(root);
    alg.makeFeasible();
    alg.run();
    printf("first layout done\n");
    C->addChildNode(0);      // user now moves node 0 into the cluster
    alg.makeFeasible();
    alg.run();
    printf("second layout done\n");
    return 0;
}
