// Observation on the UNMODIFIED code (property C08).
//
// Three sibling rectangular clusters share one node (multiple parents are
// explicitly allowed):
//
//      J = { 0, 1 }     K = { 0, 2 }     L = { 0, 3 }
//
// Node 1 belongs only to J.  It is tied to node 2 by a short edge while nodes
// 0 and 2 are kept far apart, so it is pulled in between 0 and 2, i.e. into
// the bounding box of K's members.  The property says it must stay out of it
// (it does with only the two clusters J and K, see ../A/demo.cpp).
//
// exit 1 = defect present, exit 0 = clean, exit 2 = precondition not met.
#include <cstdio>
#include <cmath>
#include <vector>
#include <algorithm>
#include <libcola/cola.h>
#include <libcola/cluster.h>

using namespace cola;

static double ov(double a0, double a1, double b0, double b1)
{
    return std::min(a1, b1) - std::max(a0, b0);
}

int main()
{
    const double p[8] = { 0, 0,   -45, 10,   90, 90,   0, -120 };
    std::vector<vpsc::Rectangle*> rs;
    for (int i = 0; i < 4; ++i)
    {
        rs.push_back(new vpsc::Rectangle(p[2*i] - 15, p[2*i] + 15,
                    p[2*i+1] - 15, p[2*i+1] + 15));
    }
    std::vector<Edge> es;
    EdgeLengths eLengths;
    es.push_back(Edge(0, 1));  eLengths.push_back(45);
    es.push_back(Edge(0, 2));  eLengths.push_back(127);
    es.push_back(Edge(1, 2));  eLengths.push_back(60);
    es.push_back(Edge(0, 3));  eLengths.push_back(120);

    RootCluster *root = new RootCluster();
    root->setAllowsMultipleParents(true);
    RectangularCluster *J = new RectangularCluster();
    J->addChildNode(0);  J->addChildNode(1);
    RectangularCluster *K = new RectangularCluster();
    K->addChildNode(0);  K->addChildNode(2);
    RectangularCluster *L = new RectangularCluster();
    L->addChildNode(0);  L->addChildNode(3);
    root->addChildCluster(J);
    root->addChildCluster(K);
    root->addChildCluster(L);

    ConstrainedFDLayout alg(rs, es, 1.0, eLengths);
    alg.setAvoidNodeOverlaps(true);
    alg.setClusterHierarchy(root);
    UnsatisfiableConstraintInfos ux, uy;
    alg.setUnsatisfiableConstraintInfo(&ux, &uy);
    alg.makeFeasible();
    alg.run();

    for (size_t i = 0; i < rs.size(); ++i)
    {
        printf("node %d: x [%.3f, %.3f]  y [%.3f, %.3f]\n", (int) i,
                rs[i]->getMinX(), rs[i]->getMaxX(),
                rs[i]->getMinY(), rs[i]->getMaxY());
    }
    if (!ux.empty() || !uy.empty())
    {
        printf("unsatisfiable constraints reported (%d, %d)\n",
                (int) ux.size(), (int) uy.size());
        return 2;
    }

    const double tol = 1e-3;
    int bad = 0;
    // Node k (k = 1..3) belongs only to the cluster {0,k}; it must not lie
    // inside the member box of {0,o} for o != k.
    for (int k = 1; k <= 3; ++k)
    {
        for (int o = 1; o <= 3; ++o)
        {
            if (o == k) continue;
            vpsc::Rectangle box = rs[0]->unionWith(*rs[o]);
            double ox = ov(rs[k]->getMinX(), rs[k]->getMaxX(),
                    box.getMinX(), box.getMaxX());
            double oy = ov(rs[k]->getMinY(), rs[k]->getMaxY(),
                    box.getMinY(), box.getMaxY());
            if (ox > tol && oy > tol)
            {
                printf("VIOLATION: node %d lies inside the member box of "
                        "cluster {0,%d} (overlap %.3f x %.3f)\n",
                        k, o, ox, oy);
                ++bad;
            }
        }
    }
    // And no two nodes overlap.
    for (size_t i = 0; i < rs.size(); ++i)
    {
        for (size_t j = i + 1; j < rs.size(); ++j)
        {
            double ox = ov(rs[i]->getMinX(), rs[i]->getMaxX(),
                    rs[j]->getMinX(), rs[j]->getMaxX());
            double oy = ov(rs[i]->getMinY(), rs[i]->getMaxY(),
                    rs[j]->getMinY(), rs[j]->getMaxY());
            if (ox > tol && oy > tol)
            {
                printf("VIOLATION: nodes %d and %d overlap\n", (int) i,
                        (int) j);
                ++bad;
            }
        }
    }
    if (bad)
    {
        printf("DEFECT PRESENT: %d violation(s)\n", bad);
        return 1;
    }
    printf("clean\n");
    return 0;
}
