// removeoverlaps() gives up with vpsc::UnsatisfiedConstraint on three ordinary-sized rectangles near 1e7 (the solver's
// absolute 1e-10 feasibility bound, see observations/c09d_obs1.cpp) -- and left the PROCESS-WIDE Rectangle::yBorder
// at the caller's value + 1e-3: every later overlap computation in the process then sees rectangles 2e-3 taller.
//
// Build:  g++ -std=gnu++11 -I/repo/cola c09_borders_left_changed_after_exception.cpp -o t /repo/cola/libvpsc/.libs/libvpsc.a
// exit 1 = borders not restored (before 2b... see README), exit 0 = restored (whether or not the call throws).
#include <cstdio>
#include "libvpsc/rectangle.h"
#include "libvpsc/exceptions.h"
using namespace vpsc;

int main()
{
    const double in[3][4] = {
        {10000028.306037067, 10000030.531720273, 10000003.792676384, 10000089.411381632},
        {10000012.291634668, 10000079.443032701, 10000006.782518333, 10000009.829521345},
        {10000018.445775205, 10000116.833364192, 10000008.697355555, 10000012.492949696} };
    Rectangles rs;
    for (int i = 0; i < 3; ++i) {
        rs.push_back(new Rectangle(in[i][0], in[i][1], in[i][2], in[i][3]));
    }
    bool threw = false;
    try {
        removeoverlaps(rs);
    } catch (UnsatisfiedConstraint&) {
        threw = true;
    }
    printf("removeoverlaps %s; xBorder=%g yBorder=%g\n", threw ? "threw UnsatisfiedConstraint" : "returned",
            Rectangle::xBorder, Rectangle::yBorder);
    if (Rectangle::xBorder != 0 || Rectangle::yBorder != 0) {
        printf("DEFECT: the global borders were not restored\n");
        return 1;
    }
    return 0;
}
