// Observation on UNMODIFIED libavoid (property C10): connector ids >= 65536
// alias in the "shared path with a common end point" lookup of the nudging
// code, because orthogonal.cpp's UnsignedPair keeps the two ids in
// `unsigned short` fields.
//
// Scene (public API only).  Two identical, far apart "blocks", each with two
// tall shapes that leave a 100 wide free corridor between their routing boxes:
//
//   block 1 (x offset 0):     connectors A and B.  They START AT THE SAME
//                             POINT, run around the left shape and down the
//                             left side of the corridor (x = 100), and end at
//                             different points.  => shared path with a common
//                             end point.
//   block 2 (x offset 2000):  connectors C and D.  All four end points are
//                             different; both routes run down the left side of
//                             the corridor (x = 2100).  => shared path, NO
//                             common end point.
//
// Router option nudgeSharedPathsWithCommonEndPoint = false: A and B are
// deliberately left on top of each other; C and D must still be nudged apart
// by idealNudgingDistance (8) -- the corridor is 100 wide.
//
// The scene is routed three times, only the connector ids differ:
//   run 1  A=1  B=2  C=3      D=4        control, small ids
//   run 2  A=5  B=6  C=65537  D=65538    control, large ids that alias nothing
//   run 3  A=1  B=2  C=65537  D=65538    (65537,65538) == (1,2) modulo 65536
//
// Exit 0 if C and D are separated by >= 8 in all runs, 1 if some run leaves
// them collinear/too close, 2 if the scene is not the expected one.

#include <cstdio>
#include <cmath>
#include <vector>
#include <algorithm>
#include "libavoid/libavoid.h"

using namespace Avoid;

static const double NUDGE = 8.0;

struct Seg { double pos, lo, hi; };

// Vertical segments of a route with x in [xlo, xhi].
static std::vector<Seg> vertSegs(const PolyLine& r, double xlo, double xhi)
{
    std::vector<Seg> out;
    for (size_t i = 1; i < r.size(); ++i)
    {
        const Point &a = r.ps[i - 1], &b = r.ps[i];
        if (a.x == b.x && a.y != b.y && a.x >= xlo - 1e-9 && a.x <= xhi + 1e-9)
        {
            Seg s = { a.x, std::min(a.y, b.y), std::max(a.y, b.y) };
            out.push_back(s);
        }
    }
    return out;
}

static void printRoute(const char *name, unsigned id, const PolyLine& r)
{
    printf("    %s (id %u):", name, id);
    for (size_t i = 0; i < r.size(); ++i)
    {
        printf(" (%g,%g)", r.ps[i].x, r.ps[i].y);
    }
    printf("\n");
}

// Smallest separation between corridor segments of r1 and r2 that overlap in
// y (DBL_MAX if there are none).
static double minSeparation(const PolyLine& r1, const PolyLine& r2,
        double xlo, double xhi)
{
    std::vector<Seg> s1 = vertSegs(r1, xlo, xhi), s2 = vertSegs(r2, xlo, xhi);
    double best = 1e300;
    for (size_t i = 0; i < s1.size(); ++i)
    {
        for (size_t j = 0; j < s2.size(); ++j)
        {
            double ov = std::min(s1[i].hi, s2[j].hi) -
                    std::max(s1[i].lo, s2[j].lo);
            if (ov > 1e-6)
            {
                best = std::min(best, fabs(s1[i].pos - s2[j].pos));
            }
        }
    }
    return best;
}

static void addBlock(Router *router, double dx, unsigned shapeId)
{
    // Routing boxes: x in [dx-200, dx+100] and [dx+200, dx+500], y in [0,300].
    Rectangle rect1(Point(dx - 190, 10), Point(dx + 90, 290));
    Rectangle rect2(Point(dx + 210, 10), Point(dx + 490, 290));
    new ShapeRef(router, rect1, shapeId);
    new ShapeRef(router, rect2, shapeId + 1);
}

// Returns 0 ok, 1 violation, -1 unexpected scene.
static int run(const char *title, unsigned idA, unsigned idB, unsigned idC,
        unsigned idD)
{
    printf("=== %s: ids A=%u B=%u C=%u D=%u ===\n", title, idA, idB, idC, idD);
    Router *router = new Router(OrthogonalRouting);
    router->setRoutingParameter(shapeBufferDistance, 10);
    router->setRoutingParameter(segmentPenalty, 50);
    router->setRoutingParameter(idealNudgingDistance, NUDGE);
    router->setRoutingOption(nudgeSharedPathsWithCommonEndPoint, false);

    addBlock(router, 0, 1001);
    addBlock(router, 2000, 1003);

    // Block 1: common source point.
    ConnRef *A = new ConnRef(router, ConnEnd(Point(60, -20)),
            ConnEnd(Point(60, 320)), idA);
    ConnRef *B = new ConnRef(router, ConnEnd(Point(60, -20)),
            ConnEnd(Point(30, 340)), idB);
    // Block 2: four different end points.
    ConnRef *C = new ConnRef(router, ConnEnd(Point(2060, -20)),
            ConnEnd(Point(2060, 320)), idC);
    ConnRef *D = new ConnRef(router, ConnEnd(Point(2030, -40)),
            ConnEnd(Point(2030, 340)), idD);

    router->processTransaction();

    printRoute("A", A->id(), A->displayRoute());
    printRoute("B", B->id(), B->displayRoute());
    printRoute("C", C->id(), C->displayRoute());
    printRoute("D", D->id(), D->displayRoute());

    // Sanity: the raw routes use the corridor sides x = 100 / x = 2100.
    PolyLine rawA = A->route().simplify(), rawB = B->route().simplify();
    PolyLine rawC = C->route().simplify(), rawD = D->route().simplify();
    if (rawA.size() != 4 || rawB.size() != 4 || rawC.size() != 4 ||
            rawD.size() != 4 || rawA.ps[1].x != 100 || rawB.ps[1].x != 100 ||
            rawC.ps[1].x != 2100 || rawD.ps[1].x != 2100)
    {
        printf("  UNEXPECTED: raw routes are not the expected scene\n");
        delete router;
        return -1;
    }

    double sepAB = minSeparation(A->displayRoute(), B->displayRoute(), 100, 200);
    double sepCD = minSeparation(C->displayRoute(), D->displayRoute(),
            2100, 2200);
    printf("  A/B (common end point, option off): separation %g "
            "(0 is the documented behaviour)\n", sepAB);
    printf("  C/D (no common end point): separation %g, wanted >= %g\n",
            sepCD, NUDGE);
    int bad = 0;
    const PolyLine &rC = C->displayRoute(), &rD = D->displayRoute();
    if (!(rC.ps.front() == Point(2060, -20)) || !(rC.ps.back() == Point(2060, 320))
        || !(rD.ps.front() == Point(2030, -40)) || !(rD.ps.back() == Point(2030, 340)))
    {
        printf("  an endpoint of C or D was moved\n");
        bad = 1;
    }
    if (sepCD < 1e-6)
    {
        printf("  VIOLATION: C and D do not share an end point but are left "
                "collinear and overlapping in a 100 wide corridor\n");
        bad = 1;
    }
    else if (sepCD < NUDGE - 1e-6)
    {
        printf("  VIOLATION: C and D are closer than the nudging distance\n");
        bad = 1;
    }
    else
    {
        printf("  ok\n");
    }
    delete router;
    return bad;
}

int main(void)
{
    int r1 = run("run 1, small ids", 1, 2, 3, 4);
    int r2 = run("run 2, large ids, no alias", 5, 6, 65537, 65538);
    int r3 = run("run 3, large ids aliasing A/B", 1, 2, 65537, 65538);
    if (r1 < 0 || r2 < 0 || r3 < 0)
    {
        return 2;
    }
    if (r1 || r2 || r3)
    {
        printf("FAIL: connector ids C=65537, D=65538 are truncated to "
                "(1,2) by UnsignedPair and found in the set of pairs with a "
                "common end point (which holds A=1,B=2), so C and D are "
                "tied together with an equality constraint instead of being "
                "nudged apart.\n");
        return 1;
    }
    printf("PASS: C and D nudged apart by >= %g in every run\n", NUDGE);
    return 0;
}
