// C12 observation on UNMODIFIED adaptagrams (libavoid); exit 1 = defect present, 0 = not present.
// Build: g++ -std=gnu++11 -I<adaptagrams>/cola obs3.cpp -o obs3 <adaptagrams>/cola/libavoid/.libs/libavoid.a
// ---- small C12 checker (public API only) -------------------------------------------------------
#include <cstdio>
#include <cstdarg>
#include <cstdlib>
#include <cmath>
#include <map>
#include <set>
#include <vector>
#include <string>
#include "libavoid/libavoid.h"
using namespace Avoid;

typedef std::pair<unsigned, unsigned> Term;   // (shape id, pin class)

static int violations = 0;
static std::vector<std::string> pending;
static void bad(const char *fmt, ...)
{
    char buf[600];
    va_list ap; va_start(ap, fmt);
    vsnprintf(buf, sizeof buf, fmt, ap);
    va_end(ap);
    pending.push_back(buf);
    ++violations;
}
static void flushViolations(void)
{
    for (size_t i = 0; i < pending.size(); ++i) printf("  VIOLATION: %s\n", pending[i].c_str());
    pending.clear();
}
static bool same(const Point& a, const Point& b)
{
    return std::fabs(a.x - b.x) < 1e-6 && std::fabs(a.y - b.y) < 1e-6;
}

struct Client
{
    std::set<JunctionRef *> junctions;      // junctions the client believes to exist
    std::set<ConnRef *> conns;              // connectors the client believes to exist
    std::set<JunctionRef *> justDeleted;    // reported deleted in this transaction
    std::multiset<Term> terminals;          // expected pin attachments of the hyperedge
    std::map<Term, std::vector<Point> > pinPos;   // possible positions of each pin class
    bool checkDirection;                    // also require route[0] at src and route[n-1] at dst

    Client() : checkDirection(false) {}

    void apply(const HyperedgeNewAndDeletedObjectLists& l, const char *when, const char *who)
    {
        printf("%s: %s reported %d new / %d deleted junctions, %d new / %d deleted connectors\n",
                when, who, (int) l.newJunctionList.size(), (int) l.deletedJunctionList.size(),
                (int) l.newConnectorList.size(), (int) l.deletedConnectorList.size());
        junctions.insert(l.newJunctionList.begin(), l.newJunctionList.end());
        conns.insert(l.newConnectorList.begin(), l.newConnectorList.end());
        for (JunctionRefList::const_iterator it = l.deletedJunctionList.begin();
                it != l.deletedJunctionList.end(); ++it)
        {
            junctions.erase(*it);
            justDeleted.insert(*it);
        }
        for (ConnRefList::const_iterator it = l.deletedConnectorList.begin();
                it != l.deletedConnectorList.end(); ++it)
        {
            conns.erase(*it);
        }
    }

    static bool reaches(const Point& p, const std::vector<Point>& cands)
    {
        for (size_t i = 0; i < cands.size(); ++i) if (same(p, cands[i])) return true;
        return false;
    }

    void check(Router *router, const char *when, bool checkLists = true)
    {
        std::set<ConnRef *> liveConns(router->connRefs.begin(), router->connRefs.end());
        std::set<JunctionRef *> liveJunctions;
        for (ObstacleList::iterator it = router->m_obstacles.begin();
                it != router->m_obstacles.end(); ++it)
        {
            JunctionRef *j = dynamic_cast<JunctionRef *> (*it);
            if (j && (justDeleted.count(j) == 0)) liveJunctions.insert(j);
        }
        if (checkLists && liveConns != conns)
            bad("%s: live connectors (%d) differ from what the reported lists imply (%d)",
                    when, (int) liveConns.size(), (int) conns.size());
        if (checkLists && liveJunctions != junctions)
            bad("%s: live junctions (%d) differ from what the reported lists imply (%d)",
                    when, (int) liveJunctions.size(), (int) junctions.size());

        std::map<JunctionRef *, int> index;
        for (std::set<JunctionRef *>::iterator it = liveJunctions.begin();
                it != liveJunctions.end(); ++it)
        {
            int n = (int) index.size();
            index[*it] = n;
        }
        int nodes = (int) index.size();
        std::vector<std::pair<int, int> > edges;
        std::multiset<Term> found;
        for (ConnRefList::iterator it = router->connRefs.begin();
                it != router->connRefs.end(); ++it)
        {
            ConnRef *conn = *it;
            std::pair<ConnEnd, ConnEnd> ends = conn->endpointConnEnds();
            const ConnEnd *end[2] = { &ends.first, &ends.second };
            const PolyLine& route = conn->displayRoute();
            int node[2] = { -1, -1 };
            printf("  connector %u:", conn->id());
            for (int k = 0; k < 2; ++k)
            {
                std::vector<Point> want;
                if (end[k]->junction())
                {
                    JunctionRef *j = end[k]->junction();
                    printf(" junction %u%s", j->id(), k ? "" : " ->");
                    if (justDeleted.count(j))
                        bad("%s: connector %u is attached to junction %u, which was reported as deleted",
                                when, conn->id(), j->id());
                    else if (index.count(j) == 0)
                        bad("%s: connector %u is attached to junction %u, which is not a live junction",
                                when, conn->id(), j->id());
                    else
                    {
                        node[k] = index[j];
                        want.push_back(j->recommendedPosition());
                    }
                }
                else if (end[k]->shape())
                {
                    Term t(end[k]->shape()->id(), end[k]->pinClassId());
                    printf(" shape %u%s", t.first, k ? "" : " ->");
                    found.insert(t);
                    want = pinPos[t];
                }
                else
                {
                    printf(" <nothing>%s", k ? "" : " ->");
                    bad("%s: connector %u has an end that is attached to nothing", when, conn->id());
                }
                if (!want.empty())
                {
                    if (route.size() < 2)
                        bad("%s: connector %u has no proper route (%d point(s))", when, conn->id(), (int) route.size());
                    else if (!reaches(route.ps[0], want) && !reaches(route.ps[route.size() - 1], want))
                        bad("%s: the route of connector %u does not reach (%g,%g), where the object at its %s end is",
                                when, conn->id(), want[0].x, want[0].y, k ? "dst" : "src");
                    else if (checkDirection && !reaches(k ? route.ps[route.size() - 1] : route.ps[0], want))
                        bad("%s: the route of connector %u is reversed: its %s point is (%g,%g) but the object attached at that end is at (%g,%g)",
                                when, conn->id(), k ? "last" : "first",
                                (k ? route.ps[route.size() - 1] : route.ps[0]).x,
                                (k ? route.ps[route.size() - 1] : route.ps[0]).y, want[0].x, want[0].y);
                }
                if (node[k] < 0) node[k] = nodes++;
            }
            printf("   route");
            for (size_t i = 0; i < route.size(); ++i) printf(" (%g,%g)", route.ps[i].x, route.ps[i].y);
            printf("\n");
            edges.push_back(std::make_pair(node[0], node[1]));
        }
        for (std::set<JunctionRef *>::iterator it = liveJunctions.begin();
                it != liveJunctions.end(); ++it)
        {
            JunctionRef *j = *it;
            printf("  junction %u: position (%g,%g), recommended (%g,%g), %d connectors\n",
                    j->id(), j->position().x, j->position().y, j->recommendedPosition().x,
                    j->recommendedPosition().y, (int) j->attachedConnectors().size());
            if (j->attachedConnectors().size() < 2)
                bad("%s: junction %u is a dead end (%d connector)", when, j->id(),
                        (int) j->attachedConnectors().size());
            // All connectors of the junction have to meet at its (recommended) position.
            ConnRefList attached = j->attachedConnectors();
            for (ConnRefList::iterator c = attached.begin(); c != attached.end(); ++c)
            {
                const PolyLine& route = (*c)->displayRoute();
                if (route.size() >= 2 && !same(route.ps[0], j->recommendedPosition()) &&
                        !same(route.ps[route.size() - 1], j->recommendedPosition()))
                    bad("%s: connector %u is attached to junction %u but its route (%g,%g)..(%g,%g) does not end at the junction's recommended position (%g,%g)",
                            when, (*c)->id(), j->id(), route.ps[0].x, route.ps[0].y,
                            route.ps[route.size() - 1].x, route.ps[route.size() - 1].y,
                            j->recommendedPosition().x, j->recommendedPosition().y);
            }
        }
        std::vector<int> parent(nodes);
        for (int i = 0; i < nodes; ++i) parent[i] = i;
        bool cycle = false;
        for (size_t i = 0; i < edges.size(); ++i)
        {
            int a = edges[i].first, b = edges[i].second;
            while (parent[a] != a) a = parent[a];
            while (parent[b] != b) b = parent[b];
            if (a == b) cycle = true; else parent[a] = b;
        }
        int pieces = 0;
        for (int i = 0; i < nodes; ++i) if (parent[i] == i) ++pieces;
        if (cycle) bad("%s: the hyperedge contains a cycle", when);
        if (pieces != 1)
            bad("%s: junctions and connectors form %d separate pieces instead of one tree", when, pieces);
        if (found != terminals)
        {
            std::string s;
            char b[32];
            for (std::multiset<Term>::iterator i = found.begin(); i != found.end(); ++i)
            { snprintf(b, sizeof b, " %u.%u", i->first, i->second); s += b; }
            bad("%s: the terminals of the hyperedge changed: %d expected, found {%s }", when,
                    (int) terminals.size(), s.c_str());
        }
        justDeleted.clear();
        flushViolations();
    }
};

enum Side { LEFT, RIGHT, TOP, BOTTOM };
// Adds a 60x40 shape with one pin of class `cls` in the middle of the given side.
static ShapeRef *addShape(Router *router, Client& client, unsigned id, double cx, double cy,
        Side side, unsigned cls = 1, bool isTerminal = true)
{
    Rectangle rect(Point(cx, cy), 60, 40);
    ShapeRef *shape = new ShapeRef(router, rect, id);
    Point pin(cx, cy);
    switch (side)
    {
        case LEFT: new ShapeConnectionPin(shape, cls, ATTACH_POS_LEFT, ATTACH_POS_CENTRE, true, 0, ConnDirLeft); pin.x -= 30; break;
        case RIGHT: new ShapeConnectionPin(shape, cls, ATTACH_POS_RIGHT, ATTACH_POS_CENTRE, true, 0, ConnDirRight); pin.x += 30; break;
        case TOP: new ShapeConnectionPin(shape, cls, ATTACH_POS_CENTRE, ATTACH_POS_TOP, true, 0, ConnDirUp); pin.y -= 20; break;
        case BOTTOM: new ShapeConnectionPin(shape, cls, ATTACH_POS_CENTRE, ATTACH_POS_BOTTOM, true, 0, ConnDirDown); pin.y += 20; break;
    }
    client.pinPos[Term(id, cls)].push_back(pin);
    if (isTerminal) client.terminals.insert(Term(id, cls));
    return shape;
}
// ---- end of checker ----------------------------------------------------------------------------
// obs3 -- with nudgeOrthogonalSegmentsConnectedToShapes the connectors of a junction that the
//         hyperedge improver has just moved are nudged away from the junction
int main(int argc, char **)
{
    Router *router = new Router(OrthogonalRouting);
    router->setTransactionUse(true);
    router->setRoutingParameter(idealNudgingDistance, 10);
    // Run with any argument to see the same scene without the option (exit 0).
    router->setRoutingOption(nudgeOrthogonalSegmentsConnectedToShapes, argc < 2);
    Client client;
    ShapeRef *s[5];
    s[0] = addShape(router, client, 10, 100, 270, LEFT);
    s[1] = addShape(router, client, 11, 310, 270, BOTTOM);
    s[2] = addShape(router, client, 12, 330, 120, TOP);
    s[3] = addShape(router, client, 13, 70, 700, RIGHT);
    s[4] = addShape(router, client, 14, 710, 720, LEFT);
    JunctionRef *j = new JunctionRef(router, Point(400, 200), 500);
    client.junctions.insert(j);
    for (int i = 0; i < 5; ++i)
        client.conns.insert(new ConnRef(router, ConnEnd(j), ConnEnd(s[i], 1), 600 + i));

    router->processTransaction();
    client.apply(router->newAndDeletedObjectListsFromHyperedgeImprovement(), "transaction 1", "improver");
    client.check(router, "transaction 1");

    printf(violations ? "%d violation(s) of property C12\n" : "OK (%d violations)\n", violations);
    delete router;
    return violations ? 1 : 0;
}
