// Observation 2 (UNMODIFIED code): nudging moves (and centres) the segments
// of a connector that has a user-specified fixed route.
//
//   O : obstacle [150,200]x[100,200]
//   A : ordinary connector (170,60) -> (170,240); goes round the left side of
//       O, middle segment on x=150 (flush against O).
//   F : ConnRef::setFixedRoute( (175,50) (150,50) (150,250) (175,250) ):
//       middle segment on x=150 too, a C-bend.
//   Z : ConnRef::setFixedRoute( (300,0) (450,0) (450,300) (700,300) ):
//       nothing near it at all; its middle segment is a Z-bend.
//
// exit 1 = the display route of a fixed-route connector differs from the
// route the user specified (defect present).

#include "libavoid/libavoid.h"
#include <cstdio>
using namespace Avoid;

static void pr(const char *n, const PolyLine& r)
{
    printf("  %s:", n);
    for (size_t i = 0; i < r.size(); ++i) printf(" (%g,%g)", r.ps[i].x, r.ps[i].y);
    printf("\n");
}
static PolyLine mk(double x0, double y0, double x1, double y1, double x2,
        double y2, double x3, double y3)
{
    PolyLine r;
    r.ps.push_back(Point(x0, y0)); r.ps.push_back(Point(x1, y1));
    r.ps.push_back(Point(x2, y2)); r.ps.push_back(Point(x3, y3));
    return r;
}
static bool same(const PolyLine& a, const PolyLine& b)
{
    if (a.size() != b.size()) return false;
    for (size_t i = 0; i < a.size(); ++i) if (!(a.ps[i] == b.ps[i])) return false;
    return true;
}

int main(void)
{
    Router *router = new Router(OrthogonalRouting);
    router->setRoutingPenalty(segmentPenalty, 50);
    router->setRoutingParameter(idealNudgingDistance, 4);
    Rectangle r1(Point(150, 100), Point(200, 200));
    new ShapeRef(router, r1, 1);
    ConnRef *A = new ConnRef(router, ConnEnd(Point(170, 60)),
            ConnEnd(Point(170, 240)), 10);
    PolyLine fr = mk(175, 50, 150, 50, 150, 250, 175, 250);
    PolyLine zr = mk(300, 0, 450, 0, 450, 300, 700, 300);
    ConnRef *F = new ConnRef(router, 11);
    F->setFixedRoute(fr);
    ConnRef *Z = new ConnRef(router, 12);
    Z->setFixedRoute(zr);
    router->processTransaction();

    printf("display routes after processTransaction():\n");
    pr("A", A->displayRoute());
    pr("F", F->displayRoute());
    pr("Z", Z->displayRoute());
    int bad = 0;
    if (!same(F->displayRoute(), fr))
    {
        printf("fixed route F was changed by nudging (given x=150)\n");
        bad = 1;
    }
    if (!same(Z->displayRoute(), zr))
    {
        printf("fixed route Z was changed by nudging (given x=450)\n");
        bad = 1;
    }
    // The two connectors that share the corridor must still be separated.
    double ax = A->displayRoute().ps[1].x, fx = F->displayRoute().ps[1].x;
    if (ax == fx)
    {
        printf("A and F still overlap on x=%g\n", ax);
        bad |= 2;
    }
    printf(bad ? "RESULT: defect present (%d)\n" : "RESULT: ok\n", bad);
    delete router;
    return bad ? 1 : 0;
}
