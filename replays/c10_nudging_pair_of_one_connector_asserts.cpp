// Observation 7 (unmodified code, outside C11 proper -- nudging): assertion failure in
// ImproveOrthogonalRoutes::nudgeOrthogonalRoutes() (orthogonal.cpp, "UnsignedPair(currSegment->connRef->id(),
// prevSeg->connRef->id())", COLA_ASSERT(ind1 != ind2)) for a single connector with a checkpoint when
//   nudgeOrthogonalSegmentsConnectedToShapes = true  and  nudgeSharedPathsWithCommonEndPoint = false.
// Two overlapping segments of the SAME connector, one of which carries a checkpoint, are neither "shouldAlign" nor
// "canAlign", so the third branch looks the pair (id, id) up in the shared-path set, and UnsignedPair asserts that
// the two ids differ.  Candidate repair: add "(currSegment->connRef != prevSeg->connRef) &&" to that branch.
//
// The scenario runs in a child process; exit 1 = the child aborted (defect present), exit 0 = clean.
#include "libavoid/libavoid.h"
#include <cstdio>
#include <unistd.h>
#include <sys/wait.h>
#include <sys/resource.h>
using namespace Avoid;
static int scenario(void)
{
    Router *router = new Router(OrthogonalRouting);
    router->setTransactionUse(true);
    router->setRoutingOption(nudgeOrthogonalSegmentsConnectedToShapes, true);
    router->setRoutingOption(nudgeSharedPathsWithCommonEndPoint, false);
    ConnRef *c = new ConnRef(router, ConnEnd(Point(0, 0), ConnDirRight), ConnEnd(Point(150, 50), ConnDirDown));
    std::vector<Checkpoint> cps;
    cps.push_back(Checkpoint(Point(300, 100)));
    c->setRoutingCheckpoints(cps);
    router->processTransaction();
    const PolyLine& r = c->displayRoute();
    printf("  route:");
    for (size_t i = 0; i < r.size(); ++i) printf(" (%g,%g)", r.ps[i].x, r.ps[i].y);
    printf("\n");
    fflush(stdout);
    delete router;
    return 0;
}
int main(void)
{
    pid_t pid = fork();
    if (pid == 0)
    {
        struct rlimit core; core.rlim_cur = core.rlim_max = 0; setrlimit(RLIMIT_CORE, &core);
        _exit(scenario());
    }
    int status = 0;
    waitpid(pid, &status, 0);
    if (WIFSIGNALED(status)) { printf("DEFECT PRESENT: child terminated by signal %d\n", WTERMSIG(status)); return 1; }
    printf("ok\n");
    return WEXITSTATUS(status);
}
