// c06d obs3 -- UNMODIFIED code: ConnRef::setRoutingCheckpoints() on an already routed poly-line
// connector is never honoured: nothing is queued (processTransaction() returns false) and the
// connector is not marked for re-routing, so it keeps its old route through later transactions
// until something else happens to re-route it.  (Orthogonal connectors are re-routed in every
// transaction, but only if some other action makes the transaction non-empty.)
// Outside the letter of C06 (checkpoints are not in its quantifier), same family: stale route.
// exit 1 = defect present.
#include <cstdio>
#include <vector>
#include "libavoid/libavoid.h"
using namespace Avoid;
static void pr(const char*t,const PolyLine& r){printf("%-34s:",t);for(size_t i=0;i<r.size();++i)printf(" (%g,%g)",r.ps[i].x,r.ps[i].y);printf("\n");}
static bool visits(const PolyLine& r, Point p){for(size_t i=0;i<r.size();++i) if (r.ps[i]==p) return true; return false;}
int main(){
  Router *r=new Router(PolyLineRouting);
  Polygon p=Rectangle(Point(300,300),Point(350,350)); ShapeRef*s=new ShapeRef(r,p);
  ConnRef*c=new ConnRef(r,ConnEnd(Point(0,0)),ConnEnd(Point(200,0)));
  r->processTransaction(); pr("T1",c->displayRoute());
  std::vector<Checkpoint> cps; cps.push_back(Checkpoint(Point(100,100)));
  c->setRoutingCheckpoints(cps);
  bool did=r->processTransaction(); printf("processTransaction() returned %d\n",(int)did);
  pr("T2 after setRoutingCheckpoints",c->displayRoute());
  r->moveShape(s,10,10); r->processTransaction(); pr("T3 after moving the far shape",c->displayRoute());
  bool bad = !visits(c->displayRoute(), Point(100,100));
  Router *f=new Router(PolyLineRouting);
  Polygon p2=Rectangle(Point(310,310),Point(360,360)); new ShapeRef(f,p2);
  ConnRef*fc=new ConnRef(f,ConnEnd(Point(0,0)),ConnEnd(Point(200,0))); fc->setRoutingCheckpoints(cps);
  f->processTransaction(); pr("fresh router, same scene",fc->displayRoute());
  printf(bad?"defect present: the route ignores the checkpoint\n":"clean\n");
  return bad;}
