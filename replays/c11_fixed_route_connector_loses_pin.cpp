// obs2: UNMODIFIED code.  A connector whose route has been frozen with
// ConnRef::setFixedExistingRoute() keeps ending on its exclusive pin, but
// the next transaction silently releases that pin: the fixed connector's
// ConnEnd no longer reports it (position() falls back to the shape centre)
// and a second connector is given the same exclusive pin although another
// pin of the class is free.
// exit 1 = defect present.
#include <cstdio>
#include <cmath>
#include "libavoid/libavoid.h"
using namespace Avoid;
static bool near(const Point& a, const Point& b) { return fabs(a.x - b.x) < 1e-6 && fabs(a.y - b.y) < 1e-6; }
static void pr(const char *n, ConnRef *c) { const PolyLine& r = c->displayRoute(); printf("  %s:", n); for (size_t i = 0; i < r.size(); ++i) printf(" (%g,%g)", r.ps[i].x, r.ps[i].y); printf("\n"); }
int main(void)
{
    Router *router = new Router(OrthogonalRouting);
    router->setTransactionUse(true);
    router->setRoutingParameter(shapeBufferDistance, 4);
    Rectangle rr(Point(100, 100), Point(200, 200)); ShapeRef *s = new ShapeRef(router, rr);
    ShapeConnectionPin *pR = new ShapeConnectionPin(s, 1, ATTACH_POS_RIGHT, 0.3, true, 0, ConnDirRight);
    ShapeConnectionPin *pL = new ShapeConnectionPin(s, 1, ATTACH_POS_LEFT, 0.3, true, 0, ConnDirLeft);
    (void) pL;
    ConnRef *a = new ConnRef(router, ConnEnd(s, 1), ConnEnd(Point(400, 130)));
    a->setRoutingType(ConnType_Orthogonal);
    router->processTransaction();
    pr("a", a);
    a->setFixedExistingRoute();                       // freeze it
    ConnRef *b = new ConnRef(router, ConnEnd(s, 1), ConnEnd(Point(400, 170)));
    b->setRoutingType(ConnType_Orthogonal);
    router->processTransaction();
    pr("a (fixed)", a); pr("b", b);
    int defect = 0;
    Point aStart = a->displayRoute().ps[0], bStart = b->displayRoute().ps[0];
    if (near(aStart, bStart) && pR->isExclusive())
    {
        printf("DEFECT: a and b both end on the exclusive pin at (%g,%g)\n", aStart.x, aStart.y);
        defect = 1;
    }
    Point rep = a->endpointConnEnds().first.position();
    if (!near(rep, aStart))
    {
        printf("DEFECT: a's ConnEnd::position() is (%g,%g), its route starts at (%g,%g)\n", rep.x, rep.y, aStart.x, aStart.y);
        defect = 1;
    }
    delete router;
    printf(defect ? "DEFECT PRESENT\n" : "no defect\n");
    return defect;
}
