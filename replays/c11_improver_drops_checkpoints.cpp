// Observation 3 (unmodified code, default options): the hyperedge improver drops the checkpoints of connectors
// that are attached to a junction.
//
// With the default option improveHyperedgeRoutesMovingJunctions = true the HyperedgeImprover rebuilds the routes of
// all connectors attached to junctions from its own tree; hyperedgeimprover.cpp never looks at
// ConnRef::routingCheckpoints(), so the segments through a checkpoint are shifted/merged like any other.
// With the option switched off the same scene is routed through the checkpoint.
//
// exit 1 = defect present, exit 0 = clean.
#include "libavoid/libavoid.h"
#include <cstdio>
#include <cmath>
using namespace Avoid;
static bool onSegment(const Point& a, const Point& b, const Point& p)
{
    double cross = (b.x - a.x) * (p.y - a.y) - (b.y - a.y) * (p.x - a.x);
    if (fabs(cross) > 1e-6) return false;
    double dot = (p.x - a.x) * (b.x - a.x) + (p.y - a.y) * (b.y - a.y);
    double len2 = (b.x - a.x) * (b.x - a.x) + (b.y - a.y) * (b.y - a.y);
    return (dot >= -1e-9) && (dot <= len2 + 1e-9);
}
static int run(bool improver, bool fixedJunction)
{
    Router *router = new Router(OrthogonalRouting);
    router->setTransactionUse(true);
    router->setRoutingOption(improveHyperedgeRoutesMovingJunctions, improver);
    Rectangle r(Point(700, 540), Point(800, 600));
    ShapeRef *s = new ShapeRef(router, r);
    new ShapeConnectionPin(s, 2, ATTACH_POS_LEFT, 0.6, true, 0, ConnDirLeft);
    JunctionRef *j = new JunctionRef(router, Point(445, 448));
    j->setPositionFixed(fixedJunction);
    ConnRef *c = new ConnRef(router, ConnEnd(j), ConnEnd(s, 2));
    ConnRef *c2 = new ConnRef(router, ConnEnd(j), ConnEnd(Point(300, 300)));
    ConnRef *c3 = new ConnRef(router, ConnEnd(j), ConnEnd(Point(300, 600)));
    (void) c2; (void) c3;
    Point cp(662, 444);
    std::vector<Checkpoint> cps;
    cps.push_back(Checkpoint(cp));
    c->setRoutingCheckpoints(cps);
    router->processTransaction();
    const PolyLine& rt = c->displayRoute();
    printf("  improver %-3s junction %-5s route:", improver ? "on" : "off", fixedJunction ? "fixed" : "free");
    bool visited = false;
    for (size_t i = 0; i < rt.size(); ++i)
    {
        printf(" (%g,%g)", rt.ps[i].x, rt.ps[i].y);
        if (i > 0 && onSegment(rt.ps[i - 1], rt.ps[i], cp)) visited = true;
    }
    printf(visited ? "\n" : "   <-- checkpoint (662,444) not visited\n");
    delete router;
    return visited ? 0 : 1;
}
int main(void)
{
    int off = run(false, true) | run(false, false);
    int on = run(true, true) | run(true, false);
    if (off) printf("unexpected: checkpoint missed even with the improver off\n");
    printf(on ? "DEFECT PRESENT\n" : "ok\n");
    return (on || off) ? 1 : 0;
}
