// obs1: UNMODIFIED code.  With Router::setTransactionUse(false) (every API call
// is processed immediately -- the documented alternative to transactions),
// moving a shape or junction that has a pin-/junction-attached connector
// recurses without end and crashes (stack overflow), so "when the shape is
// moved the pin positions and the attached routes follow" cannot hold.
//
// The scenario runs in a child process; exit 1 = defect present.
#include <cstdio>
#include <cmath>
#include <unistd.h>
#include <sys/wait.h>
#include "libavoid/libavoid.h"
using namespace Avoid;

static bool near(const Point& a, const Point& b) { return fabs(a.x - b.x) < 1e-6 && fabs(a.y - b.y) < 1e-6; }

static int scenario(int which)
{
    Router *router = new Router(OrthogonalRouting);
    router->setRoutingParameter(shapeBufferDistance, 4);
    router->setTransactionUse(false);
    Rectangle r1(Point(100, 100), Point(200, 200)); ShapeRef *s1 = new ShapeRef(router, r1);
    Rectangle r2(Point(400, 100), Point(500, 200)); ShapeRef *s2 = new ShapeRef(router, r2);
    ShapeConnectionPin *p1 = new ShapeConnectionPin(s1, 1, ATTACH_POS_RIGHT, 0.3, true, 0, ConnDirRight);
    ShapeConnectionPin *p2 = new ShapeConnectionPin(s2, 1, ATTACH_POS_LEFT, 0.3, true, 0, ConnDirLeft);
    JunctionRef *j = new JunctionRef(router, Point(300, 400));
    ConnRef *a = new ConnRef(router, ConnEnd(s1, 1), ConnEnd(s2, 1));
    a->setRoutingType(ConnType_Orthogonal);
    ConnRef *b = new ConnRef(router, ConnEnd(j), ConnEnd(Point(600, 400)));
    b->setRoutingType(ConnType_Orthogonal);
    router->processTransaction();
    int bad = 0;
    if (which == 0)
    {
        router->moveShape(s1, 0, 50);          // processed immediately
        const PolyLine& r = a->displayRoute();
        printf("  after moveShape: a = "); for (size_t i = 0; i < r.size(); ++i) printf("(%g,%g) ", r.ps[i].x, r.ps[i].y); printf("\n");
        if (!near(p1->position(), Point(200, 180))) { printf("  pin did not follow\n"); bad = 1; }
        if (r.size() < 2 || !near(r.ps[0], p1->position()) || !near(r.ps[r.size() - 1], p2->position())) { printf("  route did not follow\n"); bad = 1; }
    }
    else
    {
        router->moveJunction(j, Point(300, 450));
        const PolyLine& r = b->displayRoute();
        printf("  after moveJunction: b = "); for (size_t i = 0; i < r.size(); ++i) printf("(%g,%g) ", r.ps[i].x, r.ps[i].y); printf("\n");
        if (r.size() < 2 || !near(r.ps[0], j->position()) || !near(j->position(), Point(300, 450))) { printf("  route did not follow\n"); bad = 1; }
    }
    delete router;
    fflush(stdout);
    return bad;
}

int main(void)
{
    int defect = 0;
    for (int which = 0; which < 2; ++which)
    {
        printf("%s with setTransactionUse(false):\n", which == 0 ? "moveShape" : "moveJunction");
        fflush(stdout);
        pid_t pid = fork();
        if (pid == 0) { _exit(scenario(which)); }
        int status = 0; waitpid(pid, &status, 0);
        if (WIFSIGNALED(status)) { printf("  child killed by signal %d (endless recursion processTransaction -> processActions -> moveAttachedConns -> modifyConnector -> processTransaction)\n", WTERMSIG(status)); defect = 1; }
        else if (WEXITSTATUS(status) != 0) { defect = 1; }
        else printf("  ok\n");
    }
    printf(defect ? "DEFECT PRESENT\n" : "no defect\n");
    return defect;
}
