// Observation 1 (unmodified code): re-attaching a connector end away from a junction is silently lost when the
// junction is moved in the same transaction.
//
//   conn->setSourceEndpoint(ConnEnd(shape2, PIN));   // user: detach from junction j, attach to shape2's pin
//   router->moveJunction(j, newPos);                 // same transaction
//   router->processTransaction();
//
// Expected: the connector's source is attached to shape2's pin and its route starts at that pin.
// Observed: the connector is still attached to the junction and its route starts at the junction's new position.
// (The same with a shape instead of a junction works, and the order of the two calls does not matter.)
//
// exit 1 = defect present, exit 0 = clean.
#include "libavoid/libavoid.h"
#include <cstdio>
#include <cmath>
using namespace Avoid;

static bool same(const Point& a, const Point& b) { return fabs(a.x - b.x) < 1e-9 && fabs(a.y - b.y) < 1e-9; }
static void show(const char *n, ConnRef *c)
{
    const PolyLine& r = c->displayRoute();
    printf("  %s:", n);
    for (size_t i = 0; i < r.size(); ++i) printf(" (%g,%g)", r.ps[i].x, r.ps[i].y);
    printf("\n");
}

static int run(bool moveFirst)
{
    Router *router = new Router(OrthogonalRouting);
    router->setTransactionUse(true);
    router->setRoutingOption(improveHyperedgeRoutesMovingJunctions, false);
    router->setRoutingParameter(shapeBufferDistance, 4);

    Rectangle r1(Point(300, 100), Point(360, 160));
    ShapeRef *s1 = new ShapeRef(router, r1);
    new ShapeConnectionPin(s1, 1, ATTACH_POS_LEFT, 0.5, true, 0, ConnDirLeft);
    Rectangle r2(Point(300, 300), Point(360, 360));
    ShapeRef *s2 = new ShapeRef(router, r2);
    ShapeConnectionPin *pin2 = new ShapeConnectionPin(s2, 1, ATTACH_POS_LEFT, 0.5, true, 0, ConnDirLeft);
    JunctionRef *j = new JunctionRef(router, Point(100, 130));

    ConnRef *c = new ConnRef(router, ConnEnd(j), ConnEnd(s1, 1));
    ConnRef *c2 = new ConnRef(router, ConnEnd(j), ConnEnd(Point(50, 50)));
    router->processTransaction();
    printf(" initial\n"); show("c ", c); show("c2", c2);

    if (moveFirst) router->moveJunction(j, Point(100, 200));
    c->setSourceEndpoint(ConnEnd(s2, 1));
    if (!moveFirst) router->moveJunction(j, Point(100, 200));
    router->processTransaction();
    printf(" after re-attaching c's source to shape 2's pin and moving the junction (%s)\n",
            moveFirst ? "move queued first" : "re-attachment queued first");
    show("c ", c); show("c2", c2);

    int bad = 0;
    std::pair<ConnEnd, ConnEnd> ends = c->endpointConnEnds();
    if (ends.first.shape() != s2 || ends.first.junction() != nullptr)
    {
        printf("  DEFECT: c's source ConnEnd is %s, not shape 2\n", ends.first.junction() ? "still the junction" : "something else");
        bad = 1;
    }
    if (!same(c->displayRoute().ps[0], pin2->position()))
    {
        printf("  DEFECT: c starts at (%g,%g), shape 2's pin is at (%g,%g)\n", c->displayRoute().ps[0].x,
                c->displayRoute().ps[0].y, pin2->position().x, pin2->position().y);
        bad = 1;
    }
    delete router;
    return bad;
}

int main(void)
{
    int bad = run(false);
    bad |= run(true);
    printf(bad ? "DEFECT PRESENT\n" : "ok\n");
    return bad;
}
