// obs3: UNMODIFIED code.  A connector whose two ends are attached to the same
// pin class of the same shape (a self-loop), with two free exclusive pins of
// that class: both ends are given the SAME exclusive pin (the pin then has two
// users) and the route degenerates to a single point.
// exit 1 = defect present.
#include <cstdio>
#include <cmath>
#include "libavoid/libavoid.h"
using namespace Avoid;
static bool near(const Point& a, const Point& b) { return fabs(a.x - b.x) < 1e-6 && fabs(a.y - b.y) < 1e-6; }
int main(void)
{
    Router *router = new Router(OrthogonalRouting);
    router->setTransactionUse(true);
    router->setRoutingParameter(shapeBufferDistance, 4);
    Rectangle rr(Point(100, 100), Point(200, 200)); ShapeRef *s = new ShapeRef(router, rr);
    ShapeConnectionPin *p1 = new ShapeConnectionPin(s, 1, ATTACH_POS_RIGHT, 0.3, true, 0, ConnDirRight);
    ShapeConnectionPin *p2 = new ShapeConnectionPin(s, 1, ATTACH_POS_LEFT, 0.3, true, 0, ConnDirLeft);
    ConnRef *a = new ConnRef(router, ConnEnd(s, 1), ConnEnd(s, 1));
    a->setRoutingType(ConnType_Orthogonal);
    router->processTransaction();
    const PolyLine& r = a->displayRoute();
    printf("  a:"); for (size_t i = 0; i < r.size(); ++i) printf(" (%g,%g)", r.ps[i].x, r.ps[i].y); printf("\n");
    std::pair<ConnEnd, ConnEnd> ce = a->endpointConnEnds();
    printf("  src ConnEnd at (%g,%g), dst ConnEnd at (%g,%g); pins at (%g,%g) and (%g,%g), exclusive %d %d\n",
            ce.first.position().x, ce.first.position().y, ce.second.position().x, ce.second.position().y,
            p1->position().x, p1->position().y, p2->position().x, p2->position().y, (int) p1->isExclusive(), (int) p2->isExclusive());
    int defect = 0;
    if (near(ce.first.position(), ce.second.position())) { printf("DEFECT: both ends use the same exclusive pin\n"); defect = 1; }
    if (r.size() < 2) { printf("DEFECT: route has %d point(s)\n", (int) r.size()); defect = 1; }
    delete router;
    printf(defect ? "DEFECT PRESENT\n" : "no defect\n");
    return defect;
}
