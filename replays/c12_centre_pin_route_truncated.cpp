// Build: g++ -std=gnu++11 -I/repo/cola this.cpp /repo/cola/libavoid/.libs/libavoid.a ; at 5f0c95c two of the three rerouted connectors print ROUTE DOES NOT REACH BOTH ENDS (route ends at (120,100) / (280,100), the shape borders); clean after the fix.
// C12 probe: junction-registered hyperedge whose terminals are centre pins: does every rerouted connector's route reach its terminal?
#include "libavoid/libavoid.h"
#include <cstdio>
#include <cmath>
using namespace Avoid;
int main()
{
    Router *router = new Router(OrthogonalRouting);
    const double cx[3] = {100, 300, 200}, cy[3] = {100, 100, 300};
    ShapeRef *sh[3];
    for (int i = 0; i < 3; ++i) {
        Polygon r(4); r.ps[0]=Point(cx[i]-20,cy[i]-15); r.ps[1]=Point(cx[i]+20,cy[i]-15); r.ps[2]=Point(cx[i]+20,cy[i]+15); r.ps[3]=Point(cx[i]-20,cy[i]+15);
        sh[i] = new ShapeRef(router, r);
        new ShapeConnectionPin(sh[i], 1, ATTACH_POS_CENTRE, ATTACH_POS_CENTRE, true, 0.0, ConnDirNone);
    }
    JunctionRef *j = new JunctionRef(router, Point(180, 180));
    ConnRef *c[3];
    for (int i = 0; i < 3; ++i) { c[i] = new ConnRef(router, ConnEnd(sh[i], 1), ConnEnd(j)); }
    router->processTransaction();
    size_t idx = router->hyperedgeRerouter()->registerHyperedgeForRerouting(j);
    router->processTransaction();
    HyperedgeNewAndDeletedObjectLists res = router->hyperedgeRerouter()->newAndDeletedObjectLists(idx);
    int bad = 0;
    for (ConnRefList::iterator it = res.newConnectorList.begin(); it != res.newConnectorList.end(); ++it) {
        ConnRef *cn = *it;
        const PolyLine& route = cn->displayRoute();
        std::pair<ConnEnd, ConnEnd> ends = cn->endpointConnEnds();
        Point a = ends.first.position(), b = ends.second.position();
        printf("connector %u: ends (%g,%g) (%g,%g); route", cn->id(), a.x, a.y, b.x, b.y);
        for (size_t k = 0; k < route.size(); ++k) printf(" (%g,%g)", route.ps[k].x, route.ps[k].y);
        bool okA = false, okB = false;
        if (route.size()) {
            Point f = route.ps[0], l = route.ps[route.size()-1];
            okA = (f == a) || (l == a); okB = (f == b) || (l == b);
        }
        printf("  %s\n", (okA && okB) ? "ok" : "ROUTE DOES NOT REACH BOTH ENDS");
        if (!(okA && okB)) bad++;
    }
    delete router;
    return bad ? 1 : 0;
}
