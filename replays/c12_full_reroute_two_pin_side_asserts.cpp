// ---- small C12 checker (public API only) -------------------------------------------------------
// A Client object plays the part of an application: it keeps its own idea of which junctions and
// connectors exist, updated ONLY from the lists of new and deleted objects that the router reports,
// and after every transaction compares that with the router and checks the hyperedge:
//   * live junctions / connectors == what the reported lists imply,
//   * every connector end is attached to a live junction or to a shape pin,
//   * junctions + connectors form ONE tree whose leaves are exactly the expected pin terminals,
//   * every route runs between the objects at its ends; the connectors of a junction meet at the
//     junction (at its position or at the position the router recommends for it).
#include <cstdio>
#include <cstdarg>
#include <cstdlib>
#include <cmath>
#include <map>
#include <set>
#include <vector>
#include <string>
#include "libavoid/libavoid.h"
using namespace Avoid;

typedef std::pair<unsigned, unsigned> Term;   // (shape id, pin class)

static int violations = 0;
static std::vector<std::string> pending;
static void bad(const char *fmt, ...)
{
    char buf[600];
    va_list ap; va_start(ap, fmt);
    vsnprintf(buf, sizeof buf, fmt, ap);
    va_end(ap);
    pending.push_back(buf);
    ++violations;
}
static void flushViolations(void)
{
    for (size_t i = 0; i < pending.size(); ++i) printf("  VIOLATION: %s\n", pending[i].c_str());
    pending.clear();
}
static bool same(const Point& a, const Point& b)
{
    return std::fabs(a.x - b.x) < 1e-6 && std::fabs(a.y - b.y) < 1e-6;
}

struct Client
{
    std::set<JunctionRef *> junctions;      // junctions the client believes to exist
    std::set<ConnRef *> conns;              // connectors the client believes to exist
    std::set<JunctionRef *> justDeleted;    // reported deleted in this transaction
    std::multiset<Term> terminals;          // expected pin attachments of the hyperedge
    std::map<Term, Point> pinPos;           // position of each terminal pin

    void apply(const HyperedgeNewAndDeletedObjectLists& l, const char *when, const char *who)
    {
        printf("%s: %s reported %d new / %d deleted junctions, %d new / %d deleted connectors\n",
                when, who, (int) l.newJunctionList.size(), (int) l.deletedJunctionList.size(),
                (int) l.newConnectorList.size(), (int) l.deletedConnectorList.size());
        junctions.insert(l.newJunctionList.begin(), l.newJunctionList.end());
        conns.insert(l.newConnectorList.begin(), l.newConnectorList.end());
        for (JunctionRefList::const_iterator it = l.deletedJunctionList.begin();
                it != l.deletedJunctionList.end(); ++it)
        {
            junctions.erase(*it);
            justDeleted.insert(*it);
        }
        for (ConnRefList::const_iterator it = l.deletedConnectorList.begin();
                it != l.deletedConnectorList.end(); ++it)
        {
            conns.erase(*it);
        }
    }

    // The application follows the router's advice and moves every junction to the position
    // recommended for it (queued for the next transaction).
    void followRecommendations(Router *router)
    {
        for (std::set<JunctionRef *>::iterator it = junctions.begin(); it != junctions.end(); ++it)
        {
            if (!same((*it)->position(), (*it)->recommendedPosition()))
            {
                router->moveJunction(*it, (*it)->recommendedPosition());
            }
        }
    }

    void check(Router *router, const char *when)
    {
        // A junction that the router has just reported as deleted may stay in its obstacle list
        // until the next transaction; from then on it must be gone.
        std::set<ConnRef *> liveConns(router->connRefs.begin(), router->connRefs.end());
        std::set<JunctionRef *> liveJunctions;
        for (ObstacleList::iterator it = router->m_obstacles.begin();
                it != router->m_obstacles.end(); ++it)
        {
            JunctionRef *j = dynamic_cast<JunctionRef *> (*it);
            if (j && (justDeleted.count(j) == 0)) liveJunctions.insert(j);
        }
        for (std::set<ConnRef *>::iterator it = liveConns.begin(); it != liveConns.end(); ++it)
            if (conns.count(*it) == 0)
                bad("%s: connector %u is live, but according to the reported lists it should not exist", when, (*it)->id());
        for (std::set<ConnRef *>::iterator it = conns.begin(); it != conns.end(); ++it)
            if (liveConns.count(*it) == 0)
                bad("%s: a connector that should exist according to the reported lists is not live", when);
        for (std::set<JunctionRef *>::iterator it = liveJunctions.begin(); it != liveJunctions.end(); ++it)
            if (junctions.count(*it) == 0)
                bad("%s: junction %u is live in the router, but according to the reported lists it should not exist (it was reported deleted or never reported new)", when, (*it)->id());
        for (std::set<JunctionRef *>::iterator it = junctions.begin(); it != junctions.end(); ++it)
            if (liveJunctions.count(*it) == 0)
                bad("%s: a junction that should exist according to the reported lists is not live", when);

        std::map<JunctionRef *, int> index;
        for (std::set<JunctionRef *>::iterator it = liveJunctions.begin();
                it != liveJunctions.end(); ++it)
        {
            int n = (int) index.size();
            index[*it] = n;
        }
        int nodes = (int) index.size();
        std::vector<std::pair<int, int> > edges;
        std::multiset<Term> found;
        for (ConnRefList::iterator it = router->connRefs.begin();
                it != router->connRefs.end(); ++it)
        {
            ConnRef *conn = *it;
            std::pair<ConnEnd, ConnEnd> ends = conn->endpointConnEnds();
            const ConnEnd *end[2] = { &ends.first, &ends.second };
            const PolyLine& route = conn->displayRoute();
            int node[2] = { -1, -1 };
            printf("  connector %u:", conn->id());
            for (int k = 0; k < 2; ++k)
            {
                std::vector<Point> want;
                if (end[k]->junction())
                {
                    JunctionRef *j = end[k]->junction();
                    printf(" junction %u%s", j->id(), k ? "" : " ->");
                    if (justDeleted.count(j))
                        bad("%s: connector %u is attached to junction %u, which was reported as deleted",
                                when, conn->id(), j->id());
                    else if (index.count(j) == 0)
                        bad("%s: connector %u is attached to junction %u, which is not a live junction",
                                when, conn->id(), j->id());
                    else
                    {
                        node[k] = index[j];
                        want.push_back(j->recommendedPosition());
                        want.push_back(j->position());
                    }
                }
                else if (end[k]->shape())
                {
                    Term t(end[k]->shape()->id(), end[k]->pinClassId());
                    printf(" shape %u%s", t.first, k ? "" : " ->");
                    found.insert(t);
                    want.push_back(pinPos[t]);
                }
                else
                {
                    printf(" <nothing>%s", k ? "" : " ->");
                    bad("%s: connector %u has an end that is attached to nothing", when, conn->id());
                }
                if (!want.empty())
                {
                    bool reached = false;
                    for (size_t w = 0; w < want.size() && route.size() >= 2; ++w)
                        reached |= same(route.ps[0], want[w]) || same(route.ps[route.size() - 1], want[w]);
                    if (route.size() < 2)
                        bad("%s: connector %u has no proper route (%d point(s))", when, conn->id(), (int) route.size());
                    else if (!reached)
                        bad("%s: the route of connector %u, (%g,%g)..(%g,%g), does not reach (%g,%g), where the object at its %s end is",
                                when, conn->id(), route.ps[0].x, route.ps[0].y, route.ps[route.size() - 1].x,
                                route.ps[route.size() - 1].y, want[0].x, want[0].y, k ? "dst" : "src");
                }
                if (node[k] < 0) node[k] = nodes++;
            }
            printf("   route");
            for (size_t i = 0; i < route.size(); ++i) printf(" (%g,%g)", route.ps[i].x, route.ps[i].y);
            printf("\n");
            edges.push_back(std::make_pair(node[0], node[1]));
        }
        for (std::set<JunctionRef *>::iterator it = liveJunctions.begin();
                it != liveJunctions.end(); ++it)
        {
            JunctionRef *j = *it;
            ConnRefList attached = j->attachedConnectors();
            printf("  junction %u%s: position (%g,%g), recommended (%g,%g), %d connectors\n",
                    j->id(), j->positionFixed() ? " [fixed]" : "", j->position().x, j->position().y,
                    j->recommendedPosition().x, j->recommendedPosition().y, (int) attached.size());
            if (attached.size() < 2)
                bad("%s: live junction %u has %d attached connector(s): it is not part of the hyperedge tree",
                        when, j->id(), (int) attached.size());
            // All connectors of the junction have to meet in one point: the position the router
            // recommends for the junction, or its current position.
            Point cand[2] = { j->recommendedPosition(), j->position() };
            bool meet = false;
            for (int k = 0; k < 2 && !meet; ++k)
            {
                bool all = true;
                for (ConnRefList::iterator c = attached.begin(); c != attached.end(); ++c)
                {
                    const PolyLine& route = (*c)->displayRoute();
                    if (route.size() < 2 || (!same(route.ps[0], cand[k]) &&
                            !same(route.ps[route.size() - 1], cand[k]))) all = false;
                }
                meet = all;
            }
            if (!meet && !attached.empty())
                bad("%s: the connectors attached to junction %u do not meet at the junction (neither at its position nor at its recommended position)",
                        when, j->id());
        }
        std::vector<int> parent(nodes);
        for (int i = 0; i < nodes; ++i) parent[i] = i;
        bool cycle = false;
        for (size_t i = 0; i < edges.size(); ++i)
        {
            int a = edges[i].first, b = edges[i].second;
            while (parent[a] != a) a = parent[a];
            while (parent[b] != b) b = parent[b];
            if (a == b) cycle = true; else parent[a] = b;
        }
        int pieces = 0;
        for (int i = 0; i < nodes; ++i) if (parent[i] == i) ++pieces;
        if (cycle) bad("%s: the hyperedge contains a cycle", when);
        if (pieces != 1)
            bad("%s: junctions and connectors form %d separate pieces instead of one tree", when, pieces);
        if (found != terminals)
        {
            std::string s;
            char b[32];
            for (std::multiset<Term>::iterator i = found.begin(); i != found.end(); ++i)
            { snprintf(b, sizeof b, " %u.%u", i->first, i->second); s += b; }
            bad("%s: the terminals of the hyperedge changed: %d expected, found {%s }", when,
                    (int) terminals.size(), s.c_str());
        }
        justDeleted.clear();
        flushViolations();
    }
};

enum Side { LEFT, RIGHT, TOP, BOTTOM };
// Adds a 60x40 shape with one pin of class 1 in the middle of the given side.
static ShapeRef *addShape(Router *router, Client& client, unsigned id, double cx, double cy, Side side)
{
    Rectangle rect(Point(cx, cy), 60, 40);
    ShapeRef *shape = new ShapeRef(router, rect, id);
    Point pin(cx, cy);
    switch (side)
    {
        case LEFT: new ShapeConnectionPin(shape, 1, ATTACH_POS_LEFT, ATTACH_POS_CENTRE, true, 0, ConnDirLeft); pin.x -= 30; break;
        case RIGHT: new ShapeConnectionPin(shape, 1, ATTACH_POS_RIGHT, ATTACH_POS_CENTRE, true, 0, ConnDirRight); pin.x += 30; break;
        case TOP: new ShapeConnectionPin(shape, 1, ATTACH_POS_CENTRE, ATTACH_POS_TOP, true, 0, ConnDirUp); pin.y -= 20; break;
        case BOTTOM: new ShapeConnectionPin(shape, 1, ATTACH_POS_CENTRE, ATTACH_POS_BOTTOM, true, 0, ConnDirDown); pin.y += 20; break;
    }
    client.pinPos[Term(id, 1)] = pin;
    client.terminals.insert(Term(id, 1));
    return shape;
}
// ---- end of checker ----------------------------------------------------------------------------

// C12 / c12d / change A -- demonstration.
//
// One hyperedge: junction 500, whose position the user has FIXED (JunctionRef::setPositionFixed),
// joins the pins of four shapes.  Transaction 1 routes it.  Then the application asks for the whole
// hyperedge to be rerouted (HyperedgeRerouter::registerHyperedgeForRerouting(junction)) and, after
// transaction 2, updates its own list of objects from newAndDeletedObjectLists(0).  Transaction 3 is
// an ordinary follow-up (junctions moved to their recommended positions, one shape moved).
// After every transaction the application's idea of the scene -- built from the reported lists
// only -- is compared with the router, and the hyperedge is checked to be one tree over the same
// four pins.   Exit code 0 = fine, 1 = property C12 violated.
int main(void)
{
    Router *router = new Router(OrthogonalRouting);
    router->setTransactionUse(true);
    router->setRoutingParameter(idealNudgingDistance, 10);

    Client client;
    ShapeRef *s10 = addShape(router, client, 10, 100, 100, RIGHT);
    ShapeRef *s11 = addShape(router, client, 11, 500, 120, LEFT);
    ShapeRef *s12 = addShape(router, client, 12, 300, 400, TOP);
    ShapeRef *s13 = addShape(router, client, 13, 600, 400, TOP);

    JunctionRef *j500 = new JunctionRef(router, Point(350, 250), 500);
    j500->setPositionFixed(true);
    client.junctions.insert(j500);
    client.conns.insert(new ConnRef(router, ConnEnd(j500), ConnEnd(s10, 1), 600));
    client.conns.insert(new ConnRef(router, ConnEnd(s11, 1), ConnEnd(j500), 601));
    client.conns.insert(new ConnRef(router, ConnEnd(j500), ConnEnd(s12, 1), 602));
    client.conns.insert(new ConnRef(router, ConnEnd(j500), ConnEnd(s13, 1), 603));

    router->processTransaction();
    client.apply(router->newAndDeletedObjectListsFromHyperedgeImprovement(), "transaction 1", "improver");
    client.check(router, "transaction 1");

    // Reroute the complete hyperedge.
    router->hyperedgeRerouter()->registerHyperedgeForRerouting(j500);
    router->processTransaction();
    client.apply(router->hyperedgeRerouter()->newAndDeletedObjectLists(0), "transaction 2", "rerouter");
    client.apply(router->newAndDeletedObjectListsFromHyperedgeImprovement(), "transaction 2", "improver");
    client.check(router, "transaction 2");

    // An ordinary follow-up transaction.
    client.followRecommendations(router);
    router->moveShape(s11, 10, 20);
    client.pinPos[Term(11, 1)].x += 10;
    client.pinPos[Term(11, 1)].y += 20;
    router->processTransaction();
    client.apply(router->newAndDeletedObjectListsFromHyperedgeImprovement(), "transaction 3", "improver");
    client.check(router, "transaction 3");

    if (violations)
    {
        printf("%d violation(s) of property C12\n", violations);
    }
    else
    {
        printf("OK: after every transaction the router's live junctions and connectors are exactly what the "
               "reported lists say, and they form a single tree over the same 4 terminals\n");
    }
    delete router;
    return violations ? 1 : 0;
}
