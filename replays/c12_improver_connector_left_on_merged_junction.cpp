// ---- small C12 checker shared (by textual inclusion) by the obs*.cpp files -------------
#include <cstdio>
#include <cmath>
#include <map>
#include <set>
#include <vector>
#include <string>
#include "libavoid/libavoid.h"
using namespace Avoid;

static bool same(const Point& a, const Point& b)
{
    return std::fabs(a.x - b.x) < 1e-6 && std::fabs(a.y - b.y) < 1e-6;
}

// Prints the hyperedge and returns the number of violated C12 promises:
//  - every connector end is attached to a shape pin or to a live junction that was not
//    reported as deleted,
//  - junctions + connectors form one tree whose leaves are exactly the nTerminals pins,
//  - every route has at least two points, starts/ends at the pin (pinPos[shape id]) or
//    junction it is attached to, and all routes at a junction meet at its recommended
//    (or, failing that, current) position.
static int checkHyperedge(Router *router, const char *when, size_t nTerminals,
        std::map<unsigned, Point>& pinPos, const JunctionRefList& reportedDeleted)
{
    int bad = 0;
    std::set<JunctionRef *> live, deleted(reportedDeleted.begin(), reportedDeleted.end());
    for (ObstacleList::iterator it = router->m_obstacles.begin(); it != router->m_obstacles.end(); ++it)
    {
        JunctionRef *j = dynamic_cast<JunctionRef *> (*it);
        if (j && !deleted.count(j)) live.insert(j);
    }
    std::map<const void *, const void *> parent;     // union-find over junctions and pins
    std::set<unsigned> terminals;
    size_t nodes = 0, edges = 0;
    printf("%s:\n", when);
    for (ConnRefList::iterator it = router->connRefs.begin(); it != router->connRefs.end(); ++it)
    {
        ConnRef *c = *it;
        std::pair<ConnEnd, ConnEnd> ends = c->endpointConnEnds();
        const ConnEnd *e[2] = { &ends.first, &ends.second };
        const PolyLine& r = c->displayRoute();
        const void *node[2];
        std::vector<std::string> msgs;
        char buf[256];
        printf("  connector %u:", c->id());
        for (int k = 0; k < 2; ++k)
        {
            node[k] = reinterpret_cast<const char *> (c) + k;   // a node of its own, unless attached
            if (e[k]->junction() && live.count(e[k]->junction()))
            {
                node[k] = e[k]->junction();
                printf(" J%u", e[k]->junction()->id());
            }
            else if (e[k]->junction())
            {
                printf(" J%u(DELETED)", e[k]->junction()->id());
                snprintf(buf, sizeof buf, "connector %u is attached to junction %u, which was deleted", c->id(), e[k]->junction()->id());
                msgs.push_back(buf);
            }
            else if (e[k]->shape())
            {
                terminals.insert(e[k]->shape()->id());
                node[k] = e[k]->shape();
                printf(" S%u", e[k]->shape()->id());
                Point want = pinPos[e[k]->shape()->id()];
                if (r.size() >= 2 && !same(r.ps[0], want) && !same(r.ps[r.size() - 1], want))
                {
                    snprintf(buf, sizeof buf, "route of connector %u does not reach the pin of shape %u at (%g,%g)", c->id(), e[k]->shape()->id(), want.x, want.y);
                    msgs.push_back(buf);
                }
            }
            else
            {
                printf(" <unattached>");
                snprintf(buf, sizeof buf, "connector %u has an end that is attached to nothing", c->id());
                msgs.push_back(buf);
            }
        }
        printf("   route");
        bool allSame = true;
        for (size_t i = 0; i < r.size(); ++i)
        {
            printf(" (%g,%g)", r.ps[i].x, r.ps[i].y);
            if (!same(r.ps[i], r.ps[0])) allSame = false;
        }
        printf("\n");
        for (size_t i = 0; i < msgs.size(); ++i)
        {
            printf("  VIOLATION: %s\n", msgs[i].c_str());
            ++bad;
        }
        if (r.size() < 2 || allSame)
        {
            printf("  VIOLATION: connector %u has a degenerate route (%d point(s), zero length)\n", c->id(), (int) r.size());
            ++bad;
        }
        for (int k = 0; k < 2; ++k) if (!parent.count(node[k])) { parent[node[k]] = node[k]; ++nodes; }
        const void *a = node[0], *b = node[1];
        while (parent[a] != a) a = parent[a];
        while (parent[b] != b) b = parent[b];
        if (a == b) { printf("  VIOLATION: connector %u closes a cycle\n", c->id()); ++bad; }
        parent[a] = b;
        ++edges;
    }
    for (std::set<JunctionRef *>::iterator it = live.begin(); it != live.end(); ++it)
    {
        JunctionRef *j = *it;
        ConnRefList conns = j->attachedConnectors();
        printf("  junction %u: position (%g,%g), recommended (%g,%g), %d connectors\n", j->id(),
                j->position().x, j->position().y, j->recommendedPosition().x,
                j->recommendedPosition().y, (int) conns.size());
        if (!parent.count(j)) { parent[j] = j; ++nodes; }
        if (conns.size() < 2)
        {
            printf("  VIOLATION: junction %u is a leaf or isolated (%d connectors)\n", j->id(), (int) conns.size());
            ++bad;
        }
        Point cand[2] = { j->recommendedPosition(), j->position() };
        bool meet = false;
        for (int k = 0; k < 2 && !meet; ++k)
        {
            meet = true;
            for (ConnRefList::iterator c = conns.begin(); c != conns.end(); ++c)
            {
                const PolyLine& r = (*c)->displayRoute();
                if (r.size() < 1 || (!same(r.ps[0], cand[k]) && !same(r.ps[r.size() - 1], cand[k]))) meet = false;
            }
        }
        if (!meet)
        {
            printf("  VIOLATION: the routes of the connectors attached to junction %u do not all end at the junction\n", j->id());
            ++bad;
        }
    }
    if (nodes != edges + 1)
    {
        printf("  VIOLATION: junctions and connectors form %d separate pieces instead of one tree\n", (int) (nodes - edges));
        ++bad;
    }
    if (terminals.size() != nTerminals)
    {
        printf("  VIOLATION: %d of the %d pin terminals are still attached\n", (int) terminals.size(), (int) nTerminals);
        ++bad;
    }
    return bad;
}

// Adds a 60x40 shape with one pin (class 1) in the middle of the given side
// ('L', 'R', 'T' or 'B') and records the pin position.
static ShapeRef *addShape(Router *router, unsigned id, double cx, double cy, char side,
        std::map<unsigned, Point>& pinPos)
{
    Rectangle rect(Point(cx, cy), 60, 40);
    ShapeRef *s = new ShapeRef(router, rect, id);
    switch (side)
    {
        case 'L': new ShapeConnectionPin(s, 1, ATTACH_POS_LEFT, ATTACH_POS_CENTRE, true, 0, ConnDirLeft);
                  pinPos[id] = Point(cx - 30, cy); break;
        case 'R': new ShapeConnectionPin(s, 1, ATTACH_POS_RIGHT, ATTACH_POS_CENTRE, true, 0, ConnDirRight);
                  pinPos[id] = Point(cx + 30, cy); break;
        case 'T': new ShapeConnectionPin(s, 1, ATTACH_POS_CENTRE, ATTACH_POS_TOP, true, 0, ConnDirUp);
                  pinPos[id] = Point(cx, cy - 20); break;
        default:  new ShapeConnectionPin(s, 1, ATTACH_POS_CENTRE, ATTACH_POS_BOTTOM, true, 0, ConnDirDown);
                  pinPos[id] = Point(cx, cy + 20); break;
    }
    return s;
}
// ---- end of shared checker -----------------------------------------------------------------
// Observation 1: with improveHyperedgeRoutesMovingAddingAndDeletingJunctions, a connector
// stays attached to a junction that the improver merged away (reported as deleted);
// after the next transaction that end is attached to nothing and the terminal behind it
// has dropped out of the hyperedge.
//
// Scene: four shapes, two junctions joined by connector 900.
//   junction 500 at (400,600): 600 -> right pin of shape 10 (100,480),
//                              601 <- right pin of shape 11 (730,710)
//   junction 501 at (600,400): 602 <- bottom pin of shape 12 (540,690),
//                              604 -> top pin of shape 14 (320,510)
// Transaction 1: initial routing + improvement.  Transaction 2: shape 11 moved by (10,0).
int main(void)
{
    Router *router = new Router(OrthogonalRouting);
    router->setTransactionUse(true);
    router->setRoutingParameter(idealNudgingDistance, 10);
    router->setRoutingOption(improveHyperedgeRoutesMovingAddingAndDeletingJunctions, true);
    std::map<unsigned, Point> pinPos;
    ShapeRef *s10 = addShape(router, 10, 70, 480, 'R', pinPos);
    ShapeRef *s11 = addShape(router, 11, 700, 710, 'R', pinPos);
    ShapeRef *s12 = addShape(router, 12, 540, 670, 'B', pinPos);
    ShapeRef *s14 = addShape(router, 14, 320, 530, 'T', pinPos);
    JunctionRef *j500 = new JunctionRef(router, Point(400, 600), 500);
    JunctionRef *j501 = new JunctionRef(router, Point(600, 400), 501);
    new ConnRef(router, ConnEnd(j501), ConnEnd(j500), 900);
    new ConnRef(router, ConnEnd(j500), ConnEnd(s10, 1), 600);
    new ConnRef(router, ConnEnd(s11, 1), ConnEnd(j500), 601);
    new ConnRef(router, ConnEnd(s12, 1), ConnEnd(j501), 602);
    new ConnRef(router, ConnEnd(j501), ConnEnd(s14, 1), 604);
    router->processTransaction();

    HyperedgeNewAndDeletedObjectLists lists =
            router->newAndDeletedObjectListsFromHyperedgeImprovement();
    printf("improvement reported %d new and %d deleted junctions, %d new and %d deleted connectors\n",
            (int) lists.newJunctionList.size(), (int) lists.deletedJunctionList.size(),
            (int) lists.newConnectorList.size(), (int) lists.deletedConnectorList.size());
    int bad = checkHyperedge(router, "after transaction 1", 4, pinPos, lists.deletedJunctionList);

    router->moveShape(s11, 10, 0);
    pinPos[11].x += 10;
    router->processTransaction();
    lists = router->newAndDeletedObjectListsFromHyperedgeImprovement();
    bad += checkHyperedge(router, "after transaction 2 (shape 11 moved by (10,0))", 4, pinPos,
            lists.deletedJunctionList);

    printf(bad ? "FAILED: %d violation(s)\n" : "OK\n", bad);
    delete router;
    return bad ? 1 : 0;
}
