// Observation 1 (UNMODIFIED code): the local hyperedge improvement can move a *terminal*
// of a hyperedge, so that afterwards the route of a connector no longer starts at the
// connector's source attachment.
//
// exit 1 = defect present (route does not start at its source endpoint), exit 0 = fine.
#include "libavoid/libavoid.h"
#include <cstdio>
using namespace Avoid;

int main(void)
{
    Router *router = new Router(OrthogonalRouting);
    router->setRoutingParameter(segmentPenalty, 50);
    router->setRoutingParameter(idealNudgingDistance, 10);
    // Either of the two hyperedge improvement options will do; the first is on by default.

    // A bystander shape, far away from everything.
    Rectangle rect(Point(400, 400), Point(460, 460));
    new ShapeRef(router, rect, 1);

    JunctionRef *j = new JunctionRef(router, Point(140, 250), 7);
    const Point t1(260, 257.5), t2(-2.5, 265), t3(45, 260);
    ConnRef *c1 = new ConnRef(router, ConnEnd(t1), ConnEnd(j), 13);
    ConnRef *c2 = new ConnRef(router, ConnEnd(t2), ConnEnd(j), 14);
    ConnRef *c3 = new ConnRef(router, ConnEnd(t3), ConnEnd(j), 15);
    router->processTransaction();

    int bad = 0;
    ConnRef *conns[3] = { c1, c2, c3 };
    const Point terms[3] = { t1, t2, t3 };
    for (int i = 0; i < 3; ++i)
    {
        const PolyLine& route = conns[i]->displayRoute();
        printf("conn %u:", conns[i]->id());
        for (size_t k = 0; k < route.size(); ++k) printf(" (%g,%g)", route.ps[k].x, route.ps[k].y);
        printf("\n");
        if (route.size() < 2 || !(route.ps[0] == terms[i]))
        {
            printf("  DEFECT: route does not start at the source endpoint (%g,%g)\n",
                    terms[i].x, terms[i].y);
            ++bad;
        }
    }
    Point rp = j->recommendedPosition();
    printf("junction: position (%g,%g), recommended (%g,%g)\n", j->position().x,
            j->position().y, rp.x, rp.y);
    delete router;
    return bad ? 1 : 0;
}
