// Build: g++ -std=gnu++11 -I/repo/cola this.cpp /repo/cola/libavoid/.libs/libavoid.a ; at d4ce68a prints three connectors with "dst vertex MISSING", exit 1.
// C12 replay: HyperedgeRerouter::registerHyperedgeForRerouting(ConnEndList) -- the documented way to route a hyperedge from
// its terminals alone -- creates connectors whose terminal ends are never attached: HyperedgeTreeEdge::addConns looks the
// terminal's ConnEnd up in the *old* connectors of the hyperedge, of which there are none on this path ("XXX: Create new conn here").
#include "libavoid/libavoid.h"
#include <cstdio>
using namespace Avoid;
int main()
{
    Router *router = new Router(OrthogonalRouting);
    ConnEndList terminals;
    const double cx[3] = {100, 300, 200}, cy[3] = {100, 100, 300};
    for (int i = 0; i < 3; ++i) {
        Polygon r(4); r.ps[0]=Point(cx[i]-20,cy[i]-15); r.ps[1]=Point(cx[i]+20,cy[i]-15); r.ps[2]=Point(cx[i]+20,cy[i]+15); r.ps[3]=Point(cx[i]-20,cy[i]+15);
        ShapeRef *s = new ShapeRef(router, r);
        new ShapeConnectionPin(s, 1, ATTACH_POS_CENTRE, ATTACH_POS_CENTRE, true, 0.0, ConnDirNone);
        terminals.push_back(ConnEnd(s, 1));
    }
    router->processTransaction();
    size_t idx = router->hyperedgeRerouter()->registerHyperedgeForRerouting(terminals);
    router->processTransaction();
    HyperedgeNewAndDeletedObjectLists res = router->hyperedgeRerouter()->newAndDeletedObjectLists(idx);
    printf("new junctions: %zu, new connectors: %zu\n", res.newJunctionList.size(), res.newConnectorList.size());
    int bad = 0;
    for (ConnRefList::iterator it = res.newConnectorList.begin(); it != res.newConnectorList.end(); ++it) {
        ConnRef *c = *it;
        std::pair<ConnEnd, ConnEnd> ends = c->endpointConnEnds();
        const PolyLine& route = c->displayRoute();
        bool srcAttached = (c->src() != nullptr), dstAttached = (c->dst() != nullptr);
        printf("connector %u: src vertex %s, dst vertex %s, route %zu points", c->id(), srcAttached ? "set" : "MISSING", dstAttached ? "set" : "MISSING", route.size());
        if (route.size()) printf(" (%g,%g)..(%g,%g)", route.ps[0].x, route.ps[0].y, route.ps[route.size()-1].x, route.ps[route.size()-1].y);
        printf("\n");
        if (!srcAttached || !dstAttached) bad++;
    }
    printf("%d connector(s) with an end attached to nothing\n", bad);
    delete router;
    return bad ? 1 : 0;
}
