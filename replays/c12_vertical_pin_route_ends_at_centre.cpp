// Observation 4 (new at /repo HEAD 54c2e83, introduced by ca49d12): after a full
// hyperedge rerouting, the route of a connector whose terminal pin is entered
// VERTICALLY (pin on the top or bottom side of its shape) ends at the centre of
// the shape instead of at the pin.
//
// Three shapes with one pin each (left, left, top), one junction, three
// connectors; initial transaction; register the hyperedge for rerouting by
// junction; second transaction; check that every new connector's route ends
// at the pin it is attached to.  The same scene is then run with the pins at the centres
// of the shapes (the case ca49d12 set out to repair).  Exit 1 if any route misses its pin.
#include <cstdio>
#include <cmath>
#include "libavoid/libavoid.h"
using namespace Avoid;

static bool same(const Point& a, const Point& b)
{
    return std::fabs(a.x - b.x) < 1e-6 && std::fabs(a.y - b.y) < 1e-6;
}

static int runScene(bool centrePins)
{
    Router *router = new Router(OrthogonalRouting);
    router->setTransactionUse(true);
    // Hyperedge improvement off, so the routes are exactly what the rerouter wrote.
    router->setRoutingOption(improveHyperedgeRoutesMovingJunctions, false);

    Rectangle r1(Point(500, 100), 60, 40);
    ShapeRef *s1 = new ShapeRef(router, r1, 1);
    if (centrePins) new ShapeConnectionPin(s1, 1, ATTACH_POS_CENTRE, ATTACH_POS_CENTRE, true, 0, ConnDirAll);
    else new ShapeConnectionPin(s1, 1, ATTACH_POS_LEFT, ATTACH_POS_CENTRE, true, 0, ConnDirLeft);    // (470,100)
    Rectangle r2(Point(500, 300), 60, 40);
    ShapeRef *s2 = new ShapeRef(router, r2, 2);
    if (centrePins) new ShapeConnectionPin(s2, 1, ATTACH_POS_CENTRE, ATTACH_POS_CENTRE, true, 0, ConnDirAll);
    else new ShapeConnectionPin(s2, 1, ATTACH_POS_LEFT, ATTACH_POS_CENTRE, true, 0, ConnDirLeft);    // (470,300)
    Rectangle r3(Point(100, 400), 60, 40);
    ShapeRef *s3 = new ShapeRef(router, r3, 3);
    if (centrePins) new ShapeConnectionPin(s3, 1, ATTACH_POS_CENTRE, ATTACH_POS_CENTRE, true, 0, ConnDirAll);
    else new ShapeConnectionPin(s3, 1, ATTACH_POS_CENTRE, ATTACH_POS_TOP, true, 0, ConnDirUp);       // (100,380)
    Point pin[4] = { Point(), Point(470, 100), Point(470, 300), Point(100, 380) };
    if (centrePins)
    {
        pin[1] = Point(500, 100); pin[2] = Point(500, 300); pin[3] = Point(100, 400);
    }
    printf("scene with pins %s:\n", centrePins ? "at the centres of the shapes" : "on the sides of the shapes");

    JunctionRef *j = new JunctionRef(router, Point(300, 200), 10);
    new ConnRef(router, ConnEnd(j), ConnEnd(s1, 1), 21);
    new ConnRef(router, ConnEnd(j), ConnEnd(s2, 1), 22);
    new ConnRef(router, ConnEnd(j), ConnEnd(s3, 1), 23);
    router->processTransaction();

    router->hyperedgeRerouter()->registerHyperedgeForRerouting(j);
    router->processTransaction();

    int bad = 0;
    for (ConnRefList::iterator it = router->connRefs.begin(); it != router->connRefs.end(); ++it)
    {
        ConnRef *c = *it;
        std::pair<ConnEnd, ConnEnd> ends = c->endpointConnEnds();
        const PolyLine& r = c->displayRoute();
        printf("connector %u:", c->id());
        for (size_t i = 0; i < r.size(); ++i) printf(" (%g,%g)", r.ps[i].x, r.ps[i].y);
        printf("\n");
        const ConnEnd *e[2] = { &ends.first, &ends.second };
        for (int k = 0; k < 2; ++k)
        {
            if (e[k]->shape() && r.size() >= 2)
            {
                Point want = pin[e[k]->shape()->id()];
                if (!same(r.ps[0], want) && !same(r.ps[r.size() - 1], want))
                {
                    printf("VIOLATION: connector %u is attached to the pin of shape %u at (%g,%g) but its "
                           "route ends at (%g,%g)\n", c->id(), e[k]->shape()->id(), want.x, want.y,
                           r.ps[r.size() - 1].x, r.ps[r.size() - 1].y);
                    ++bad;
                }
            }
        }
    }
    if (!bad) printf("OK: all routes end at their pins\n");
    delete router;
    return bad;
}

int main(void)
{
    int bad = runScene(false);
    bad += runScene(true);
    return bad ? 1 : 0;
}
