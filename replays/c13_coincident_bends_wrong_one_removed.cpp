/*
 * obs1 -- UNMODIFIED adaptagrams: two bends that meet at one point, the wrong one
 * is removed when the earlier one on the path is the one that must stay.
 *
 *   A = [0,100]  x [0,100]
 *   B = [50,150] x [100,200]   stands on A (B.bottom == A.top), overlapping it in x
 *   T centre (200,50), S centre (-50,150)
 *   edge  T.centre -> A.TR (100,100) -> B.BL (50,100) -> S.centre
 *   (squeezes through the zero gap between A's top side and B's bottom side)
 *
 * One horizontal topology preserving move: B is asked to go 100 to the right
 * (reachable: nothing is in its way, it slides along the top of A and off it).
 * When B.BL reaches A.TR the bend round B has to disappear (B no longer covers the
 * route) and the bend round A has to stay.  The same input with the edge listed
 * in the opposite direction (S -> B.BL -> A.TR -> T) is handled correctly.
 *
 * Exit status: 1 = defect present (library aborts on its own invariant check in
 * the default build / leaves an invalid bend with NDEBUG), 0 = clean.
 */
#include <cstdio>
#include <cstdlib>
#include <cmath>
#include <csignal>
#include <unistd.h>
#include <vector>
#include <algorithm>
#include <libvpsc/rectangle.h>
#include <libvpsc/variable.h>
#include <libvpsc/constraint.h>
#include <libcola/cola.h>
#include <libtopology/topology_graph.h>
#include <libtopology/topology_constraints.h>
using namespace topology;

static Node* addNode(Nodes& vs, double x, double X, double y, double Y) {
    vpsc::Rectangle* r = new vpsc::Rectangle(x, X, y, Y);
    Node* v = new Node(vs.size(), r, new vpsc::Variable(vs.size()));
    vs.push_back(v);
    return v;
}

// does the segment (x1,y1)-(x2,y2) enter the interior of r (shrunk by tol)?
static bool entersInterior(const vpsc::Rectangle* r, double x1, double y1,
        double x2, double y2) {
    const double tol = 1e-6;
    double lo = 0, hi = 1;
    const double p[4] = { -(x2 - x1), (x2 - x1), -(y2 - y1), (y2 - y1) };
    const double q[4] = { x1 - (r->getMinX() + tol), (r->getMaxX() - tol) - x1,
                          y1 - (r->getMinY() + tol), (r->getMaxY() - tol) - y1 };
    for (int i = 0; i < 4; ++i) {
        if (p[i] == 0) { if (q[i] <= 0) return false; continue; }
        double t = q[i] / p[i];
        if (p[i] < 0) lo = std::max(lo, t); else hi = std::min(hi, t);
    }
    return lo < hi;
}

struct Ends { unsigned src, dst; };

static int checkAll(const Nodes& nodes, const Edges& es,
        const std::vector<Ends>& ends, const char* when) {
    int bad = 0;
    for (size_t i = 0; i < nodes.size(); ++i)
        for (size_t j = i + 1; j < nodes.size(); ++j)
            if (nodes[i]->rect->overlapX(nodes[j]->rect) > 1e-6
                    && nodes[i]->rect->overlapY(nodes[j]->rect) > 1e-6) {
                printf("  [%s] nodes %u and %u overlap\n", when, (unsigned) i, (unsigned) j);
                ++bad;
            }
    for (size_t e = 0; e < es.size(); ++e) {
        const unsigned srcId = ends[e].src, dstId = ends[e].dst;
        ConstEdgePoints path;
        es[e]->getPath(path);
        printf("  [%s] route %u:", when, (unsigned) e);
        for (size_t k = 0; k < path.size(); ++k)
            printf(" (n%u:%s %.4f,%.4f)", path[k]->node->id,
                    path[k]->rectIntersect == EdgePoint::TR ? "TR" :
                    path[k]->rectIntersect == EdgePoint::BR ? "BR" :
                    path[k]->rectIntersect == EdgePoint::BL ? "BL" :
                    path[k]->rectIntersect == EdgePoint::TL ? "TL" : "C",
                    path[k]->posX(), path[k]->posY());
        printf("\n");
        if (path.front()->node->id != srcId || path.back()->node->id != dstId
                || path.front()->rectIntersect != EdgePoint::CENTRE
                || path.back()->rectIntersect != EdgePoint::CENTRE) {
            printf("  [%s] edge %u no longer runs between its original end nodes\n", when, (unsigned) e);
            ++bad;
        }
        // no segment through the interior of any node except the edge's own
        // two end nodes.
        for (size_t k = 0; k + 1 < path.size(); ++k) {
            const EdgePoint *a = path[k], *b = path[k + 1];
            for (size_t v = 0; v < nodes.size(); ++v) {
                if (nodes[v]->id == srcId || nodes[v]->id == dstId) continue;
                if (entersInterior(nodes[v]->rect, a->posX(), a->posY(), b->posX(), b->posY())) {
                    printf("  [%s] edge %u: segment (%.4f,%.4f)-(%.4f,%.4f) passes through the interior of node %u = [%g,%g]x[%g,%g]\n",
                            when, (unsigned) e, a->posX(), a->posY(), b->posX(), b->posY(), nodes[v]->id,
                            nodes[v]->rect->getMinX(), nodes[v]->rect->getMaxX(),
                            nodes[v]->rect->getMinY(), nodes[v]->rect->getMaxY());
                    ++bad;
                }
            }
        }
        // a simple tight path visits a given node corner at most once
        for (size_t k = 1; k + 1 < path.size(); ++k)
            for (size_t l = k + 1; l + 1 < path.size(); ++l)
                if (path[k]->node->id == path[l]->node->id
                        && path[k]->rectIntersect == path[l]->rectIntersect) {
                    printf("  [%s] edge %u bends twice round the same corner of node %u\n",
                            when, (unsigned) e, path[k]->node->id);
                    ++bad;
                }
        for (size_t k = 1; k + 1 < path.size(); ++k) {
            const EdgePoint *u = path[k - 1], *v = path[k], *w = path[k + 1];
            if (v->rectIntersect == EdgePoint::CENTRE) {
                printf("  [%s] edge %u: bend %u is not on a node corner\n", when, (unsigned) e, (unsigned) k);
                ++bad;
                continue;
            }
            if (v->node->id == srcId || v->node->id == dstId) {
                printf("  [%s] edge %u bends at (%.4f,%.4f) on a corner of its own end node %u\n",
                        when, (unsigned) e, v->posX(), v->posY(), v->node->id);
                ++bad;
                continue;
            }
            if ((u->posX() == v->posX() && u->posY() == v->posY())
                    || (w->posX() == v->posX() && w->posY() == v->posY())) continue;
            double cp = crossProduct(u->posX(), u->posY(), v->posX(), v->posY(), w->posX(), w->posY());
            if (fabs(cp) < 1e-9) {
                double dot = (v->posX() - u->posX()) * (w->posX() - v->posX())
                           + (v->posY() - u->posY()) * (w->posY() - v->posY());
                if (dot < 0) {
                    printf("  [%s] edge %u doubles back on itself at bend (%.4f,%.4f) of node %u\n",
                            when, (unsigned) e, v->posX(), v->posY(), v->node->id);
                    ++bad;
                }
                continue;
            }
            double cx = v->node->rect->getCentreX(), cy = v->node->rect->getCentreY();
            double c1 = crossProduct(u->posX(), u->posY(), v->posX(), v->posY(), cx, cy);
            double c2 = crossProduct(v->posX(), v->posY(), w->posX(), w->posY(), cx, cy);
            if (!(cp * c1 > 0 && cp * c2 > 0)) {
                printf("  [%s] edge %u: bend at (%.4f,%.4f) does not turn round its node %u\n",
                        when, (unsigned) e, v->posX(), v->posY(), v->node->id);
                ++bad;
            }
        }
    }
    return bad;
}

// state for the abort handler
static Nodes* gNodes = nullptr;
static Edges* gEdges = nullptr;
static std::vector<Ends>* gEnds = nullptr;
static void onAbort(int) {
    // the library's own debug checks fired (default, assert-enabled build):
    // show the state it had produced at that moment, then fail.
    printf("libtopology aborted on an internal invariant check during a valid move; state at abort:\n");
    int bad = (gNodes && gEdges && gEnds) ? checkAll(*gNodes, *gEdges, *gEnds, "at abort") : 0;
    printf("FAIL: the library aborted (assert-enabled default build) during a valid topology preserving move; "
           "%d further violation(s) visible in the state it had reached\n", bad);
    _exit(1);
}

// one topology preserving move along one axis: every node i is asked to move
// by delta[i]; the solver is iterated until no topology event interrupts it.
static int moveAxis(vpsc::Dim dim, Nodes& nodes, Edges& es, vpsc::Variables& vs,
        const std::vector<double>& delta, const std::vector<Ends>& ends, const char* name) {
    int bad = 0;
    vpsc::Constraints cs;
    {
        TopologyConstraints t(dim, nodes, es, nullptr, vs, cs);
        for (size_t i = 0; i < nodes.size(); ++i) {
            vs[i]->desiredPosition = nodes[i]->rect->getCentreD(dim) + delta[i];
            vs[i]->weight = 1;
        }
        int iter = 0;
        bool again;
        do {
            again = t.solve();
            char when[64];
            snprintf(when, sizeof when, "%s solve %d", name, ++iter);
            bad += checkAll(nodes, es, ends, when);
        } while (again && iter < 50);
    }
    for (size_t i = 0; i < cs.size(); ++i) delete cs[i];
    return bad;
}
// ---------------------------------------------------------------------------
int main() {
    signal(SIGABRT, onAbort);
    setvbuf(stdout, nullptr, _IONBF, 0);
    Nodes nodes;
    Node* S = addNode(nodes, -60, -40, 140, 160);   // id 0, centre (-50,150)
    Node* T = addNode(nodes, 190, 210, 40, 60);     // id 1, centre (200,50)
    Node* A = addNode(nodes, 0, 100, 0, 100);       // id 2
    Node* B = addNode(nodes, 50, 150, 100, 200);    // id 3, standing on A
    EdgePoints ps;
    ps.push_back(new EdgePoint(T, EdgePoint::CENTRE));
    ps.push_back(new EdgePoint(A, EdgePoint::TR));
    ps.push_back(new EdgePoint(B, EdgePoint::BL));
    ps.push_back(new EdgePoint(S, EdgePoint::CENTRE));
    Edges es;
    es.push_back(new Edge(0, 100, ps));
    std::vector<Ends> ends(1); ends[0].src = T->id; ends[0].dst = S->id;
    gNodes = &nodes; gEdges = &es; gEnds = &ends;

    vpsc::Variables vs;
    getVariables(nodes, vs);
    int bad = checkAll(nodes, es, ends, "initial");
    if (bad) { printf("initial configuration invalid?!\n"); return 3; }

    std::vector<double> dx(4, 0.0), dy(4, 0.0);
    dx[B->id] = 100;
    bad += moveAxis(vpsc::HORIZONTAL, nodes, es, vs, dx, ends, "x-move");
    dy[B->id] = -24;
    bad += moveAxis(vpsc::VERTICAL, nodes, es, vs, dy, ends, "y-move");
    printf("B: x=[%g,%g] y=[%g,%g]\n", B->rect->getMinX(), B->rect->getMaxX(), B->rect->getMinY(), B->rect->getMaxY());
    if (fabs(B->rect->getMinX() - 150) > 1e-6 || fabs(B->rect->getMinY() - 76) > 1e-6) { printf("  B did not reach its (reachable) desired position\n"); ++bad; }
    if (bad) { printf("FAIL: %d violation(s) of the topology-preservation property\n", bad); return 1; }
    printf("PASS: edge still routed round every node\n");
    return 0;
}
