/*
 * obs1 (c13d): the UNMODIFIED library lets an edge swing through a node.
 *
 *   L = [0,100]x[0,100]      centre (50,50)     edge L.centre -> P.centre (one straight segment)
 *   P = [-70,-50]x[140,160]  centre (-60,150)   up/left of L
 *   N = [110,150]x[60,90]    right of L, vertically inside L's extent
 *
 * One horizontal topology preserving move: P +360 (to centre (300,150)), L and N stay.  The segment turns
 * clockwise about L's centre; when P's centre passes x=200 it reaches N's top left corner (110,90) and would
 * have to bend round it.  It does not: the scan that generates the node/segment constraints considers the
 * segment "not visible" from N because, on the scan lines y=60 and y=90 (N's bottom and top), the segment is
 * on the far side of the centre of N's left neighbour L -- which is true only because the segment ENDS in L's
 * centre.  No StraightConstraint (N, segment) exists, and the segment ends up running through N.
 *
 * exit 1 = defect present, exit 0 = not present.
 */
// Shared harness: exact checker for property C13 + simple valid-route generator.
#include <cstdio>
#include <cstdlib>
#include <cmath>
#include <csignal>
#include <unistd.h>
#include <vector>
#include <queue>
#include <algorithm>
#include <string>
#include <libvpsc/rectangle.h>
#include <libvpsc/variable.h>
#include <libvpsc/constraint.h>
#include <libcola/cola.h>
#include <libtopology/topology_graph.h>
#include <libtopology/topology_constraints.h>
using namespace topology;

struct Box { double x, X, y, Y; };
typedef std::vector<Box> Boxes;
struct PRef { unsigned id; int ri; };            // (node id, corner)
typedef std::vector<PRef> PathRef;
struct Pt { double x, y; };

static inline Pt posOf(const Boxes& b, const PRef& p) {
    const Box& r = b[p.id];
    Pt q;
    switch (p.ri) {
        case EdgePoint::TR: q.x = r.X; q.y = r.Y; break;
        case EdgePoint::BR: q.x = r.X; q.y = r.y; break;
        case EdgePoint::BL: q.x = r.x; q.y = r.y; break;
        case EdgePoint::TL: q.x = r.x; q.y = r.Y; break;
        default: q.x = (r.x + r.X) / 2; q.y = (r.y + r.Y) / 2;
    }
    return q;
}
static inline const char* riName(int ri) {
    return ri == EdgePoint::TR ? "TR" : ri == EdgePoint::BR ? "BR" : ri == EdgePoint::BL ? "BL"
         : ri == EdgePoint::TL ? "TL" : "C";
}
static Boxes snapBoxes(const Nodes& nodes) {
    Boxes b(nodes.size());
    for (size_t i = 0; i < nodes.size(); ++i) {
        const vpsc::Rectangle* r = nodes[i]->rect;
        b[nodes[i]->id].x = r->getMinX(); b[nodes[i]->id].X = r->getMaxX();
        b[nodes[i]->id].y = r->getMinY(); b[nodes[i]->id].Y = r->getMaxY();
    }
    return b;
}
static PathRef snapPath(const Edge* e) {
    ConstEdgePoints path; e->getPath(path);
    PathRef p(path.size());
    for (size_t k = 0; k < path.size(); ++k) { p[k].id = path[k]->node->id; p[k].ri = path[k]->rectIntersect; }
    return p;
}
static std::vector<PathRef> snapPaths(const Edges& es) {
    std::vector<PathRef> v;
    for (size_t i = 0; i < es.size(); ++i) v.push_back(snapPath(es[i]));
    return v;
}
static inline double cross(Pt a, Pt b, Pt c) { return (b.x - a.x) * (c.y - a.y) - (c.x - a.x) * (b.y - a.y); }

// does the segment a-b enter the interior of r shrunk by tol?
static bool entersInterior(const Box& r, Pt a, Pt b, double tol = 1e-6) {
    double lo = 0, hi = 1;
    const double p[4] = { -(b.x - a.x), (b.x - a.x), -(b.y - a.y), (b.y - a.y) };
    const double q[4] = { a.x - (r.x + tol), (r.X - tol) - a.x, a.y - (r.y + tol), (r.Y - tol) - a.y };
    for (int i = 0; i < 4; ++i) {
        if (p[i] == 0) { if (q[i] <= 0) return false; continue; }
        double t = q[i] / p[i];
        if (p[i] < 0) lo = std::max(lo, t); else hi = std::min(hi, t);
    }
    return lo < hi;
}
struct Ends { unsigned src, dst; };

static std::string pathStr(const Boxes& b, const PathRef& p) {
    std::string s; char buf[128];
    for (size_t k = 0; k < p.size(); ++k) {
        Pt q = posOf(b, p[k]);
        snprintf(buf, sizeof buf, " (n%u:%s %.4f,%.4f)", p[k].id, riName(p[k].ri), q.x, q.y);
        s += buf;
    }
    return s;
}
// ---- static validity of one state -----------------------------------------------------------
static int checkState(const Boxes& b, const std::vector<PathRef>& ps, const std::vector<Ends>& ends,
        const char* when, bool verbose = true) {
    int bad = 0;
    for (size_t i = 0; i < b.size(); ++i)
        for (size_t j = i + 1; j < b.size(); ++j) {
            double ox = std::min(b[i].X, b[j].X) - std::max(b[i].x, b[j].x);
            double oy = std::min(b[i].Y, b[j].Y) - std::max(b[i].y, b[j].y);
            if (ox > 1e-5 && oy > 1e-5) {
                if (verbose) printf("  [%s] nodes %u and %u overlap (%g x %g)\n", when, (unsigned) i, (unsigned) j, ox, oy);
                ++bad;
            }
        }
    for (size_t e = 0; e < ps.size(); ++e) {
        const PathRef& p = ps[e];
        const unsigned srcId = ends[e].src, dstId = ends[e].dst;
        int bad0 = bad;
        const bool cyc = srcId == 1000000;
        if (cyc) { if (p.size() < 3 || p.front().id != p.back().id || p.front().ri != p.back().ri) { if (verbose) printf("  [%s] cycle %u is no longer closed\n", when, (unsigned) e); ++bad; } }
        else if (p.size() < 2 || p.front().id != srcId || p.back().id != dstId || p.front().ri != EdgePoint::CENTRE
                || p.back().ri != EdgePoint::CENTRE) {
            if (verbose) printf("  [%s] edge %u no longer runs between its original end nodes\n", when, (unsigned) e);
            ++bad;
        }
        for (size_t k = 0; k + 1 < p.size(); ++k) {
            Pt a = posOf(b, p[k]), c = posOf(b, p[k + 1]);
            for (size_t v = 0; v < b.size(); ++v) {
                if (v == srcId || v == dstId) continue;
                if (entersInterior(b[v], a, c)) {
                    if (verbose) printf("  [%s] edge %u: segment (%.4f,%.4f)-(%.4f,%.4f) passes through the interior of node %u = [%g,%g]x[%g,%g]\n",
                            when, (unsigned) e, a.x, a.y, c.x, c.y, (unsigned) v, b[v].x, b[v].X, b[v].y, b[v].Y);
                    ++bad;
                }
            }
        }
        for (size_t k = 1; k + 1 < p.size(); ++k) {
            if (p[k].ri == EdgePoint::CENTRE) {
                if (verbose) printf("  [%s] edge %u: bend %u is not on a node corner\n", when, (unsigned) e, (unsigned) k);
                ++bad;
            }
        }
        // groups of coincident consecutive bends (corners of touching rectangles) are judged together:
        // the turn made at that point must be round at least one of the nodes of the group.
        for (size_t k = 1; k + 1 < p.size();) {
            Pt v = posOf(b, p[k]);
            size_t k2 = k;
            while (k2 + 2 < p.size()) { Pt n = posOf(b, p[k2 + 1]); if (hypot(n.x - v.x, n.y - v.y) < 1e-7) ++k2; else break; }
            Pt u = posOf(b, p[k - 1]), w = posOf(b, p[k2 + 1]);
            double lu = hypot(u.x - v.x, u.y - v.y), lw = hypot(w.x - v.x, w.y - v.y);
            size_t kn = k2 + 1;
            if (lu < 1e-7 || lw < 1e-7) { k = kn; continue; }   // coincides with an end point
            double cp = cross(u, v, w);
            if (fabs(cp) <= 1e-6 * lu * lw) {
                double dot = (v.x - u.x) * (w.x - v.x) + (v.y - u.y) * (w.y - v.y);
                if (dot < 0) {
                    if (verbose) printf("  [%s] edge %u doubles back on itself at bend (%.4f,%.4f) of node %u\n", when, (unsigned) e, v.x, v.y, p[k].id);
                    ++bad;
                }
                k = kn; continue;
            }
            bool ok = false;
            for (size_t m = k; m <= k2; ++m) {
                if (p[m].ri == EdgePoint::CENTRE) continue;
                Pt c; c.x = (b[p[m].id].x + b[p[m].id].X) / 2; c.y = (b[p[m].id].y + b[p[m].id].Y) / 2;
                double c1 = cross(u, v, c), c2 = cross(v, w, c);
                if (cp * c1 > -1e-9 && cp * c2 > -1e-9 && (cp * c1 > 0 || cp * c2 > 0)) ok = true;
            }
            if (!ok) {
                if (verbose) printf("  [%s] edge %u: bend at (%.4f,%.4f) does not turn round its node %u (cp=%g)\n",
                        when, (unsigned) e, v.x, v.y, p[k].id, cp);
                ++bad;
            }
            k = kn;
        }
        if (bad != bad0 && verbose) printf("  [%s] route %u:%s\n", when, (unsigned) e, pathStr(b, p).c_str());
    }
    return bad;
}
// ---- sidedness across a move in one dimension with unchanged path structure ---------------------
// side of segment a-c relative to box r along dim (0=x,1=y): -1 low, +1 high, 0 none, 2 inside
static int sideOf(const Box& r, Pt a, Pt c, int dim) {
    // work in (s = coord along dim, t = coord along conjugate)
    double as = dim == 0 ? a.x : a.y, at = dim == 0 ? a.y : a.x;
    double cs = dim == 0 ? c.x : c.y, ct = dim == 0 ? c.y : c.x;
    double rs = dim == 0 ? r.x : r.y, rS = dim == 0 ? r.X : r.Y;
    double rt = dim == 0 ? r.y : r.x, rT = dim == 0 ? r.Y : r.X;
    double lo = std::max(std::min(at, ct), rt), hi = std::min(std::max(at, ct), rT);
    const double eps = 1e-6;
    double s1, s2;
    if (fabs(at - ct) < 1e-12) {            // parallel to the move direction
        if (!(at > rt + eps && at < rT - eps)) return 0;
        s1 = std::min(as, cs); s2 = std::max(as, cs);
        if (s2 <= rs + eps) return -1;
        if (s1 >= rS - eps) return 1;
        return 2;
    }
    if (hi - lo < 1e-5) return 0;
    s1 = as + (lo - at) / (ct - at) * (cs - as);
    s2 = as + (hi - at) / (ct - at) * (cs - as);
    if (s1 <= rs + eps && s2 <= rs + eps) return -1;
    if (s1 >= rS - eps && s2 >= rS - eps) return 1;
    // tolerate grazing: both within eps outside the interior
    if (std::max(s1, s2) <= rs + 1e-5) return -1;
    if (std::min(s1, s2) >= rS - 1e-5) return 1;
    return 2;
}
static int checkMove(const Boxes& b0, const Boxes& b1, const std::vector<PathRef>& ps,
        const std::vector<Ends>& ends, int dim, const char* when, bool verbose = true) {
    int bad = 0;
    for (size_t e = 0; e < ps.size(); ++e) {
        const PathRef& p = ps[e];
        for (size_t k = 0; k + 1 < p.size(); ++k) {
            Pt a0 = posOf(b0, p[k]), c0 = posOf(b0, p[k + 1]);
            Pt a1 = posOf(b1, p[k]), c1 = posOf(b1, p[k + 1]);
            for (size_t v = 0; v < b0.size(); ++v) {
                if (v == ends[e].src || v == ends[e].dst) continue;
                int s0 = sideOf(b0[v], a0, c0, dim), s1 = sideOf(b1[v], a1, c1, dim);
                if (s0 == 2 || s1 == 2) continue; // reported by checkState
                if (s0 != 0 && s1 != 0 && s0 != s1) {
                    if (verbose) printf("  [%s] edge %u segment %u (n%u:%s-n%u:%s) changed side of node %u during the move (%d -> %d)\n",
                            when, (unsigned) e, (unsigned) k, p[k].id, riName(p[k].ri), p[k + 1].id, riName(p[k + 1].ri), (unsigned) v, s0, s1);
                    ++bad;
                }
            }
        }
    }
    return bad;
}
// ---- a change of path structure at fixed node positions must not change the curve ---------------
static double distToSeg(Pt p, Pt a, Pt c) {
    double dx = c.x - a.x, dy = c.y - a.y, l2 = dx * dx + dy * dy;
    double t = l2 > 0 ? ((p.x - a.x) * dx + (p.y - a.y) * dy) / l2 : 0;
    t = std::max(0.0, std::min(1.0, t));
    return hypot(p.x - (a.x + t * dx), p.y - (a.y + t * dy));
}
static double distToPath(const Boxes& b, Pt q, const PathRef& p) {
    double d = 1e300;
    for (size_t k = 0; k + 1 < p.size(); ++k) d = std::min(d, distToSeg(q, posOf(b, p[k]), posOf(b, p[k + 1])));
    return d;
}
static int checkSameCurve(const Boxes& b, const std::vector<PathRef>& p0, const std::vector<PathRef>& p1,
        const char* when, bool verbose = true) {
    int bad = 0;
    const double tol = 1e-4;
    for (size_t e = 0; e < p0.size(); ++e) {
        double d = 0;
        for (size_t k = 0; k < p0[e].size(); ++k) d = std::max(d, distToPath(b, posOf(b, p0[e][k]), p1[e]));
        for (size_t k = 0; k < p1[e].size(); ++k) d = std::max(d, distToPath(b, posOf(b, p1[e][k]), p0[e]));
        if (d > tol) {
            if (verbose) {
                printf("  [%s] edge %u: the route was rewritten into a different curve without any node moving (distance %g)\n", when, (unsigned) e, d);
                printf("       before:%s\n       after: %s\n", pathStr(b, p0[e]).c_str(), pathStr(b, p1[e]).c_str());
            }
            ++bad;
        }
    }
    return bad;
}
// ---------------------------------------------------------------------------------------------------
static Nodes* gNodes = nullptr; static Edges* gEdges = nullptr; static std::vector<Ends>* gEnds = nullptr;
static char gWhen[64] = "";
static void onAbort(int) {
    printf("libtopology aborted on its own debug invariant check during '%s'; state at abort:\n", gWhen);
    Boxes b = snapBoxes(*gNodes); std::vector<PathRef> p = snapPaths(*gEdges);
    for (size_t e = 0; e < p.size(); ++e) printf("  route %u:%s\n", (unsigned) e, pathStr(b, p[e]).c_str());
    int bad = checkState(b, p, *gEnds, "at abort");
    printf("DEFECT PRESENT: library aborted; %d violation(s) visible in the state it had reached\n", bad);
    _exit(1);
}
static int moveAxis(vpsc::Dim dim, Nodes& nodes, Edges& es, vpsc::Variables& vs, const std::vector<double>& delta,
        const std::vector<Ends>& ends, const char* name) {
    int bad = 0;
    vpsc::Constraints cs;
    {
        snprintf(gWhen, sizeof gWhen, "%s constructor", name);
        TopologyConstraints t(dim, nodes, es, nullptr, vs, cs);
        for (size_t i = 0; i < nodes.size(); ++i) {
            vs[i]->desiredPosition = nodes[i]->rect->getCentreD(dim) + delta[i];
            vs[i]->weight = 1;
        }
        int iter = 0; bool again;
        do {
            Boxes b0 = snapBoxes(nodes); std::vector<PathRef> p0 = snapPaths(es);
            snprintf(gWhen, sizeof gWhen, "%s solve %d", name, ++iter);
            again = t.solve();
            Boxes b1 = snapBoxes(nodes); std::vector<PathRef> p1 = snapPaths(es);
            for (size_t e = 0; e < p1.size(); ++e) printf("  [%s] route %u:%s\n", gWhen, (unsigned) e, pathStr(b1, p1[e]).c_str());
            bad += checkMove(b0, b1, p0, ends, dim == vpsc::XDIM ? 0 : 1, gWhen);
            bad += checkSameCurve(b1, p0, p1, gWhen);
            bad += checkState(b1, p1, ends, gWhen);
        } while (again && iter < 50);
    }
    for (size_t i = 0; i < cs.size(); ++i) delete cs[i];
    return bad;
}
static Node* addNode(Nodes& vs, double x, double X, double y, double Y) {
    Node* v = new Node(vs.size(), new vpsc::Rectangle(x, X, y, Y), new vpsc::Variable(vs.size()));
    vs.push_back(v);
    return v;
}
int main() {
    signal(SIGABRT, onAbort);
    setvbuf(stdout, nullptr, _IONBF, 0);
    Nodes nodes;
    Node* L = addNode(nodes,   0, 100,   0, 100);   // id 0  centre (50,50): one end of the edge
    Node* P = addNode(nodes, -70, -50, 140, 160);   // id 1  centre (-60,150): the other end, up and to the left of L
    Node* N = addNode(nodes, 110, 150,  60,  90);   // id 2  to the right of L, inside L's vertical extent
    EdgePoints ps;
    ps.push_back(new EdgePoint(L, EdgePoint::CENTRE));
    ps.push_back(new EdgePoint(P, EdgePoint::CENTRE));
    Edges es; es.push_back(new Edge(0, 100, ps));
    std::vector<Ends> ends(1); ends[0].src = L->id; ends[0].dst = P->id;
    gNodes = &nodes; gEdges = &es; gEnds = &ends;
    { Boxes b = snapBoxes(nodes); std::vector<PathRef> p = snapPaths(es);
      printf("  [initial] route 0:%s\n", pathStr(b, p[0]).c_str());
      if (checkState(b, p, ends, "initial")) { printf("initial configuration invalid?!\n"); return 3; } }
    vpsc::Variables vs; getVariables(nodes, vs);
    // one horizontal move: P goes 360 to the right (nothing is in P's way), L and N stay.
    std::vector<double> dx(3, 0.0); dx[P->id] = 360;
    int bad = moveAxis(vpsc::XDIM, nodes, es, vs, dx, ends, "x pass");
    (void) N;
    if (bad) { printf("DEFECT PRESENT: %d violation(s) of the topology-preservation property\n", bad); return 1; }
    printf("ok: the edge L-P bends round N's top left corner\n");
    return 0;
}
