// Shared checker for property C14: what a HOLA user is promised about the returned drawing.
#ifndef C14_CHECK_H
#define C14_CHECK_H
#include <cmath>
#include <cstdio>
#include <map>
#include <set>
#include <vector>
#include <string>
#include <iostream>

#include "libvpsc/rectangle.h"
#include "libvpsc/variable.h"
#include "libvpsc/constraint.h"
#include "libavoid/libavoid.h"
#include "libdialect/commontypes.h"
#include "libdialect/graphs.h"
#include "libdialect/constraints.h"
#include "libdialect/opts.h"
#include "libdialect/hola.h"
#include "libdialect/io.h"

namespace c14 {

using namespace dialect;

struct Snapshot {
    std::map<id_type, std::pair<double,double>> dims;
    std::set<std::pair<id_type,id_type>> edges;
    double iel;
};

inline Snapshot snap(Graph &G) {
    Snapshot s;
    for (auto p : G.getNodeLookup()) s.dims[p.first] = p.second->getDimensions();
    for (auto p : G.getEdgeLookup()) s.edges.insert({p.second->getSourceEnd()->id(), p.second->getTargetEnd()->id()});
    s.iel = G.getIEL();
    return s;
}

// Returns number of violations found; prints each (up to a limit).
inline int check(Graph &G, const Snapshot &s, const HolaOpts &opts, bool verbose = true,
                 bool chkConstraints = true) {
    int bad = 0;
    const double eps = 1e-3;
    auto complain = [&](const std::string &m) { ++bad; if (verbose && bad <= 25) std::cout << "  VIOLATION: " << m << std::endl; };
    char buf[512];
    // 1. same nodes, same sizes
    const NodesById &nodes = G.getNodeLookup();
    if (nodes.size() != s.dims.size()) complain("node count changed");
    for (auto p : nodes) {
        auto it = s.dims.find(p.first);
        if (it == s.dims.end()) { complain("new node appeared"); continue; }
        dimensions d = p.second->getDimensions();
        if (std::fabs(d.first - it->second.first) > eps || std::fabs(d.second - it->second.second) > eps) {
            snprintf(buf, sizeof buf, "node %u has size %.4f x %.4f, originally %.4f x %.4f", p.first, d.first, d.second, it->second.first, it->second.second);
            complain(buf);
        }
    }
    // same edges
    std::set<std::pair<id_type,id_type>> es;
    for (auto p : G.getEdgeLookup()) es.insert({p.second->getSourceEnd()->id(), p.second->getTargetEnd()->id()});
    if (es != s.edges) complain("edge set changed");
    // 2. no overlaps
    std::vector<Node_SP> nv;
    for (auto p : nodes) nv.push_back(p.second);
    for (size_t i = 0; i < nv.size(); ++i) for (size_t j = i + 1; j < nv.size(); ++j) {
        BoundingBox a = nv[i]->getBoundingBox(), b = nv[j]->getBoundingBox();
        double ox = std::min(a.X, b.X) - std::max(a.x, b.x), oy = std::min(a.Y, b.Y) - std::max(a.y, b.y);
        if (ox > eps && oy > eps) {
            snprintf(buf, sizeof buf, "nodes %u and %u overlap by %.3f x %.3f", nv[i]->id(), nv[j]->id(), ox, oy);
            complain(buf);
        }
    }
    // 3. routes
    double pad = opts.nodePaddingScalar * s.iel + eps;
    for (auto p : G.getEdgeLookup()) {
        Edge_SP e = p.second;
        Node_SP u = e->getSourceEnd(), v = e->getTargetEnd();
        std::vector<Avoid::Point> r = e->getRoute();
        if (r.size() < 2) { snprintf(buf, sizeof buf, "edge %u-%u has no route", u->id(), v->id()); complain(buf); continue; }
        auto within = [&](Avoid::Point q, Node_SP n) {
            BoundingBox b = n->getBoundingBox();
            return q.x >= b.x - pad && q.x <= b.X + pad && q.y >= b.y - pad && q.y <= b.Y + pad;
        };
        bool fwd = within(r.front(), u) && within(r.back(), v);
        bool rev = within(r.front(), v) && within(r.back(), u);
        if (!fwd && !rev) {
            snprintf(buf, sizeof buf, "edge %u-%u route (%.2f,%.2f)..(%.2f,%.2f) does not join its end nodes", u->id(), v->id(), r.front().x, r.front().y, r.back().x, r.back().y);
            complain(buf);
        }
        for (size_t i = 0; i + 1 < r.size(); ++i) {
            double dx = std::fabs(r[i+1].x - r[i].x), dy = std::fabs(r[i+1].y - r[i].y);
            if (dx > eps && dy > eps) {
                snprintf(buf, sizeof buf, "edge %u-%u has a diagonal segment (%.2f,%.2f)->(%.2f,%.2f)", u->id(), v->id(), r[i].x, r[i].y, r[i+1].x, r[i+1].y);
                complain(buf);
            }
            double sx = std::min(r[i].x, r[i+1].x), sX = std::max(r[i].x, r[i+1].x),
                   sy = std::min(r[i].y, r[i+1].y), sY = std::max(r[i].y, r[i+1].y);
            for (Node_SP n : nv) {
                if (n == u || n == v) continue;
                BoundingBox b = n->getBoundingBox();
                if (sX > b.x + eps && sx < b.X - eps && sY > b.y + eps && sy < b.Y - eps) {
                    snprintf(buf, sizeof buf, "edge %u-%u passes through node %u", u->id(), v->id(), n->id());
                    complain(buf);
                }
            }
        }
    }
    // 4. constraints: ask the returned SepMatrix (through its public cola::CompoundConstraint
    //    interface) to generate its vpsc constraints against the returned node rectangles,
    //    and evaluate each one at the returned positions.
    if (chkConstraints) {
        Graph H(G);   // fresh copy => fresh rectangles from the current node boxes
        ColaGraphRep &cgr = H.updateColaGraphRep();
        const double ctol = 0.5;
        for (int d = 0; d < 2; ++d) {
            vpsc::Dim dim = d == 0 ? vpsc::XDIM : vpsc::YDIM;
            vpsc::Variables vs;
            for (size_t i = 0; i < cgr.rs.size(); ++i) {
                double c = d == 0 ? cgr.rs[i]->getCentreX() : cgr.rs[i]->getCentreY();
                vs.push_back(new vpsc::Variable(i, c));
            }
            vpsc::Constraints cs;
            vpsc::Rectangles bbs;
            H.getSepMatrix().generateSeparationConstraints(dim, vs, cs, bbs);
            for (vpsc::Constraint *c : cs) {
                double slack = c->right->desiredPosition - c->left->desiredPosition - c->gap;
                bool ok = c->equality ? std::fabs(slack) <= ctol : slack >= -ctol;
                if (!ok) {
                    snprintf(buf, sizeof buf, "returned constraint in %c:  pos[%u] + %.3f %s pos[%u]  is violated (slack %.3f)",
                             d == 0 ? 'x' : 'y', cgr.ix2id[c->left->id], c->gap, c->equality ? "==" : "<=",
                             cgr.ix2id[c->right->id], slack);
                    complain(buf);
                }
                delete c;
            }
            for (auto v : vs) delete v;
        }
    }
    return bad;
}

} // namespace c14
#endif
