// obs1 (C14, UNMODIFIED code): doHOLA() dismantles the caller's graph.
//
// "After doHOLA(), the graph has the same nodes and edges as before" -- Graph::getEdgeLookup() still lists all
// edges, but the Nodes of the caller's graph no longer know them: every edge that HOLA peeled off (all tree
// edges) has been removed from the incident-edge lookups of its two end nodes (Node::getEdgeLookup(),
// Node::getDegree(), Node::getNeighbours(), Node::getChildren()), and with useACAforLinks=false the end nodes of
// links with an "aesthetic bend" additionally carry edges to bend nodes that are not part of the graph at all.
// Consequences shown here:  (1) degrees differ before/after,  (2) an edge of G is unknown to its end nodes,
// (3) a second doHOLA() on the same Graph object no longer sees a tree (peeling finds no leaves), and ends in
//     an assertion failure / layout of a different graph.
// Exit code 1 = defect present, 0 = graph intact.
#include <unistd.h>
#include <sys/wait.h>
#include "c14_check.h"
using namespace dialect;

static int inconsistencies(Graph &G, const std::map<id_type, unsigned> &degBefore, bool verbose) {
    int bad = 0;
    for (auto p : G.getNodeLookup()) {
        unsigned d = p.second->getDegree();
        if (d != degBefore.at(p.first)) {
            ++bad;
            if (verbose) printf("  node %u: degree %u before doHOLA, %u after\n", p.first, degBefore.at(p.first), d);
        }
        // edges known to the node but not part of the graph
        for (auto q : p.second->getEdgeLookup()) {
            if (!G.hasEdge(q.first)) {
                ++bad;
                if (verbose) printf("  node %u lists edge %u (to node %u), which is not an edge of the graph\n",
                                    p.first, q.first, q.second->getOtherEnd(*p.second)->id());
            }
        }
    }
    for (auto p : G.getEdgeLookup()) {
        Node_SP s = p.second->getSourceEnd(), t = p.second->getTargetEnd();
        if (s->getEdgeLookup().count(p.first) == 0 || t->getEdgeLookup().count(p.first) == 0) {
            ++bad;
            if (verbose) printf("  edge %u-%u is listed by the graph but not by its end node(s)\n", s->id(), t->id());
        }
    }
    return bad;
}

static int runOnce(bool chains) {
    // core: hexagon 0..5 ; trees: 0-6, 6-7 and 3-8
    const int N = 9;
    const int E[][2] = {{0,1},{1,2},{2,3},{3,4},{4,5},{5,0},{0,6},{6,7},{3,8}};
    Graph G;
    std::vector<Node_SP> nodes;
    for (int i = 0; i < N; ++i) nodes.push_back(G.addNode(37.0 * ((i * 7) % N), 23.0 * ((i * 3) % N), 30, 30));
    for (auto &e : E) G.addEdge(nodes[e[0]], nodes[e[1]]);
    std::map<id_type, unsigned> deg;
    for (auto u : nodes) deg[u->id()] = u->getDegree();
    HolaOpts opts;
    opts.useACAforLinks = !chains;
    c14::Snapshot snap = c14::snap(G);
    doHOLA(G, opts);
    printf("%s: layout contract: %d violations\n", chains ? "chains" : "ACA", c14::check(G, snap, opts));
    int bad = inconsistencies(G, deg, true);
    printf("  -> %d inconsistencies between the graph and its nodes after doHOLA\n", bad);
    // A second run on the same graph (e.g. after the user moved a node): done in a child process, since it may abort.
    fflush(stdout);
    pid_t pid = fork();
    if (pid == 0) {
        if (!freopen("/dev/null", "w", stderr)) {}
        c14::Snapshot snap2 = c14::snap(G);
        doHOLA(G, opts);
        int b = c14::check(G, snap2, opts, false);
        _exit(b ? 3 : 0);
    }
    int status = 0;
    waitpid(pid, &status, 0);
    if (WIFSIGNALED(status)) { printf("  second doHOLA on the same graph: killed by signal %d (assertion)\n", WTERMSIG(status)); ++bad; }
    else if (WEXITSTATUS(status) != 0) { printf("  second doHOLA on the same graph: contract violated\n"); ++bad; }
    else printf("  second doHOLA on the same graph: fine\n");
    return bad;
}

int main() {
    setvbuf(stdout, 0, _IONBF, 0);
    int bad = runOnce(false) + runOnce(true);
    printf(bad ? "DEFECT PRESENT (%d findings)\n" : "graph intact (%d findings)\n", bad);
    return bad ? 1 : 0;
}
