// obs_1: doHOLA returns an alignment that the returned positions do not satisfy.
//
// Cause 1: an alignment made in the core (by ACA / ortho-hub layout / chain configuration) is recorded in the
// core's SepMatrix.  The leafless orthogonal router is free to route the connector between the two aligned
// nodes with bends; the planarisation P keeps two core nodes aligned only where the connector between them is
// a straight segment, and from then on only P is laid out.  At the end doHOLA nevertheless copies ALL of the
// core's constraints into the caller's graph.
//
// 7 nodes, all 30x30, default HolaOpts: a 4-cycle 0-1-5-2 with a leaf (3) and a 2-path (4-6) hanging off node 1.
// Public API only.  Exit 1 if the contract is violated, 0 otherwise.
#include "c14_check.h"
using namespace dialect;
int main(void) {
    const int n = 7;
    const int E[][2] = {{0,1}, {0,2}, {1,3}, {1,4}, {1,5}, {2,5}, {4,6}};
    Graph G;
    std::vector<Node_SP> ns;
    for (int i = 0; i < n; ++i) {
        Node_SP u = Node::allocate();
        u->setDims(30, 30);
        u->setCentre(100.0*(i%4), 100.0*(i/4));
        G.addNode(u);
        ns.push_back(u);
    }
    for (auto &e : E) G.addEdge(ns[e[0]], ns[e[1]]);
    HolaOpts opts;
    c14::Snapshot s = c14::snap(G);
    doHOLA(G, opts);
    std::cout << "returned layout and constraints (TGLF):\n" << G.writeTglf() << std::endl;
    int bad = c14::check(G, s, opts);
    std::cout << bad << " violation(s) of the doHOLA contract" << std::endl;
    return bad ? 1 : 0;
}
