// obs_2: doHOLA returns a separation that the returned positions do not satisfy, after the finishing quarter turn.
//
// Cause 2: when the drawing is turned by 90 degrees to get the preferred aspect ratio, Graph::rotate90cw/acw turns
// the node centres but (deliberately) not the node dimensions, so every boundary-gap separation ("u is at least
// half-widths + IEL/2 left of v") is afterwards measured along the other dimension of the nodes; the destress at the
// end of the rotation makes room for P's own constraints.  The core's SepMatrix is only *transformed*
// (core->getSepMatrix().transform(ROTATE90CW)); nothing makes room for its separations, yet they are copied into
// the caller's graph.  Where a core connector is crossed by another one, P relates its two end nodes only via the
// crossing node (with centre gaps), so the core's pair survives into the result, and is violated when the nodes
// are wider than they are high.
//
// 10 nodes, height 30, widths 60..150, 12 edges, default HolaOpts (LANDSCAPE preferred).
// Public API only.  Exit 1 if the contract is violated, 0 otherwise.
#include "c14_check.h"
using namespace dialect;
int main(void) {
    const int n = 10;
    const int E[][2] = {{0,1}, {0,2}, {0,4}, {0,8}, {2,3}, {2,8}, {3,8}, {4,5}, {4,6}, {4,9}, {6,7}, {7,9}};
    const double W[] = {120, 150, 90, 90, 60, 60, 60, 120, 120, 60};
    Graph G;
    std::vector<Node_SP> ns;
    for (int i = 0; i < n; ++i) {
        Node_SP u = Node::allocate();
        u->setDims(W[i], 30);
        u->setCentre(100.0*(i%4), 100.0*(i/4));
        G.addNode(u);
        ns.push_back(u);
    }
    for (auto &e : E) G.addEdge(ns[e[0]], ns[e[1]]);
    HolaOpts opts;
    c14::Snapshot s = c14::snap(G);
    doHOLA(G, opts);
    std::cout << "returned layout and constraints (TGLF):\n" << G.writeTglf() << std::endl;
    int bad = c14::check(G, s, opts);
    std::cout << bad << " violation(s) of the doHOLA contract" << std::endl;
    return bad ? 1 : 0;
}
