// obs_3: for a tree, doHOLA returns a parent/child alignment that the returned positions do not satisfy.
//
// Cause 3: Tree::addConstraints aligns every node that has an odd number of children with its "middle" child
// (by transverse coordinate).  But Tree::symmetricLayout puts a child tree centrally under its parent only when
// exactly one isomorphism class of child trees has odd order; otherwise the children are placed alternately on
// either side and no child is in line with the parent.  In the pure-tree path of doHOLA nothing is projected onto
// the constraints afterwards, so the positions stay as symmetricLayout made them.
//
// 7 nodes, all 30x30, default HolaOpts.  Node 1 is the root; its three child trees are a leaf (0), a 2-path (2-5)
// and a cherry (3-4, 3-6): three classes of odd order.
// Public API only.  Exit 1 if the contract is violated, 0 otherwise.
#include "c14_check.h"
using namespace dialect;
int main(void) {
    const int n = 7;
    const int E[][2] = {{0,1}, {1,2}, {1,3}, {2,5}, {3,4}, {3,6}};
    Graph G;
    std::vector<Node_SP> ns;
    for (int i = 0; i < n; ++i) {
        Node_SP u = Node::allocate();
        u->setDims(30, 30);
        u->setCentre(100.0*(i%4), 100.0*(i/4));
        G.addNode(u);
        ns.push_back(u);
    }
    for (auto &e : E) G.addEdge(ns[e[0]], ns[e[1]]);
    HolaOpts opts;
    c14::Snapshot s = c14::snap(G);
    doHOLA(G, opts);
    std::cout << "returned layout and constraints (TGLF):\n" << G.writeTglf() << std::endl;
    int bad = c14::check(G, s, opts);
    std::cout << bad << " violation(s) of the doHOLA contract" << std::endl;
    return bad ? 1 : 0;
}
