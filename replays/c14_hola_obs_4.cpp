// obs_4: doHOLA aborts inside libavoid instead of returning a layout.
//
// Cause 4: Avoid::ImproveOrthogonalRoutes::nudgeOrthogonalRoutes (libavoid/orthogonal.cpp) builds, per group of
// overlapping segments, a VPSC instance whose variables are pushed per segment as [segment, (left channel side),
// (right channel side)].  When the instance cannot be satisfied it records "unsatisfied ranges" of variables, and for
// an unsatisfied right channel side with no open range it asserts that the previous variable is a left channel side.
// A segment that sees a channel boundary only on its right has no such variable -- the previous variable is the
// segment's own (free) variable -- and the assertion `vs[i - 1]->id == channelLeftID' aborts the process.  (With
// NDEBUG the same code simply carries on with the range (i-1, i).)  Here it happens in the routing done by
// LeaflessOrthoRouter, which switches nudgeSharedPathsWithCommonEndPoint off, so that shared paths are tied together
// by equalities and the instance is infeasible.
//
// Input: the repository's own special/Belnet2004.tglf, HolaOpts::useACAforLinks = false, everything else default.
// The layout is run in a child process so that the abort can be reported.
// Exit 1 if doHOLA does not return or the contract is violated, 0 otherwise.
#include <sys/wait.h>
#include <unistd.h>
#include "c14_check.h"
using namespace dialect;
int main(void) {
    const char *path = "/repo/cola/libdialect/tests/graphs/special/Belnet2004.tglf";
    fflush(stdout);
    pid_t pid = fork();
    if (pid == 0) {
        Graph_SP G = buildGraphFromTglfFile(path);
        if (!G) _exit(2);
        HolaOpts opts;
        opts.useACAforLinks = false;
        c14::Snapshot s = c14::snap(*G);
        doHOLA(*G, opts);
        int bad = c14::check(*G, s, opts);
        std::cout << bad << " violation(s) of the doHOLA contract" << std::endl;
        _exit(bad ? 1 : 0);
    }
    int st = 0;
    waitpid(pid, &st, 0);
    if (WIFSIGNALED(st)) {
        std::cout << "doHOLA did not return: process killed by signal " << WTERMSIG(st) << " (SIGABRT = " << SIGABRT << ")" << std::endl;
        return 1;
    }
    return WEXITSTATUS(st);
}
