// obs_5: doHOLA (with HolaOpts::useACAforLinks = false) returns a connector route with a diagonal segment that
// runs through other nodes.
//
// Cause 5 (a second consequence of cause 1): Chain::takeShapeBasedConfiguration replaces an edge u-v of the core by
// u-b-v, where b is a new "aesthetic bend" node aligned with u in one dimension and with v in the other.  As for
// any alignment of the core, the leafless router may route u-b or b-v with bends, and then nothing keeps b aligned
// with that neighbour.  At the end doHOLA nevertheless makes the route of u-v by joining the centres u, b, v
// (Chain::addAestheticBendsToEdges + Graph::buildRoutes), and excludes the edge from the final orthogonal routing.
//
// Input: the repository's own random/v40e44.tglf, useACAforLinks = false, everything else default.
// Exit 1 if the contract is violated, 0 otherwise.
#include "c14_check.h"
using namespace dialect;
int main(void) {
    const char *path = "/repo/cola/libdialect/tests/graphs/random/v40e44.tglf";
    Graph_SP G = buildGraphFromTglfFile(path);
    if (!G) return 2;
    HolaOpts opts;
    opts.useACAforLinks = false;
    c14::Snapshot s = c14::snap(*G);
    doHOLA(*G, opts);
    for (auto p : G->getEdgeLookup()) {
        std::vector<Avoid::Point> r = p.second->getRoute();
        for (size_t i = 0; i + 1 < r.size(); ++i) {
            if (std::fabs(r[i].x - r[i+1].x) > 1e-3 && std::fabs(r[i].y - r[i+1].y) > 1e-3) {
                std::cout << "edge " << p.second->getSourceEnd()->id() << "-" << p.second->getTargetEnd()->id() << " has route";
                for (auto q : r) std::cout << " (" << q.x << "," << q.y << ")";
                std::cout << std::endl;
                break;
            }
        }
    }
    int bad = c14::check(*G, s, opts);
    std::cout << bad << " violation(s) of the doHOLA contract" << std::endl;
    return bad ? 1 : 0;
}
