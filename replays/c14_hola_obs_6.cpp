// obs_6: doHOLA (with HolaOpts::useACAforLinks = false) aborts in Chain::bendCost instead of returning a layout.
//
// Cause 6: Chain::bendCost (libdialect/chains.cpp) normalises angles into half-open ranges (-L, L] and asserts this
// with exact floating point comparisons.  When a chain is laid out exactly axis-parallel (which is what the
// preceding orthogonal layout steps aim for) atan2 gives alpha0 = -89.999999999999986, which is inside (-90, 90],
// but alpha0 - 45 rounds to exactly -135.0, which is outside (-135, 135]: assertion `-L < a && a <= L' fails.
//
// 7 nodes, all 30x30: a 4-cycle 0-1-2-5 with leaves 3, 6 on node 1 and leaf 4 on node 2.
// The layout is run in a child process so that the abort can be reported.
// Public API only.  Exit 1 if doHOLA does not return or the contract is violated, 0 otherwise.
#include <sys/wait.h>
#include <unistd.h>
#include "c14_check.h"
using namespace dialect;
int main(void) {
    fflush(stdout);
    pid_t pid = fork();
    if (pid == 0) {
        const int n = 7;
        const int E[][2] = {{0,1}, {0,5}, {1,2}, {1,3}, {1,6}, {2,4}, {2,5}};
        Graph G;
        std::vector<Node_SP> ns;
        for (int i = 0; i < n; ++i) {
            Node_SP u = Node::allocate();
            u->setDims(30, 30);
            u->setCentre(100.0*(i%4), 100.0*(i/4));
            G.addNode(u);
            ns.push_back(u);
        }
        for (auto &e : E) G.addEdge(ns[e[0]], ns[e[1]]);
        HolaOpts opts;
        opts.useACAforLinks = false;
        c14::Snapshot s = c14::snap(G);
        doHOLA(G, opts);
        int bad = c14::check(G, s, opts);
        std::cout << bad << " violation(s) of the doHOLA contract" << std::endl;
        _exit(bad ? 1 : 0);
    }
    int st = 0;
    waitpid(pid, &st, 0);
    if (WIFSIGNALED(st)) {
        std::cout << "doHOLA did not return: process killed by signal " << WTERMSIG(st) << " (SIGABRT = " << SIGABRT << ")" << std::endl;
        return 1;
    }
    return WEXITSTATUS(st);
}
