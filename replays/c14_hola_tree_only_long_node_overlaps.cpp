// obs2 (C14, UNMODIFIED code): HOLA on a graph that is a tree returns overlapping nodes when a node is long
// in the growth direction of the tree.
//
// In the "tree only" path of doHOLA the positions come straight from Tree::symmetricLayout, which puts rank r
// at distance r*rankSep from the root, measured between node CENTRES (rankSep = treeLayoutScalar_rankSep * IEL,
// IEL = 2 * average node dimension), regardless of how far the nodes extend in the growth direction.  No overlap
// removal follows in this path.  A node higher than about 2*rankSep - (height of its neighbours in the next rank)
// therefore overlaps its parent / children, connectors run through it, and the constraint "v lies beyond u by at
// least the boundary gap" that Tree::addConstraints writes into the returned graph is violated.
// (For trees hanging off a core the same layout is repaired later by the constrained destress of the planar graph.)
//
// Cases: (1) a 6-node tree with one 30 x 200 node, default options (growth SOUTH)
//        (2) the same tree with one 200 x 30 node and defaultTreeGrowthDir = EAST
//        (3) all nodes 30 x 30, treeLayoutScalar_rankSep = 0.4 (a valid option value)
//        (0) control: all nodes 30 x 30, default options  -> clean
// Exit code 1 = defect present (some case violates the contract), 0 = all clean.
#include "c14_check.h"
using namespace dialect;

static int run(const char *name, double w0, double h0, const HolaOpts &opts) {
    const int E[][2] = {{0,1},{0,2},{0,3},{1,4},{1,5}};
    Graph G;
    std::vector<Node_SP> n;
    for (int i = 0; i < 6; ++i) n.push_back(G.addNode(50.0 * i, 30.0 * (i % 3), i == 0 ? w0 : 30, i == 0 ? h0 : 30));
    for (auto &e : E) G.addEdge(n[e[0]], n[e[1]]);
    c14::Snapshot s = c14::snap(G);
    doHOLA(G, opts);
    printf("%s (IEL %.2f):\n", name, G.getIEL());
    int b = c14::check(G, s, opts);
    printf("   -> %d violations\n", b);
    return b;
}

int main() {
    setvbuf(stdout, 0, _IONBF, 0);
    HolaOpts dflt;
    int control = run("(0) control, all nodes 30 x 30", 30, 30, dflt);
    int bad = 0;
    bad += run("(1) node 0 is 30 x 200, growth SOUTH", 30, 200, dflt);
    HolaOpts east; east.defaultTreeGrowthDir = CardinalDir::EAST;
    bad += run("(2) node 0 is 200 x 30, growth EAST", 200, 30, east);
    HolaOpts tight; tight.treeLayoutScalar_rankSep = 0.4;
    bad += run("(3) all nodes 30 x 30, treeLayoutScalar_rankSep = 0.4", 30, 30, tight);
    printf("%s: control %d, cases %d violations\n", (bad || control) ? "DEFECT PRESENT" : "clean", control, bad);
    return (bad || control) ? 1 : 0;
}
