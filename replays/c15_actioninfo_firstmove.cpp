#include <libavoid/libavoid.h>
using namespace Avoid;
static void clobber(){ volatile char buf[4096]; for(int i=0;i<4096;i++) buf[i]=(char)0xAB; }
int main(){
  Router *router = new Router(PolyLineRouting);
  Rectangle r(Point(0,0),Point(10,10));
  ShapeRef *s = new ShapeRef(router, r);
  ConnRef *c = new ConnRef(router, ConnEnd(Point(-20,5)), ConnEnd(Point(30,5)));
  router->processTransaction();
  clobber();
  router->deleteShape(s);      // ActionInfo(ShapeRemove, s): firstMove never initialised, then copied into the list
  router->processTransaction();
  delete router;
  return 0;
}
