// c15e obs5 -- dialect::AlignmentTable built for a Graph in which no node is of interest (empty graph, or every node
// in the ignore list): AlignmentTable::addAlignments() evaluates std::prev(nodes.end()) on an empty map (undefined;
// libstdc++ dereferences a null parent pointer) -- SIGSEGV in an ordinary build.  Exit 1 = defect present.
#include "obs_common.h"
#include "libdialect/graphs.h"
#include "libdialect/nearalign.h"
using namespace dialect;
static int emptyGraph(void) { Graph G; Nodes ignore; AlignmentTable t(G, ignore); return 0; }
static int allIgnored(void)
{
    Graph G; Node_SP a = G.addNode(0, 0, 10, 10), b = G.addNode(30, 0, 10, 10); G.addEdge(a, b);
    Nodes ignore; ignore.push_back(a); ignore.push_back(b);
    AlignmentTable t(G, ignore);
    return 0;
}
int main(void)
{
    int bad = 0;
    bad |= runScenario("obs5.1 AlignmentTable, empty graph", emptyGraph);
    bad |= runScenario("obs5.2 AlignmentTable, all nodes ignored", allIgnored);
    return bad;
}
