// obs3 -- libavoid: an end point update that attaches a connector to a shape
// (or junction) is still queued when that shape is deleted in the same
// transaction.
//
// Router::processActions() handles the ShapeRemove actions first (the shape is
// deleted there) and the ConnChange actions last.  The queued ConnEnd copy
// still has m_anchor_obj == the deleted shape; ConnRef::common_updateEndPoint()
// calls connEnd.position() -> m_anchor_obj->position()  => heap-use-after-free
// (and then attaches the connector to the freed shape).
// Fix 9e298c7 only covers ends that were ALREADY attached when the shape is
// deleted (m_following_conns), not attachments still waiting in the queue.
#include "libavoid/libavoid.h"
#include "c15d_obs_common.h"
using namespace Avoid;

static int scenario(void)
{
    Router *router = new Router(OrthogonalRouting);
    Rectangle r1(Point(0,0), Point(50,50));     ShapeRef *s1 = new ShapeRef(router, r1);
    Rectangle r2(Point(200,0), Point(250,50));  ShapeRef *s2 = new ShapeRef(router, r2);
    new ShapeConnectionPin(s1, 1, ATTACH_POS_RIGHT, ATTACH_POS_CENTRE, true, 0, ConnDirRight);
    new ShapeConnectionPin(s2, 1, ATTACH_POS_LEFT, ATTACH_POS_CENTRE, true, 0, ConnDirLeft);
    ConnRef *c = new ConnRef(router, ConnEnd(s1, 1), ConnEnd(Point(300,300)));
    router->processTransaction();
    c->setDestEndpoint(ConnEnd(s2, 1));   // queued
    router->deleteShape(s2);              // queued, same transaction
    router->processTransaction();         // <- reads the freed shape
    delete router;
    return 0;
}

int main(void)
{
    return runScenario("obs3 attach to a shape deleted in the same transaction", scenario);
}
