// c15e obs3 -- cola::ConstrainedMajorizationLayout::setNonOverlappingClusters(): the straightener::Edges (and their
// Routes) that generateClusterBoundaries() creates for the hull of every ConvexCluster, in every iteration and for
// both axes, are never freed.  Needs a leak checker.  Exit 1 = defect present.
#include "obs_common.h"
#include <vector>
#include "libcola/cola.h"
#include "libcola/cluster.h"
using namespace cola;
static int scenario(void)
{
    std::vector<vpsc::Rectangle*> rs;
    double xs[] = {0, 40, 80, 200, 240, 280}, ys[] = {0, 50, 0, 10, 60, 10};
    for (int i = 0; i < 6; ++i) rs.push_back(new vpsc::Rectangle(xs[i], xs[i]+20, ys[i], ys[i]+20));
    std::vector<Edge> es;
    for (unsigned i = 0; i + 1 < 6; ++i) es.push_back(Edge(i, i+1));
    RootCluster *root = new RootCluster();
    ConvexCluster *c1 = new ConvexCluster(); c1->addChildNode(0); c1->addChildNode(1); c1->addChildNode(2);
    ConvexCluster *c2 = new ConvexCluster(); c2->addChildNode(3); c2->addChildNode(4); c2->addChildNode(5);
    root->addChildCluster(c1); root->addChildCluster(c2);
    {
        TestConvergence done(0.001, 3);
        ConstrainedMajorizationLayout alg(rs, es, root, 60, StandardEdgeLengths, &done);
        alg.setNonOverlappingClusters();
        alg.run();
    }
    delete root;
    for (size_t i = 0; i < rs.size(); ++i) delete rs[i];
    return 0;
}
int main(void) { return runScenario("obs3 cluster boundary edges", scenario); }
