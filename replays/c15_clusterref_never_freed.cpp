// obs5 -- libavoid: objects the router owns are leaked when the router is
// destroyed (LeakSanitizer / valgrind --leak-check=full needed to see it).
//
// 5.1  "destroying a router with queued actions": a ShapeRef / JunctionRef /
//      ConnRef created after the last processTransaction() is only referenced
//      from the action list (ShapeAdd / JunctionAdd / ConnChange).  ~Router
//      walks connRefs and m_obstacles only, so these objects (and their
//      vertices, pins, polygons) are never freed -- and the user must not
//      delete them himself (the destructors abort()).
// 5.2  ClusterRef: Router::deleteCluster() only unlinks the cluster and
//      ~Router ignores clusterRefs, so a ClusterRef is never freed at all
//      (its destructor also abort()s when called by the user).
#include "libavoid/libavoid.h"
#include "c15d_obs_common.h"
using namespace Avoid;

static int scenario1(void)
{
    Router *router = new Router(OrthogonalRouting);
    Rectangle r1(Point(0,0), Point(50,50));     new ShapeRef(router, r1);
    router->processTransaction();
    Rectangle r2(Point(200,0), Point(250,50));  new ShapeRef(router, r2);       // queued ShapeAdd
    new JunctionRef(router, Point(100, 100));                                   // queued JunctionAdd
    new ConnRef(router, ConnEnd(Point(1,1)), ConnEnd(Point(300,300)));          // queued ConnChange
    delete router;
    return 0;
}

static int scenario2(void)
{
    Router *router = new Router(OrthogonalRouting);
    Rectangle r(Point(0,0), Point(50,50));
    ClusterRef *cluster = new ClusterRef(router, r);
    router->processTransaction();
    router->deleteCluster(cluster);
    delete router;
    return 0;
}

int main(void)
{
    int bad = 0;
    bad |= runScenario("obs5.1 router destroyed with queued additions", scenario1);
    bad |= runScenario("obs5.2 ClusterRef is never freed", scenario2);
    return bad ? 1 : 0;
}
