// obs6 -- libavoid: two smaller ConnRef defects.
//
// 6.1  ConnRef::splitAtSegment() does `ConnEnd newConnDst = *m_dst_connend;`.
//      m_dst_connend is only non-null when the far end of the connector is
//      attached to a shape pin / junction; for a connector that ends at a free
//      point (perfectly legal, and what most connectors are) this dereferences
//      a null pointer  => segmentation fault.  (tests/junction04.cpp only
//      splits a connector whose far end is attached to a pin.)
// 6.2  The three-argument constructor ConnRef(router, src, dst) does not
//      initialise m_start_vert (the one-argument constructor does), so the
//      public accessor ConnRef::start() returns an uninitialised pointer until
//      the connector has been routed (visible with valgrind / MSan only:
//      "Conditional jump depends on uninitialised value").  exit status of
//      this program only reflects 6.1 unless it is run under valgrind with
//      --error-exitcode.
#include "libavoid/libavoid.h"
#include "c15d_obs_common.h"
using namespace Avoid;

static int scenario1(void)
{
    Router *router = new Router(OrthogonalRouting);
    ConnRef *c = new ConnRef(router, ConnEnd(Point(0,0)), ConnEnd(Point(100,50)));
    router->processTransaction();
    std::pair<JunctionRef *, ConnRef *> res = c->splitAtSegment(1);   // <- null deref
    router->processTransaction();
    int rc = (res.first && res.second) ? 0 : 3;
    delete router;
    return rc;
}

static int scenario2(void)
{
    Router *router = new Router(OrthogonalRouting);
    ConnRef *c = new ConnRef(router, ConnEnd(Point(0,0)), ConnEnd(Point(100,50)));
    int rc = 0;
    if (c->start() != nullptr)      // <- branch on an uninitialised pointer
    {
        printf("start() of a never-routed connector is %p, expected null\n",
                (void *) c->start());
        rc = 0;   // value is indeterminate; only a checker can tell
    }
    router->processTransaction();
    delete router;
    return rc;
}

int main(void)
{
    int bad = 0;
    bad |= runScenario("obs6.1 splitAtSegment on a connector ending at a free point", scenario1);
    bad |= runScenario("obs6.2 ConnRef::start() before routing (3-arg ctor; needs valgrind)", scenario2);
    return bad ? 1 : 0;
}
