// obs4 -- libavoid with Router::setTransactionUse(false) (documented: "all
// actions will get processed immediately").
//
// 4.1  new ConnRef(router, src, dst): the constructor calls setEndpoints()
//      BEFORE it registers the connector with m_conn_reroute_flags, so the
//      immediate processTransaction() reaches ConnRef::generatePath() with
//      m_reroute_flag_ptr == nullptr  => COLA_ASSERT(m_reroute_flag_ptr !=
//      nullptr) fails (connector.cpp).  [The one-argument constructor followed
//      by setEndpoints(), as used by tests/latesetup.cpp, is fine.]
// 4.2  deleteShape() of a shape that owns a connection pin: processActions()
//      deletes the shape, ~Obstacle deletes the pin, ~ShapeConnectionPin calls
//      Obstacle::removeConnectionPin() -> Router::modifyConnectionPin() which,
//      not being in a transaction, calls processTransaction() RE-ENTRANTLY from
//      inside processActions(); the nested run finds the same ShapeRemove action
//      and calls removeFromGraph() on the half-destroyed shape (m_first_vert ==
//      nullptr)  => null pointer dereference / segmentation fault.
#include "libavoid/libavoid.h"
#include "c15d_obs_common.h"
using namespace Avoid;

static int scenario1(void)
{
    Router *router = new Router(OrthogonalRouting);
    router->setTransactionUse(false);
    new ConnRef(router, ConnEnd(Point(0,0)), ConnEnd(Point(100,100)));  // <- assertion
    delete router;
    return 0;
}

static int scenario2(void)
{
    Router *router = new Router(OrthogonalRouting);
    router->setTransactionUse(false);
    Rectangle r1(Point(0,0), Point(50,50));     ShapeRef *s1 = new ShapeRef(router, r1);
    new ShapeConnectionPin(s1, 1, ATTACH_POS_RIGHT, ATTACH_POS_CENTRE, true, 0, ConnDirRight);
    router->deleteShape(s1);                    // <- crash
    delete router;
    return 0;
}

int main(void)
{
    int bad = 0;
    bad |= runScenario("obs4.1 non-transaction router, ConnRef(router, src, dst)", scenario1);
    bad |= runScenario("obs4.2 non-transaction router, deleteShape of a shape with a pin", scenario2);
    return bad ? 1 : 0;
}
