// C15/C20: vpsc::Constraint::lm is never initialised by the constructor; operator<< prints it for any
// constraint whose variables have blocks, including constraints that never became active.
// build: g++ -std=gnu++11 -g -I/repo/cola c15_constraint_lm_print.cpp -L/repo/cola/libvpsc/.libs -lvpsc
// run:   valgrind -q --error-exitcode=9 ./a.out  (before the fix: uninitialised value used while formatting lm)
#include <cstddef>
#include <vector>
#include "libvpsc/solve_VPSC.h"
#include "libvpsc/variable.h"
#include "libvpsc/constraint.h"
#include <iostream>
#include <sstream>
int main() {
    vpsc::Variables vs; vpsc::Constraints cs;
    vs.push_back(new vpsc::Variable(0, 0, 1)); vs.push_back(new vpsc::Variable(1, 10, 1));
    cs.push_back(new vpsc::Constraint(vs[0], vs[1], 1));   // already satisfied: never active, lm never written
    vpsc::IncSolver s(vs, cs); s.solve();
    std::ostringstream os; os << *cs[0];
    std::cout << os.str() << std::endl;
    return 0;
}
