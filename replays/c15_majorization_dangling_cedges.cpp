// Build: clang++ -std=gnu++11 -g -O0 -fsanitize=address -fsanitize-address-use-after-scope -I/repo/cola -DHAVE_CONFIG_H this.cpp /repo/cola/libcola/cola.cpp libcola.a libvpsc.a ; run with ASAN_OPTIONS=detect_stack_use_after_return=1
// At 7e98d1b: "stack-use-after-return ... in straightener::generateConstraints ... cedges (line 342)" on the second run(); clean after d4ce68a.
// C15 replay: cola::ConstrainedMajorizationLayout::run() stores the address of a loop-local vector in the member
// `straightenEdges` (cola.cpp: straightenEdges = &cedges) when non-overlapping clusters are requested; the pointer
// outlives the iteration and the call, and is dereferenced by the next iteration / the next run().
#include <libcola/cola.h>
#include <cstdio>
using namespace cola;
using namespace std;
int main() {
    vector<vpsc::Rectangle*> rs; vector<Edge> es;
    RectangularCluster &rc = *new RectangularCluster, &rd = *new RectangularCluster; RootCluster root;
    for (unsigned i = 0; i < 5; i++) { double x = 17.0 * i, y = 11.0 * ((i * 3) % 5); rs.push_back(new vpsc::Rectangle(x, x + 20, y, y + 15)); }
    for (unsigned i = 0; i + 1 < 5; i++) es.push_back(Edge(i, i + 1));
    rc.nodes.insert(0); rc.nodes.insert(4); rd.nodes.insert(1); rd.nodes.insert(2); rd.nodes.insert(3);
    root.clusters.push_back(&rc); root.clusters.push_back(&rd);
    TestConvergence test(0.0001, 5);
    ConstrainedMajorizationLayout alg(rs, es, &root, 30, StandardEdgeLengths, &test);
    alg.setNonOverlappingClusters();
    alg.run();
    printf("first run done\n"); fflush(stdout);
    alg.run();          // straightenEdges still points into the dead frame of the first call
    printf("second run done\n");
    return 0;
}
