// c15e obs4 -- cola::ConstrainedFDLayout::makeFeasible() with a caller-supplied topology (ColaTopologyAddon built
// from Nodes and routes) and setAvoidNodeOverlaps(true): ColaTopologyAddon::makeFeasible() replaces the addon's
// Node vector by freshly allocated Nodes, while the routes' EdgePoints keep pointing at the caller's Nodes.  The
// following run() gives solver variables to the new Nodes only and dereferences the null `var' of the old ones
// (Node::finalPos / BendConstraint) -- SIGSEGV in an ordinary build, no memory checker needed.  The replacement
// Nodes are leaked as well.  Exit 1 = defect present.
#include "obs_common.h"
#include <vector>
#include "libcola/cola.h"
#include "libtopology/topology_graph.h"
#include "libtopology/cola_topology_addon.h"
using namespace cola;
static int scenario(void)
{
    std::vector<vpsc::Rectangle*> rs;
    rs.push_back(new vpsc::Rectangle(0, 20, 0, 20));
    rs.push_back(new vpsc::Rectangle(200, 220, 100, 120));
    rs.push_back(new vpsc::Rectangle(80, 120, 50, 90));     // in the way of the edge 0-1
    std::vector<Edge> es; es.push_back(Edge(0, 1));
    topology::Nodes vs;
    for (size_t i = 0; i < rs.size(); ++i) vs.push_back(new topology::Node(i, rs[i]));
    topology::EdgePoints ps;                                  // 0 -> round the bottom right corner of 2 -> 1
    ps.push_back(new topology::EdgePoint(vs[0], topology::EdgePoint::CENTRE));
    ps.push_back(new topology::EdgePoint(vs[2], topology::EdgePoint::BR));
    ps.push_back(new topology::EdgePoint(vs[1], topology::EdgePoint::CENTRE));
    topology::Edges tes; tes.push_back(new topology::Edge(0, 100, ps));
    {
        TestConvergence done(0.0001, 20);
        ConstrainedFDLayout alg(rs, es, 100, StandardEdgeLengths, &done);
        alg.setAvoidNodeOverlaps(true);
        topology::ColaTopologyAddon topology(vs, tes);
        alg.setTopology(&topology);
        alg.makeFeasible();          // without this call the program is clean
        alg.run();
    }
    for (size_t i = 0; i < tes.size(); ++i) delete tes[i];
    for (size_t i = 0; i < vs.size(); ++i) delete vs[i];
    for (size_t i = 0; i < rs.size(); ++i) delete rs[i];
    return 0;
}
int main(void) { return runScenario("obs4 makeFeasible with caller's topology", scenario); }
