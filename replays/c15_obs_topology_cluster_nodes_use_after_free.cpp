/*
 * obs2 -- UNMODIFIED adaptagrams: TopologyConstraints given a cluster hierarchy
 * with a RectangularCluster keeps pointers to temporary Node objects that its
 * constructor has already deleted (topology_constraints_constructor.cpp: the
 * "clusterNodes" created by recCreateTopologyClusterNodes() are referenced by
 * the StraightConstraints/TriConstraints made during the scan and are freed at
 * the end of the constructor).  The first solve() then reads freed memory.
 *
 *   S centre (300,-50), T centre (300,250), straight edge S -> T
 *   M = [100,200] x [50,150], the only member of one RectangularCluster
 *   (the edge runs alongside the cluster, so the scan creates constraints
 *    between the edge segment and the two cluster side "nodes")
 *
 * Observed: segmentation fault in the plain build; with -fsanitize=address
 * "heap-use-after-free ... Node::initialPos ... freed by ... TopologyConstraints::
 * TopologyConstraints ... topology_constraints_constructor.cpp:717".
 * This is the path ColaTopologyAddon::applyForcesAndConstraints()/moveTo() take
 * when the layout has a cluster hierarchy (layout->clusterHierarchy is passed on).
 *
 * Exit status: 1 = defect present (crash), 0 = clean.
 */
#include <cstdio>
#include <csignal>
#include <unistd.h>
#include <vector>
#include <libvpsc/rectangle.h>
#include <libvpsc/variable.h>
#include <libvpsc/constraint.h>
#include <libcola/cola.h>
#include <libcola/cluster.h>
#include <libtopology/topology_graph.h>
#include <libtopology/topology_constraints.h>
using namespace topology;
static void onCrash(int sig) {
    const char msg[] = "FAIL: crashed inside TopologyConstraints::solve() (dangling cluster Node pointers)\n";
    (void) !write(1, msg, sizeof msg - 1);
    (void) sig;
    _exit(1);
}
static Node* addNode(Nodes& vs, double x, double X, double y, double Y) {
    Node* v = new Node(vs.size(), new vpsc::Rectangle(x, X, y, Y), new vpsc::Variable(vs.size()));
    vs.push_back(v);
    return v;
}
int main() {
    signal(SIGSEGV, onCrash); signal(SIGABRT, onCrash); signal(SIGBUS, onCrash);
    setvbuf(stdout, nullptr, _IONBF, 0);
    Nodes nodes;
    Node* S = addNode(nodes, 290, 310, -60, -40);
    Node* T = addNode(nodes, 290, 310, 240, 260);
    addNode(nodes, 100, 200, 50, 150);
    EdgePoints ps;
    ps.push_back(new EdgePoint(S, EdgePoint::CENTRE));
    ps.push_back(new EdgePoint(T, EdgePoint::CENTRE));
    Edges es; es.push_back(new Edge(0, 100, ps));
    vpsc::Rectangles rs;
    for (size_t i = 0; i < nodes.size(); ++i) rs.push_back(nodes[i]->rect);
    cola::RootCluster root;
    cola::RectangularCluster* c = new cola::RectangularCluster();
    c->addChildNode(2);
    root.addChildCluster(c);
    root.computeBoundingRect(rs);
    vpsc::Variables vs; getVariables(nodes, vs);
    root.createVars(vpsc::HORIZONTAL, rs, vs);   // as cola::setupVarsAndConstraints does
    vpsc::Constraints cs;
    {
        TopologyConstraints t(vpsc::HORIZONTAL, nodes, es, &root, vs, cs);
        for (size_t i = 0; i < nodes.size(); ++i) {
            vs[i]->desiredPosition = nodes[i]->rect->getCentreX();
            vs[i]->weight = 1;
        }
        int it = 0;
        while (t.solve() && ++it < 20) { }
    }
    printf("PASS: solve() completed\n");
    return 0;
}
