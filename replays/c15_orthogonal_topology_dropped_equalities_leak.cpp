// c15e obs8 -- topology::AvoidTopologyAddon::improveOrthogonalTopology() (orthogonal_topology.cpp,
// setupOrthogonalLayoutConstraints): an equality constraint that the solver reports as unsatisfiable although it is
// (almost) satisfied -- "we know these occur due to cycles of equalities" -- is taken out of the `valid' list with
//     it = valid.erase(it);
// but never deleted, and `valid' was its only owner (the constraints come from processLayoutConstraintEvent(),
// orthogonal_topology.cpp:726).  Needs a leak checker.
// The scene is the repository's own test libtopology/tests/orthogonalOpt.cpp, included here unchanged (I did not
// find a small scene that produces a cycle of equalities); it frees everything it creates itself, and under
// LeakSanitizer reports 616 bytes in 11 vpsc::Constraint objects.  Compile with -I<worktree>/cola.
// Exit 1 = defect present.
#include "obs_common.h"
#include <sys/stat.h>
#define main orthogonalOpt_main
#include "libtopology/tests/orthogonalOpt.cpp"
#undef main
static int scenario(void) { mkdir("output", 0777); return orthogonalOpt_main(); }
int main(void) { return runScenario("obs8 improveOrthogonalTopology drops equality constraints", scenario); }
