// obs1 -- libavoid: ShapeRef::transformConnectionPinPositions() changes the
// sort keys of the pins while they sit in the shape's ordered pin set.
//
// Obstacle::m_connection_pins is a std::set<ShapeConnectionPin*, CmpConnPinPtr>
// ordered by ShapeConnectionPin::operator< (class id, visibility directions,
// x offset, y offset, inside offset).  transformConnectionPinPositions()
// rewrites m_x_offset / m_y_offset / m_visibility_directions of every pin IN
// PLACE, so afterwards the red-black tree is no longer ordered by its own
// comparator and erase(pin) can miss a pin that is in the set.
// ~ShapeConnectionPin relies on Obstacle::removeConnectionPin() erasing it;
// ~Obstacle loops `while (!m_connection_pins.empty()) delete *begin();`.
// With three pins of one class and one direction whose x offsets are mirrored
// by FlipX the left-most tree node is no longer found, stays in the set after
// it was deleted and is deleted again: heap-use-after-free + double free (a
// segmentation fault even in an uninstrumented build).
//
// Only documented calls: new ShapeConnectionPin x3, processTransaction,
// transformConnectionPinPositions(TransformationType_FlipX), delete router.
#include "libavoid/libavoid.h"
#include "c15d_obs_common.h"
using namespace Avoid;

static int scenario(void)
{
    Router *router = new Router(OrthogonalRouting);
    Rectangle rect(Point(0, 0), Point(100, 50));
    ShapeRef *shape = new ShapeRef(router, rect);
    new ShapeConnectionPin(shape, 1, 0.2, ATTACH_POS_TOP, true, 0, ConnDirUp);
    new ShapeConnectionPin(shape, 1, 0.5, ATTACH_POS_TOP, true, 0, ConnDirUp);
    new ShapeConnectionPin(shape, 1, 0.8, ATTACH_POS_TOP, true, 0, ConnDirUp);
    router->processTransaction();
    shape->transformConnectionPinPositions(TransformationType_FlipX);
    router->processTransaction();
    delete router;            // <- pins are deleted twice here
    return 0;
}

int main(void)
{
    return runScenario("obs1 transformConnectionPinPositions + delete router", scenario);
}
