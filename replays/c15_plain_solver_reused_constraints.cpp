// Observation 2: the plain vpsc::Solver (unlike IncSolver) does not clear
// Constraint::active in its constructor.  Solving the same problem a second
// time with the same Variable / Constraint objects (a new Solver over the same
// vectors, which is what IncSolver supports and what libcola does every
// iteration) starts with the active flags left behind by the first solve.
// The stale flags make the "active constraint tree" of a block cyclic and
// Block::reset_active_lm()/compute_dfdv() recurse without end: the second,
// identical solve crashes (stack overflow) instead of returning the same
// positions.
//
// The work is done in a child process so that the crash can be reported:
//   1. the fixed 5-variable / 8-constraint instance below is solved twice
//      with two successive Solver objects over the same vs/cs;
//   2. the same is done for 400 small pseudo-random acyclic instances
//      (own LCG, so the instances are the same on every platform).
// Each second solve must return exactly the positions of the first.
//
// Exit code 0: defect absent.  Exit code 1: defect present (second solve
// crashed or returned different positions).
// Pass any argument to use IncSolver instead of Solver (always passes).
#include <cstddef>
#include "libvpsc/solve_VPSC.h"
#include "libvpsc/variable.h"
#include "libvpsc/constraint.h"
#include <cstdio>
#include <vector>
#include <sys/types.h>
#include <sys/wait.h>
#include <unistd.h>
using namespace vpsc;

static unsigned lcgState = 12345;
static unsigned lcg(unsigned mod)
{
    lcgState = lcgState * 1103515245u + 12345u;
    return (lcgState >> 16) % mod;
}

template <class S>
static std::vector<double> solveOnce(Variables& vs, Constraints& cs)
{
    S s(vs, cs);
    s.solve();
    std::vector<double> r;
    for (size_t i = 0; i < vs.size(); ++i)
    {
        r.push_back(vs[i]->finalPosition);
    }
    return r;
}

// Returns true if the two solves agree.
template <class S>
static bool solveTwice(const char *label, Variables& vs, Constraints& cs,
        bool verbose)
{
    std::vector<double> first = solveOnce<S>(vs, cs);
    if (verbose)
    {
        printf("%s first :", label);
        for (size_t i = 0; i < first.size(); ++i) printf(" %.10g", first[i]);
        printf("\n%s active flags left behind:", label);
        for (size_t k = 0; k < cs.size(); ++k) printf(" %d", (int) cs[k]->active);
        printf("\n");
        fflush(stdout);
    }
    std::vector<double> second = solveOnce<S>(vs, cs);
    if (verbose)
    {
        printf("%s second:", label);
        for (size_t i = 0; i < second.size(); ++i) printf(" %.10g", second[i]);
        printf("\n");
        fflush(stdout);
    }
    return first == second;
}

static void freeProblem(Variables& vs, Constraints& cs)
{
    for (size_t i = 0; i < cs.size(); ++i) delete cs[i];
    for (size_t i = 0; i < vs.size(); ++i) delete vs[i];
    vs.clear();
    cs.clear();
}

template <class S>
static int child(void)
{
    Variables vs;
    Constraints cs;

    // 1. Fixed instance.
    const double des[5] = { 30, 19, 10, 34, 5 };
    const double wt[5] = { 3, 2, 2, 1, 1 };
    const int con[8][3] = { {1,2,5}, {0,3,3}, {1,2,3}, {3,4,9}, {3,4,1},
                            {0,2,8}, {1,3,9}, {1,2,8} };
    for (int i = 0; i < 5; ++i)
    {
        vs.push_back(new Variable(i, des[i], wt[i]));
    }
    for (int k = 0; k < 8; ++k)
    {
        cs.push_back(new Constraint(vs[con[k][0]], vs[con[k][1]], con[k][2]));
    }
    if (!solveTwice<S>("fixed instance:", vs, cs, true))
    {
        printf("second solve of the fixed instance differs\n");
        return 1;
    }
    freeProblem(vs, cs);

    // 2. Pseudo-random acyclic instances (constraints go from lower to
    //    higher variable index).
    for (int t = 0; t < 400; ++t)
    {
        int n = 3 + lcg(5);
        for (int i = 0; i < n; ++i)
        {
            vs.push_back(new Variable(i, lcg(40), 1 + lcg(3)));
        }
        int m = 2 + lcg(8);
        for (int k = 0; k < m; ++k)
        {
            int a = lcg(n), b = lcg(n);
            if (a == b) continue;
            if (a > b) std::swap(a, b);
            cs.push_back(new Constraint(vs[a], vs[b], 1 + lcg(10)));
        }
        if (!solveTwice<S>("", vs, cs, false))
        {
            printf("second solve of instance %d differs\n", t);
            return 1;
        }
        freeProblem(vs, cs);
    }
    return 0;
}

int main(int argc, char **)
{
    fflush(stdout);
    pid_t pid = fork();
    if (pid == 0)
    {
        int rc = (argc > 1) ? child<IncSolver>() : child<Solver>();
        fflush(stdout);
        _exit(rc);
    }
    int status = 0;
    waitpid(pid, &status, 0);
    if (WIFSIGNALED(status))
    {
        printf("DEFECT PRESENT: a second, identical solve was killed by "
               "signal %d\n", WTERMSIG(status));
        return 1;
    }
    if (!WIFEXITED(status) || (WEXITSTATUS(status) != 0))
    {
        printf("DEFECT PRESENT: a second, identical solve gave different "
               "positions\n");
        return 1;
    }
    printf("ok: every second solve returned the positions of the first\n");
    return 0;
}
