// c15e obs1 -- dialect::Graph::projectOntoSepCo() leaks the cola constraints it generates.
// Needs a leak checker (LeakSanitizer build, or valgrind --leak-check=full --error-exitcode=1).
// Exit 1 = defect present.
#include "obs_common.h"
#include "libdialect/graphs.h"
#include "libdialect/constraints.h"
#include "libdialect/opts.h"
using namespace dialect;

static int positiveGap(void)
{
    Graph G;
    Node_SP a = G.addNode(0, 0, 20, 20), b = G.addNode(50, 5, 20, 20);
    G.addEdge(a, b);
    ColaOptions opts;
    // "b is exactly level with a": one cola::SeparationConstraint is generated.
    SepCo_SP sc = std::make_shared<SepCo>(vpsc::YDIM, a, b, 0, true);
    int err = G.projectOntoSepCo(opts, sc);
    return err;   // 0: projection worked
}
static int negativeGap(void)
{
    Graph G;
    Node_SP a = G.addNode(0, 0, 20, 20), b = G.addNode(50, 5, 20, 20);
    G.addEdge(a, b);
    ColaOptions opts;
    // A negative gap is realised by two AlignmentConstraints and a SeparationConstraint.
    SepCo_SP sc = std::make_shared<SepCo>(vpsc::XDIM, a, b, -10, false);
    int err = G.projectOntoSepCo(opts, sc);
    return err;
}
int main(void)
{
    int bad = 0;
    bad |= runScenario("obs1.1 projectOntoSepCo, gap >= 0", positiveGap);
    bad |= runScenario("obs1.2 projectOntoSepCo, gap < 0", negativeGap);
    return bad;
}
