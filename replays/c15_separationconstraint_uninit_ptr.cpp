// C15: cola::SeparationConstraint(dim, AlignmentConstraint*, AlignmentConstraint*, gap, equality) leaves
// vpscConstraint indeterminate; setSeparation() tests and stores through it.
// build: g++ -std=gnu++11 -g -I/repo/cola c15_separationconstraint_uninit_ptr.cpp -L/repo/cola/libcola/.libs -lcola -L/repo/cola/libvpsc/.libs -lvpsc
// run:   valgrind -q --error-exitcode=9 ./a.out   (before the fix: "Conditional jump or move depends on uninitialised value(s)" in setSeparation)
#include "libcola/cola.h"
#include <cstdlib>
#include <cstring>
int main() {
    // poison the heap so that the stale pointer is non-null
    for (int i = 0; i < 64; ++i) { void *p = malloc(96); memset(p, 0xAB, 96); free(p); }
    cola::AlignmentConstraint *a1 = new cola::AlignmentConstraint(vpsc::XDIM, 0);
    cola::AlignmentConstraint *a2 = new cola::AlignmentConstraint(vpsc::XDIM, 0);
    cola::SeparationConstraint *sc = new cola::SeparationConstraint(vpsc::XDIM, a1, a2, 10.0, false);
    sc->setSeparation(20.0);   // reads indeterminate vpscConstraint, may write through it
    return 0;
}
