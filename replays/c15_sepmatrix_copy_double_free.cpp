// obs3 (UNMODIFIED code): `SepMatrix(const SepMatrix&) = default` (and the implicit copy assignment) copy the vector
// cola::CompoundConstraint::_subConstraintInfo, which holds OWNING raw pointers (deleted by ~CompoundConstraint and by
// SepMatrix::markAllSubConstraintsAsInactive).  After makeFeasible has populated that vector, every copy of the Graph
// (explicit, or the internal copies made for ColaOptions::solidifyAlignedEdges) shares the pointers -> double free.
//
// Deterministic: the program looks at the (protected) vector through a pointer to member and never lets a double free
// happen: exit 1 = defect present (a copy shares SubConstraintInfo pointers with its source; we _exit before any
// destructor runs), exit 0 = absent (no sharing; all graphs are then destroyed normally).
#include <iostream>
#include <set>
#include <unistd.h>
#include "libcola/compound_constraints.h"
#include "libdialect/graphs.h"
#include "libdialect/constraints.h"
using namespace dialect;

// Never instantiated; only used to obtain an accessible pointer to the protected member.
struct Probe : public SepMatrix { using SepMatrix::_subConstraintInfo; };

static const cola::SubConstraintInfoList &infos(SepMatrix &m) {
    return m.*(&Probe::_subConstraintInfo);
}

static size_t shared(SepMatrix &x, SepMatrix &y) {
    std::set<cola::SubConstraintInfo*> s(infos(x).begin(), infos(x).end());
    size_t n = 0;
    for (cola::SubConstraintInfo *p : infos(y)) n += s.count(p);
    return n;
}

int main() {
    bool defect = false;
    {
        Graph G;
        Node_SP a = G.addNode(0,0,30,30), b = G.addNode(10,0,30,30);
        G.addEdge(a,b);
        G.getSepMatrix().addSep(a->id(), b->id(), GapType::BDRY, SepDir::EAST, SepType::INEQ, 0.0);
        ColaOptions opts;
        G.makeFeasible(opts);
        std::cout << "after makeFeasible: b.x - a.x = " << b->getCentre().x - a->getCentre().x
                  << ", G's matrix owns " << infos(G.getSepMatrix()).size() << " SubConstraintInfo(s)" << std::endl;

        // (a) copy construction
        Graph H(G);
        size_t n = shared(G.getSepMatrix(), H.getSepMatrix());
        std::cout << "(a) Graph H(G):            shared SubConstraintInfo pointers: " << n << std::endl;
        defect |= n > 0;

        // (b) Graph assignment (copy-and-swap; the swap uses SepMatrix's copy constructor and assignment)
        Graph H2;
        H2 = G;
        n = shared(G.getSepMatrix(), H2.getSepMatrix());
        std::cout << "(b) H2 = G:                shared SubConstraintInfo pointers: " << n << std::endl;
        defect |= n > 0;

        // (c) plain SepMatrix assignment
        Graph K;
        SepMatrix M(&K);
        M = G.getSepMatrix();
        n = shared(G.getSepMatrix(), M);
        std::cout << "(c) SepMatrix M; M = G's:  shared SubConstraintInfo pointers: " << n << std::endl;
        defect |= n > 0;
        M.setGraph(&K);

        if (defect) {
            std::cout << "DEFECT: copies share owning SubConstraintInfo pointers (double free on destruction / next makeFeasible)" << std::endl;
            std::cout.flush();
            _exit(1);   // do not run the destructors
        }

        // No sharing: the copies must still work, and everything must be destructible.
        a->setCentre(0, 0); b->setCentre(10, 0);
        H.makeFeasible(opts);
        double d = b->getCentre().x - a->getCentre().x;
        std::cout << "H.makeFeasible: b.x - a.x = " << d << " (need >= 30)" << std::endl;
        if (d < 30 - 1e-6) { std::cout << "DEFECT: copy does not enforce the constraint" << std::endl; std::cout.flush(); _exit(1); }

        // (d) The same through public Graph methods only (only reached when (a)-(c) are fine; on the unmodified
        // code this sequence frees G's SubConstraintInfos when the internal copy dies, and again in G):
        // makeFeasible on G itself, then an operation with solidifyAlignedEdges, which works on `Graph H(*this)`.
        ColaOptions solid;
        solid.solidifyAlignedEdges = true;
        G.project(solid, vpsc::XDIM);
        G.makeFeasible(opts);
        std::cout << "(d) G.makeFeasible; G.project(solidifyAlignedEdges); G.makeFeasible: survived" << std::endl;
    }
    std::cout << "all graphs destroyed normally" << std::endl;
    return 0;
}
