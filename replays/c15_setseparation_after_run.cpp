// obs2 -- libcola: SeparationConstraint::setSeparation() after a layout run
// writes into a vpsc::Constraint the layout has already freed.
//
// SeparationConstraint::generateSeparationConstraints() remembers the
// vpsc::Constraint it creates in the member `vpscConstraint`; the layout
// (ConstrainedFDLayout::moveTo / applyForcesAndConstraints, projectOntoCCs,
// ~GradientProjection, ...) deletes all generated constraints at the end of
// every projection, but the member keeps pointing at the freed object.
// setSeparation(gap) -- the documented way to alter the gap between two runs --
// then does `vpscConstraint->gap = gap;`  => heap-use-after-free WRITE.
// (Same family: SeparationConstraint::left()/right()/toString() for a
// separation defined between two AlignmentConstraints read
// lConstraint->variable->id of a freed vpsc::Variable after a run; scenario 2.)
#include "libcola/cola.h"
#include "c15d_obs_common.h"
using namespace cola;

static int scenario1(void)
{
    vpsc::Rectangles rs;
    for (int i = 0; i < 3; ++i) rs.push_back(new vpsc::Rectangle(i*40, i*40+20, 0, 20));
    std::vector<Edge> es; es.push_back(Edge(0,1)); es.push_back(Edge(1,2));
    CompoundConstraints ccs;
    SeparationConstraint *sc = new SeparationConstraint(vpsc::XDIM, 0, 1, 30);
    ccs.push_back(sc);
    ConstrainedFDLayout alg(rs, es, 50);
    alg.setConstraints(ccs);
    alg.run();
    sc->setSeparation(60);          // <- writes into freed memory
    alg.run();
    alg.freeAssociatedObjects();
    return 0;
}

static int scenario2(void)
{
    vpsc::Rectangles rs;
    for (int i = 0; i < 4; ++i) rs.push_back(new vpsc::Rectangle(i*40, i*40+20, (i%2)*50, (i%2)*50+20));
    std::vector<Edge> es; es.push_back(Edge(0,1)); es.push_back(Edge(2,3));
    CompoundConstraints ccs;
    AlignmentConstraint *a1 = new AlignmentConstraint(vpsc::XDIM);
    a1->addShape(0, 0); a1->addShape(1, 0);
    AlignmentConstraint *a2 = new AlignmentConstraint(vpsc::XDIM);
    a2->addShape(2, 0); a2->addShape(3, 0);
    SeparationConstraint *sc = new SeparationConstraint(vpsc::XDIM, a1, a2, 80);
    ccs.push_back(a1); ccs.push_back(a2); ccs.push_back(sc);
    ConstrainedFDLayout alg(rs, es, 50);
    alg.setConstraints(ccs);
    alg.run();
    std::string s = sc->toString();  // <- reads freed vpsc::Variable
    printf("%s (left=%u right=%u)\n", s.c_str(), sc->left(), sc->right());
    alg.freeAssociatedObjects();
    return 0;
}

int main(void)
{
    int bad = 0;
    bad |= runScenario("obs2.1 SeparationConstraint::setSeparation after run", scenario1);
    bad |= runScenario("obs2.2 SeparationConstraint::toString/left/right (alignment pair) after run", scenario2);
    return bad ? 1 : 0;
}
