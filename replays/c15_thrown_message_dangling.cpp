// c15e obs9 -- libvpsc
//  9.1 vpsc::Variable::block is left pointing at a Block of the destroyed solver: printing a Constraint / Variable
//      (operator<<), Constraint::slack() or Variable::dfdv() after the Solver / IncSolver has gone reads freed memory.
//      Needs a memory checker (ASan build / valgrind).
//  9.2 IncSolver::satisfy() ends with   throw (char *) s.str().c_str();   -- a pointer into a temporary std::string
//      that is destroyed before the handler runs (the handlers in removeoverlaps() and
//      ConstrainedFDLayout::makeFeasible() print it).  The throw is reached by a perfectly satisfiable problem as
//      soon as the coordinates are large: the active constraint below ends with slack -1.16e-10 (one ulp at 9e5),
//      which is below ZERO_UPPERBOUND = -1e-10.  The spurious exception shows in any build; reading the message needs
//      a memory checker to be flagged.
// Exit 1 = defect present.
#include "obs_common.h"
#include <cstring>
#include <sstream>
#include <vector>
#include <libvpsc/variable.h>
#include <libvpsc/constraint.h>
#include <libvpsc/solve_VPSC.h>
using namespace vpsc;
static int printAfterSolverDied(void)
{
    std::vector<Variable*> vs; std::vector<Constraint*> cs;
    vs.push_back(new Variable(0, 0, 1)); vs.push_back(new Variable(1, 1, 1));
    cs.push_back(new Constraint(vs[0], vs[1], 5));
    { IncSolver s(vs, cs); s.solve(); }
    std::ostringstream os;
    os << *cs[0];                       // reads vs[0]->block->..., a Block freed by ~Blocks()
    printf("%s\n", os.str().c_str());
    delete cs[0]; delete vs[0]; delete vs[1];
    return 0;
}
static int spuriousThrow(void)
{
    std::vector<Variable*> vs; std::vector<Constraint*> cs;
    const double base = 900002.74;
    vs.push_back(new Variable(0, base + 3, 1)); vs.push_back(new Variable(1, base, 1)); vs.push_back(new Variable(2, base - 2.3, 1));
    cs.push_back(new Constraint(vs[0], vs[1], 0.126)); cs.push_back(new Constraint(vs[1], vs[2], 0.7014));
    int rc = 0;
    IncSolver *s = new IncSolver(vs, cs);
    try {
        s->solve();
    } catch (char *msg) {
        printf("IncSolver::solve() threw for a satisfiable problem; slacks: %.3e %.3e\n", cs[0]->slack(), cs[1]->slack());
        printf("message has %u characters\n", (unsigned) strlen(msg));    // msg points into a freed std::string
        rc = 1;
    }
    delete s;
    for (size_t i = 0; i < cs.size(); ++i) delete cs[i];
    for (size_t i = 0; i < vs.size(); ++i) delete vs[i];
    return rc;
}
int main(void)
{
    int bad = 0;
    bad |= runScenario("obs9.1 operator<<(Constraint) after the solver was destroyed", printAfterSolverDied);
    bad |= runScenario("obs9.2 IncSolver throws a dangling char* at large coordinates", spuriousThrow);
    return bad;
}
