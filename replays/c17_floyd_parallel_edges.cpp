#include <vector>
#include <valarray>
#include <cstdio>
#include <libcola/shortest_paths.h>
int main(){
  using namespace shortest_paths;
  unsigned n=3;
  std::vector<Edge> es={{0,1},{0,1},{1,2},{2,2}};
  std::valarray<double> w={1.0,5.0,1.0,7.0}; // parallel edges 0-1 with weights 1 and 5; self-loop at 2
  double **D=new double*[n],**J=new double*[n];
  for(unsigned i=0;i<n;i++){D[i]=new double[n];J[i]=new double[n];}
  floyd_warshall(n,D,es,w); johnsons(n,J,es,w);
  for(unsigned i=0;i<n;i++){for(unsigned j=0;j<n;j++)printf("fw=%g jo=%g | ",D[i][j],J[i][j]);puts("");}
}
