// obs2 (UNMODIFIED code): Graph::operator= (copy-and-swap) swaps m_sepMatrix together with its m_graph back-pointer and
// does not re-point it.  After `H = G;` H's SepMatrix points at the by-value parameter of operator=, which has been
// destroyed on return; SepMatrix::generateSeparationConstraints then reads that dead Graph's ColaGraphRep.
//
// Deterministic: exit 1 = defect present (back-pointer wrong; the projection is then NOT attempted, it would be
// undefined behaviour -- in practice std::out_of_range from cgr.id2ix.at), exit 0 = absent (back-pointers right
// after assignment and after swap, and the assigned-to graph projects correctly).
#include <iostream>
#include "libdialect/graphs.h"
#include "libdialect/constraints.h"
using namespace dialect;
int main() {
    Graph G;
    Node_SP a = G.addNode(0,0,30,30), b = G.addNode(10,0,30,30);
    G.getSepMatrix().addSep(a->id(), b->id(), GapType::BDRY, SepDir::EAST, SepType::INEQ, 0.0);
    Graph H;
    H = G;
    bool okH = H.getSepMatrix().getGraph() == &H, okG = G.getSepMatrix().getGraph() == &G;
    std::cout << "after H = G: H's matrix points at H: " << okH << ", G's matrix points at G: " << okG << std::endl;
    // The swap itself (friend function, found by ADL).
    Graph K, L;
    Node_SP c = K.addNode(0,0,10,10);
    swap(K, L);
    bool okK = K.getSepMatrix().getGraph() == &K, okL = L.getSepMatrix().getGraph() == &L;
    std::cout << "after swap(K, L): K's matrix points at K: " << okK << ", L's matrix points at L: " << okL << std::endl;
    if (!(okH && okG && okK && okL)) {
        std::cout << "DEFECT: a SepMatrix points at a Graph other than its owner" << std::endl;
        return 1;
    }
    ColaOptions opts;
    H.project(opts, vpsc::XDIM);
    double d = b->getCentre().x - a->getCentre().x;
    std::cout << "after H.project: b.x - a.x = " << d << " (need >= 30)" << std::endl;
    if (d < 30 - 1e-6) { std::cout << "DEFECT: constraint not honoured by the assigned-to graph" << std::endl; return 1; }
    return 0;
}
