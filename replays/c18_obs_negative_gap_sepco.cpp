// obs4 (UNMODIFIED code): SepCo(dim, left, right, gap) means  left + gap <= right  (== if exact), and negative gaps are
// explicitly supported (constraints.h, "containment constraints").  SepCo::addToMatrix hands the gap unchanged to
// SepMatrix::addSep(left, right, CENTRE, RIGHT/DOWN, ...), but in a SepPair the SIGN BIT of the gap carries the
// direction, so an inexact gap of -100 is stored as "right at least 100 to the LEFT of left", i.e.
// right + 100 <= left -- the reverse inequality.  (For exact SepCos the reading "left - right == 100" is the same
// equation, so those are fine.)  A SepPair cannot express  right - left >= -100  at all.
//
// Deterministic: exit 1 = defect present (a placement that satisfies the SepCo is moved by a projection onto the
// matrix the SepCo was added to, or the SepCo is violated afterwards), exit 0 = absent (for every SepCo either the
// matrix enforces exactly the SepCo, or addToMatrix refuses with an exception and stores nothing).
#include <cmath>
#include <iostream>
#include <stdexcept>
#include "libdialect/graphs.h"
#include "libdialect/constraints.h"
using namespace dialect;

// One scenario on a fresh graph: a at (0,0), b at (bx,0); SepCo(x, a, b, gap, exact); returns true if all is well.
// `feasible`: the start placement satisfies the SepCo, so it must not move; otherwise the projection must end
// on a placement of zero violation.
static bool scenario(double bx, double gap, bool exact) {
    Graph G;
    Node_SP a = G.addNode(0,0,30,30), b = G.addNode(bx,0,30,30);
    SepCo_SP sc = std::make_shared<SepCo>(vpsc::XDIM, a, b, gap, exact);
    double v0 = sc->violation();
    std::cout << "SepCo: a.x + (" << gap << (exact ? ") == b.x" : ") <= b.x") << ", start b.x - a.x = " << bx
              << ", violation " << v0 << std::endl;
    try {
        sc->addToMatrix(G.getSepMatrix());
    } catch (std::runtime_error const &e) {
        std::string t = G.getSepMatrix().writeTglf(std::map<id_type, unsigned>());
        std::cout << "   addToMatrix refused: " << e.what() << (t.empty() ? "  (nothing stored)" : "  BUT STORED: " + t) << std::endl;
        return t.empty();
    }
    std::cout << "   matrix: " << G.getSepMatrix().writeTglf(std::map<id_type, unsigned>());
    ColaOptions opts;
    G.project(opts, vpsc::XDIM);
    double d = b->getCentre().x - a->getCentre().x, v1 = sc->violation();
    std::cout << "   after projecting onto the matrix: b.x - a.x = " << d << ", violation " << v1 << std::endl;
    bool ok = v1 < 1e-6;
    if (v0 == 0 && std::fabs(d - bx) > 1e-6) ok = false;   // a feasible placement must stay
    if (!ok) std::cout << "   WRONG" << std::endl;
    return ok;
}

int main() {
    bool ok = true;
    // inexact, negative gap: feasible placement must stay; infeasible one must become feasible
    ok &= scenario(-50, -100.0, false);
    ok &= scenario(-150, -100.0, false);
    // inexact, negative zero: same as gap 0
    ok &= scenario(20, -0.0, false);
    ok &= scenario(-20, -0.0, false);
    // exact, negative gap (representable: left - right == 100)
    ok &= scenario(-50, -100.0, true);
    // positive gaps, for reference
    ok &= scenario(50, 100.0, false);
    ok &= scenario(150, 100.0, false);
    ok &= scenario(50, 100.0, true);
    if (!ok) { std::cout << "DEFECT: SepCo::addToMatrix stores a constraint different from the SepCo" << std::endl; return 1; }
    std::cout << "all scenarios fine" << std::endl;
    return 0;
}
