// obs1 (UNMODIFIED code): Graph::updateColaGraphRep() rebuilds the vpsc::Rectangles only when the *set* of nodes has
// changed (m_needNewRectangles).  After a first projection the rectangles are therefore never refreshed from the Nodes:
// a later projection translates BDRY gaps with the OLD half extents (and starts from, and writes back, the OLD
// positions).  So the generated VPSC constraint "left + (w_l + w_r)/2 + gap <= right" uses stale widths.
#include <iostream>
#include "libdialect/graphs.h"
#include "libdialect/constraints.h"
using namespace dialect;
int main() {
    Graph G;
    Node_SP a = G.addNode(0,0,30,30), b = G.addNode(10,0,30,30);
    G.getSepMatrix().addSep(a->id(), b->id(), GapType::BDRY, SepDir::EAST, SepType::INEQ, 0.0);
    ColaOptions opts;
    G.project(opts, vpsc::XDIM);
    std::cout << "after 1st project: a.x=" << a->getCentre().x << " b.x=" << b->getCentre().x << " (need >= 30 apart)\n";
    // Now the nodes grow (as Graph::padAllNodes / Node::setDims / Node::addPadding do) and are moved.
    a->setDims(100,30); b->setDims(100,30);
    a->setCentre(0,0); b->setCentre(10,0);
    G.project(opts, vpsc::XDIM);
    double d = b->getCentre().x - a->getCentre().x;
    std::cout << "after 2nd project: a.x=" << a->getCentre().x << " b.x=" << b->getCentre().x
              << "  b.x-a.x=" << d << " (need >= 100: boundary gap 0 between two nodes of width 100)\n";
    if (d < 100 - 1e-6) { std::cout << "VIOLATED: BDRY constraint translated with stale half extents\n"; return 1; }
    return 0;
}
