#include <iostream>
#include <libdialect/graphs.h>
#include <libdialect/constraints.h>
using namespace dialect;
int main(){
  Graph G;
  Node_SP a = Node::allocate(10,10), b = Node::allocate(10,10);
  G.addNode(a); G.addNode(b);
  id_type ia=a->id(), ib=b->id();           // ia < ib
  SepMatrix &m = G.getSepMatrix();
  // History 1: say directly "b is EAST of a by >= 50" using descending id order on a fresh pair.
  {
    Graph H; Node_SP c=Node::allocate(10,10), d=Node::allocate(10,10); H.addNode(c); H.addNode(d);
    SepMatrix &mh=H.getSepMatrix();
    mh.addSep(d->id(), c->id(), GapType::CENTRE, SepDir::EAST, SepType::INEQ, 50);   // (larger,smaller): "c is east of d"
    std::cout << "fresh pair, ids given descending : " << mh.writeTglf({}) ;
  }
  // History 2: same statement, but the pair already exists because an earlier (ascending) call touched it.
  m.addSep(ia, ib, GapType::CENTRE, SepDir::SOUTH, SepType::INEQ, 5);                // creates the pair (ia,ib)
  m.addSep(ib, ia, GapType::CENTRE, SepDir::EAST,  SepType::INEQ, 50);               // overwrite: "a is east of b"
  std::cout << "existing pair, ids given descending: " << m.writeTglf({});
  return 0;
}
