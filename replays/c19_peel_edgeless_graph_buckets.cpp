// obs1: peel() on a graph without edges (the simplest case: a single node, which is a connected simple graph)
// indexes NodeBuckets::m_buckets[1] although the vector has only one element.
//
// NodeBuckets allocates m_maxDegree + 1 buckets (peeling.cpp, NodeBuckets::NodeBuckets).  With maximum degree 0
// that is a single bucket, but peel() begins with buckets.takeLeaves(), which copies and clears m_buckets[1].
// That is a read and a write past the end of the vector's storage (undefined behaviour; AddressSanitizer reports
// a heap-buffer-overflow in NodeBuckets::takeLeaves, and without it the outcome depends on the heap contents:
// usually "no leaves", sometimes a crash -- a random tester of mine crashed with SIGSEGV on it).
//
// To stay deterministic this program does not execute the bad access.  It looks at the public NodeBuckets
// object that peel() would build: if it has fewer than two buckets the defect is present (exit 1).  Only when
// there are at least two buckets does it go on and call peel() and check the result (0 trees, core = the node).
#include <iostream>
#include "libdialect/graphs.h"
#include "libdialect/peeling.h"
#include "libdialect/trees.h"
using namespace dialect;

int main(void) {
    Graph G;
    Node_SP u = G.addNode(30, 30);
    std::cout << "graph with 1 node, 0 edges; max degree " << G.getMaxDegree() << "\n";
    {
        NodeBuckets buckets(G);
        std::cout << "NodeBuckets has " << buckets.m_buckets.size() << " bucket(s); takeLeaves() uses m_buckets[1]\n";
        if (buckets.m_buckets.size() < 2) {
            std::cout << "DEFECT PRESENT: peel() would read and clear m_buckets[1] past the end of the vector\n";
            return 1;
        }
    }
    Trees trees = peel(G);
    std::cout << "peel: " << trees.size() << " tree(s), core of " << G.getNumNodes() << " node(s)\n";
    if (trees.size() != 0 || G.getNumNodes() != 1 || !G.hasNode(u->id())) {
        std::cout << "unexpected result\n";
        return 1;
    }
    std::cout << "clean\n";
    return 0;
}
