// Observation 2 (unmodified code): planarising the same graph a second time, after its connectors have
// been re-routed to straight (two-point) routes with Edge::setRoute(), uses the STALE bend nodes that the
// first planarisation left in the Edges (Graph::buildUniqueBendPoints only overwrites the bend nodes of
// edges whose route has at least three points).  The second planarise() then throws std::out_of_range
// ("map::at") because those bend nodes are not in its work graph.
//
// exit 1 = defect present, exit 0 = clean.
#include <iostream>
#include <stdexcept>
#include "libdialect/graphs.h"
#include "libdialect/planarise.h"
using namespace dialect;
using Avoid::Point;

int main() {
    Graph_SP G = std::make_shared<Graph>();
    Node_SP a = G->addNode(0, 0, 6, 6), b = G->addNode(100, 100, 6, 6),
            c = G->addNode(0, 100, 6, 6), d = G->addNode(100, 0, 6, 6);
    Edge_SP e = G->addEdge(a, b), f = G->addEdge(c, d);
    e->setRoute({Point(0,0), Point(50,0), Point(50,100), Point(100,100)});
    f->setRoute({Point(0,100), Point(0,50), Point(100,50), Point(100,0)});
    {
        OrthoPlanariser op(G);
        Graph_SP P = op.planarise();
        std::cout << "first planarisation: " << P->getNumNodes() << " nodes, " << P->getNumEdges() << " edges\n";
    }
    // Move two nodes so that both edges are now straight, and give them straight routes.
    b->setCentre(100, 0);
    d->setCentre(100, 100);
    e->setRoute({Point(0,0), Point(100,0)});
    f->setRoute({Point(0,100), Point(100,100)});
    try {
        OrthoPlanariser op(G);
        Graph_SP P = op.planarise();
        std::cout << "second planarisation: " << P->getNumNodes() << " nodes, " << P->getNumEdges() << " edges\n";
        if (P->getNumNodes() != 4 || P->getNumEdges() != 2) { std::cout << "DEFECT PRESENT: expected 4 nodes and 2 edges\n"; return 1; }
    } catch (std::exception &ex) {
        std::cout << "second planarisation threw: " << ex.what() << "\nDEFECT PRESENT\n";
        return 1;
    }
    std::cout << "clean\n";
    return 0;
}
