// Observation (unmodified code): OrthoPlanariser invents crossings -- and re-wires edges through them --
// when the routed graph contains an edge segment that is shorter than the sweep tolerances
// (vertical segment of length <= 1.0, horizontal segment of length <= 0.8, or a zero-length segment
// between two distinct coincident nodes).
//
// exit 1 = defect present, exit 0 = clean.
#include <iostream>
#include <vector>
#include <set>
#include <map>
#include <deque>
#include <cmath>
#include "libdialect/graphs.h"
#include "libdialect/planarise.h"
using namespace dialect;
using Avoid::Point;

static bool same(Point a, Point b) { return fabs(a.x-b.x) < 1e-9 && fabs(a.y-b.y) < 1e-9; }

// Generic check of the planarisation promises.  Nodes at identical positions are regarded as one point.
static int check(Graph &G, Graph &P, const char *name) {
    int bad = 0;
    std::set<id_type> orig;
    for (auto p : G.getNodeLookup()) { orig.insert(p.first); if (!P.hasNode(p.first)) { std::cout << "  original node " << p.first << " missing\n"; ++bad; } }
    struct E { id_type s, t; Point a, b; };
    std::vector<E> es; std::map<id_type, std::vector<id_type>> adj;
    for (auto p : P.getEdgeLookup()) {
        id_type s = p.second->getSourceEnd()->id(), t = p.second->getTargetEnd()->id();
        es.push_back({s, t, P.getNode(s)->getCentre(), P.getNode(t)->getCentre()});
        adj[s].push_back(t); adj[t].push_back(s);
    }
    // every original edge must be represented by a chain through new nodes only
    for (auto p : G.getEdgeLookup()) {
        id_type s = p.second->getSourceEnd()->id(), t = p.second->getTargetEnd()->id();
        std::set<id_type> seen{s}; std::deque<id_type> q{s}; bool found = false;
        while (!q.empty() && !found) { id_type u = q.front(); q.pop_front();
            for (id_type v : adj[u]) { if (v == t) { found = true; break; } if (orig.count(v)) continue; if (seen.insert(v).second) q.push_back(v); } }
        if (!found) { std::cout << "  original edge " << s << "-" << t << " is not represented by a chain of new nodes\n"; ++bad; }
    }
    // axis-parallel edges only; two edges may meet only in a common end point
    for (size_t i = 0; i < es.size(); ++i) {
        E &e = es[i];
        if (e.a.x != e.b.x && e.a.y != e.b.y) { std::cout << "  edge " << e.s << "-" << e.t << " is not axis-parallel\n"; ++bad; }
        for (size_t j = i + 1; j < es.size(); ++j) {
            E &f = es[j];
            if (same(e.a, e.b) || same(f.a, f.b)) continue;
            double ex0 = std::min(e.a.x, e.b.x), ex1 = std::max(e.a.x, e.b.x), ey0 = std::min(e.a.y, e.b.y), ey1 = std::max(e.a.y, e.b.y);
            double fx0 = std::min(f.a.x, f.b.x), fx1 = std::max(f.a.x, f.b.x), fy0 = std::min(f.a.y, f.b.y), fy1 = std::max(f.a.y, f.b.y);
            double ix0 = std::max(ex0, fx0), ix1 = std::min(ex1, fx1), iy0 = std::max(ey0, fy0), iy1 = std::min(ey1, fy1);
            if (ix0 > ix1 || iy0 > iy1) continue;               // disjoint
            bool point = (ix0 == ix1 && iy0 == iy1);
            Point ip(ix0, iy0);
            bool atCommonEnd = point && (same(ip, e.a) || same(ip, e.b)) && (same(ip, f.a) || same(ip, f.b));
            if (!atCommonEnd) {
                std::cout << "  edges " << e.s << "-" << e.t << " (" << e.a.x << "," << e.a.y << ")-(" << e.b.x << "," << e.b.y << ") and "
                          << f.s << "-" << f.t << " (" << f.a.x << "," << f.a.y << ")-(" << f.b.x << "," << f.b.y << ") "
                          << (point ? "cross" : "overlap") << "\n";
                ++bad;
            }
        }
    }
    std::cout << name << ": planar graph has " << P.getNumNodes() << " nodes, " << P.getNumEdges() << " edges; " << (bad ? "VIOLATIONS" : "ok") << "\n";
    return bad;
}

int main() {
    int bad = 0;
    {   // (a) The two end nodes of edge A-B are misaligned by one unit, so its (libavoid-style) route has a
        //     vertical jog of length 1.  Edge C-D runs 100 units below and crosses nothing.
        Graph_SP G = std::make_shared<Graph>();
        Node_SP A = G->addNode(0, 0, 10, 10), B = G->addNode(100, 1, 10, 10),
                C = G->addNode(0, 100, 10, 10), D = G->addNode(100, 100, 10, 10);
        G->addEdge(A, B)->setRoute({Point(0,0), Point(50,0), Point(50,1), Point(100,1)});
        G->addEdge(C, D)->setRoute({Point(0,100), Point(100,100)});
        OrthoPlanariser op(G);
        Graph_SP P = op.planarise();
        int b = check(*G, *P, "(a) 1-unit vertical jog");
        if (P->getNumNodes() != 6) { std::cout << "  expected 6 nodes (4 original + 2 bends), no crossing node\n"; ++b; }
        bad += b;
    }
    {   // (b) Same thing, produced by the library's own router from nearly aligned nodes.
        Graph_SP G = std::make_shared<Graph>();
        Node_SP A = G->addNode(0, 0, 30, 30), B = G->addNode(200, 1, 30, 30),
                C = G->addNode(0, 100, 30, 30), D = G->addNode(200, 100, 30, 30);
        G->addEdge(A, B);
        G->addEdge(C, D);
        G->route(Avoid::OrthogonalRouting);
        for (auto p : G->getEdgeLookup()) { std::cout << "  route:"; for (Point q : p.second->getRoute()) std::cout << " (" << q.x << "," << q.y << ")"; std::cout << "\n"; }
        OrthoPlanariser op(G);
        Graph_SP P = op.planarise();
        bad += check(*G, *P, "(b) routed, nearly aligned nodes");
    }
    {   // (c) A route whose last point is repeated: the bend node made for it coincides with node A, and the
        //     zero-length segment between them is "opened" but never "closed" by the sweep.
        Graph_SP G = std::make_shared<Graph>();
        Node_SP A = G->addNode(0, 40, 10, 10), B = G->addNode(60, 40, 10, 10),
                C = G->addNode(20, 0, 10, 10), D = G->addNode(20, 80, 10, 10);
        G->addEdge(B, A)->setRoute({Point(60,40), Point(0,40), Point(0,40)});
        G->addEdge(C, D)->setRoute({Point(20,0), Point(20,80)});
        OrthoPlanariser op(G);
        Graph_SP P = op.planarise();
        int b = check(*G, *P, "(c) repeated final route point");
        if (P->getNumNodes() != 6) { std::cout << "  expected 6 nodes (4 original + 1 bend + 1 crossing)\n"; ++b; }
        bad += b;
    }
    if (bad) { std::cout << "DEFECT PRESENT\n"; return 1; }
    std::cout << "clean\n"; return 0;
}
