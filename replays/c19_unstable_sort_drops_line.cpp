// Observation on UNMODIFIED code: OrthoPlanariser::computeNodeGroups() sorts the OPEN/CLOSE events of one line
// with std::sort and a comparator on varCoord only.  std::sort is not stable, so for a line with more than 16
// events the OPEN and CLOSE of a zero-length segment (same varCoord) may be swapped; the segment is then never
// removed from openSegs and the rest of the line is dropped.
//
// Each test graph is a simple path n0 - n1 - ... - nK laid out on the horizontal line y=100 (K straight edges end
// to end, i.e. K collinear segments), plus a few vertical edges that cross some of the path edges (so that lost
// crossings show up as well), joined to the path so that the graph stays connected.  Exactly one path edge (index z)
// has a route with a REPEATED interior point (x+50,100),(x+50,100), which Graph::buildUniqueBendPoints() turns into
// one bend node used twice, i.e. the zero-length segment (b,b).  The line then carries K+2 segments = 2(K+2) events.
// The edges are created in ascending, descending or shuffled order (this changes the order in which the segments,
// and hence the events, are handed to std::sort).
#include <algorithm>
#include "planar_check.h"

using namespace c19;

struct Result { int bad; size_t nodes, edges, expNodes, expEdges; };

static int runOne(unsigned K, unsigned z, int order, bool verbose) {
    Builder B;
    std::vector<Node_SP> n;
    for (unsigned i = 0; i <= K; ++i) n.push_back(B.node(100.0*i, 100));
    // order in which the path edges are created
    std::vector<unsigned> idx(K);
    for (unsigned i = 0; i < K; ++i) idx[i] = i;
    if (order == -1) std::reverse(idx.begin(), idx.end());
    else if (order > 0) {
        unsigned s = (unsigned) order;
        for (unsigned i = K - 1; i > 0; --i) {
            s = s*1103515245u + 12345u;
            std::swap(idx[i], idx[(s >> 16) % (i + 1)]);
        }
    }
    for (unsigned i : idx) {
        if (i == z) B.edge(n[i], n[i+1], {Pt(100.0*i + 50, 100), Pt(100.0*i + 50, 100)});
        else B.edge(n[i], n[i+1]);
    }
    // vertical edges crossing the path edges with index 1, 4, 7, ... at x = 100*i + 25 (never at the repeated point)
    size_t crossings = 0;
    Node_SP prevTop;
    for (unsigned i = 1; i < K; i += 3) {
        Node_SP top = B.node(100.0*i + 25, 0), bot = B.node(100.0*i + 25, 200);
        B.edge(top, bot);
        ++crossings;
        if (prevTop) B.edge(prevTop, top);          // chain the tops along y=0
        else B.edge(n[0], top, {Pt(0, 0)});         // and hook the first one to n0 (up from n0, then right)
        prevTop = top;
    }
    char name[96];
    if (z < K) snprintf(name, sizeof name, "K=%u (%u events on the line) z=%u order=%d", K, 2*(K + 2), z, order);
    else snprintf(name, sizeof name, "control K=%u (%u events on the line) order=%d", K, 2*K, order);
    size_t rep = z < K ? 1 : 0;    // z >= K: control, no edge has a repeated route point
    size_t expNodes = B.ids.size() + rep /*repeated bend*/ + (crossings ? 1 : 0) /*bend (0,0)*/ + crossings;
    size_t expEdges = B.oes.size() + rep /*edge z split by its bend*/ + (crossings ? 1 : 0) + 2*crossings;
    if (!verbose) { fflush(stdout); }
    return B.planariseAndCheck(name, expNodes, expEdges);
}

int main(int argc, char **argv) {
    (void) argc; (void) argv;
    unsigned Ks[] = {5, 6, 7, 8, 10, 12, 15, 18, 22, 30, 46, 62};
    int orders[] = {0, -1, 1, 2, 3, 4, 5};
    int failedCases = 0, cases = 0, failedControls = 0, controls = 0;
    int small = 0, smallFailed = 0;      // arrangements with at most 16 events on the line
    for (unsigned K : Ks) {
        // control: the same graphs without any repeated route point
        for (int o : orders) { ++controls; if (runOne(K, K, o, true)) ++failedControls; }
        unsigned zs[] = {0, 1, K/2, K - 2, K - 1};
        for (unsigned z : zs) for (int o : orders) {
            ++cases;
            int bad = runOne(K, z, o, true);
            if (bad) ++failedCases;
            if (2*(K + 2) <= 16) { ++small; if (bad) ++smallFailed; }
        }
    }
    printf("controls (no repeated route point): %d of %d arrangements fail\n", failedControls, controls);
    printf("with a repeated route point, <= 16 events on the line: %d of %d arrangements fail\n", smallFailed, small);
    printf("with a repeated route point, all sizes: %d of %d arrangements lose edges / neighbours / crossings\n", failedCases, cases);
    if (failedControls) { printf("FAIL (unexpected: a control failed)\n"); return 2; }
    if (failedCases) {
        printf("FAIL: on this build planarise() drops part of a line that contains a zero-length segment\n"
               "      (computeNodeGroups: std::sort is not stable, the segment's CLOSE was sorted before its OPEN)\n");
        return 1;
    }
    printf("PASS\n");
    return 0;
}
