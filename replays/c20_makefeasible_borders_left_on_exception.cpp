// obs1: an exception leaving ConstrainedFDLayout::makeFeasible(xBorder, yBorder) leaves the
// process-wide vpsc::Rectangle border set, so every later layout in the process differs from
// the same layout run before it.   exit 1 = defect present, exit 0 = clean.
//
// History:  L = layout of a fixed 8-node graph with non-overlap constraints (fresh objects).
//   run 1:  L                                   -> positions P1
//   noise:  an unrelated 3-node layout whose SeparationConstraint names a rectangle index
//           that does not exist; makeFeasible(6, 6) throws cola::InvalidVariableIndexException,
//           which the caller catches (this is the documented way of reporting that error).
//   run 2:  L again, from scratch                -> positions P2
// The property demands P1 == P2 (to 1e-9).
#include <cstdio>
#include <cmath>
#include <vector>
#include "libcola/cola.h"
#include "libcola/exceptions.h"
using namespace cola;

static std::vector<double> layoutOnce()
{
    double xs[] = {0, 40, 95, 150, 210, 260, 300, 30};
    double ys[] = {0, 35, -20, 60, 10, -45, 25, 90};
    const unsigned n = 8;
    vpsc::Rectangles rs;
    for (unsigned i = 0; i < n; ++i)
    {
        rs.push_back(new vpsc::Rectangle(xs[i] - 15, xs[i] + 15, ys[i] - 10, ys[i] + 10));
    }
    std::vector<Edge> es;
    es.push_back(Edge(0, 1)); es.push_back(Edge(1, 2)); es.push_back(Edge(2, 3));
    es.push_back(Edge(3, 4)); es.push_back(Edge(4, 5)); es.push_back(Edge(5, 6));
    es.push_back(Edge(6, 7)); es.push_back(Edge(7, 0)); es.push_back(Edge(1, 5));
    CompoundConstraints ccs;
    ccs.push_back(new SeparationConstraint(vpsc::XDIM, 2, 5, 50));
    ConstrainedFDLayout alg(rs, es, 40);
    alg.setConstraints(ccs);
    alg.setAvoidNodeOverlaps(true);
    alg.run();
    std::vector<double> out;
    for (unsigned i = 0; i < n; ++i)
    {
        out.push_back(rs[i]->getCentreX());
        out.push_back(rs[i]->getCentreY());
        delete rs[i];
    }
    delete ccs[0];
    return out;
}

static void unrelatedFailingWork()
{
    vpsc::Rectangles rs;
    for (unsigned i = 0; i < 3; ++i)
    {
        rs.push_back(new vpsc::Rectangle(i * 50, i * 50 + 20, 0, 20));
    }
    std::vector<Edge> es;
    es.push_back(Edge(0, 1)); es.push_back(Edge(1, 2));
    CompoundConstraints ccs;
    ccs.push_back(new SeparationConstraint(vpsc::XDIM, 0, 7, 50)); // there is no rectangle 7
    ConstrainedFDLayout alg(rs, es, 40);
    alg.setConstraints(ccs);
    try
    {
        alg.makeFeasible(6, 6);
        printf("noise: no exception (unexpected)\n");
    }
    catch (InvalidVariableIndexException &e)
    {
        printf("noise: caught \"%s\"\n", e.what().c_str());
    }
    for (unsigned i = 0; i < 3; ++i) delete rs[i];
    delete ccs[0];
}

int main()
{
    std::vector<double> p1 = layoutOnce();
    unrelatedFailingWork();
    printf("Rectangle border after the caught exception: x=%g y=%g (expected 0 0)\n",
            vpsc::Rectangle::xBorder, vpsc::Rectangle::yBorder);
    std::vector<double> p2 = layoutOnce();
    double md = 0;
    for (size_t i = 0; i < p1.size(); ++i) md = std::max(md, std::fabs(p1[i] - p2[i]));
    printf("max |P1 - P2| = %g\n", md);
    for (size_t i = 0; i < p1.size(); i += 2)
    {
        printf("  node %zu: (%.6f, %.6f)  vs  (%.6f, %.6f)\n", i / 2, p1[i], p1[i + 1], p2[i], p2[i + 1]);
    }
    if (md > 1e-9)
    {
        printf("FAIL: the same layout gives different positions after the unrelated failed makeFeasible()\n");
        return 1;
    }
    printf("OK\n");
    return 0;
}
