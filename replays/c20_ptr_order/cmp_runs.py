#!/usr/bin/env python3
"""cmp_runs.py <snapA> <snapB> [lib ...]: compare two snapshots under runs/, ignoring
timing noise and address-valued identifiers (renumbered by first appearance)."""
import sys, os, re
R='/tmp/seed_out/c20x/runs'
PTR=re.compile(r'()(?<![\d.])(\d{9,})(?![\d.])')
HEX=re.compile(r'\b0x[0-9a-f]{6,}\b')
TIME=re.compile(r'(seconds|Time=|time[ :=]|elapsed|\bms\b|\bsecs?\b|took)', re.I)
def norm(path):
    out=[]; ids={}
    try: txt=open(path,errors='replace').read()
    except Exception as e: return None
    for ln in txt.split('\n'):
        if TIME.search(ln): ln=re.sub(r'[-+]?\d+(\.\d+)?(e[-+]?\d+)?','#',ln)
        def rep(m):
            k=m.group(2)
            if k not in ids: ids[k]=len(ids)
            return '%s@%d'%(m.group(1),ids[k])
        ln=PTR.sub(rep,ln)
        def rep2(m):
            k=m.group(0)
            if k not in ids: ids[k]=len(ids)
            return '@%d'%ids[k]
        ln=HEX.sub(rep2,ln)
        out.append(ln)
    return out
def walk(d):
    s=set()
    for r,_,fs in os.walk(d):
        for f in fs: s.add(os.path.relpath(os.path.join(r,f),d))
    return s
a,b=sys.argv[1:3]; libs=sys.argv[3:] or sorted(set(os.listdir(os.path.join(R,a)))&set(os.listdir(os.path.join(R,b))))
for lib in libs:
    da,db=os.path.join(R,a,lib),os.path.join(R,b,lib)
    if not os.path.isdir(da) or not os.path.isdir(db): continue
    fa,fb=walk(da),walk(db)
    diffs=[]
    for f in sorted(fa|fb):
        if f not in fa or f not in fb: diffs.append(f+' (only in one)'); continue
        if norm(os.path.join(da,f))!=norm(os.path.join(db,f)): diffs.append(f)
    print('== %s: %d differing files'%(lib,len(diffs)))
    for f in diffs: print('   ',f)
