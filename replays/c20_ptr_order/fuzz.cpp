// Random coarse-grid scene generator: many coincident coordinates / endpoints so that
// ordering ties occur.  Prints all routes.  usage: fuzz <seed> [features]
#include "libavoid/libavoid.h"
#include <cstdio>
#include <cstdlib>
#include <vector>
using namespace Avoid;
static unsigned int rs;
static int rnd(int n) { rs = rs * 1103515245u + 12345u; return (int)((rs >> 16) % n); }
int main(int argc, char **argv) {
    rs = (argc > 1) ? atoi(argv[1]) : 1;
    int feat = (argc > 2) ? atoi(argv[2]) : 0;
    Router *router = new Router(OrthogonalRouting);
    router->setRoutingPenalty(segmentPenalty, 50);
    router->setRoutingPenalty(crossingPenalty, 200);
    router->setRoutingParameter(idealNudgingDistance, 4);
    router->setRoutingOption(nudgeOrthogonalSegmentsConnectedToShapes, rnd(2));
    if (feat & 1) router->setRoutingOption(improveHyperedgeRoutesMovingAddingAndDeletingJunctions, true);
    int ns = 3 + rnd(6);
    std::vector<ShapeRef*> shapes;
    for (int i = 0; i < ns; ++i) {
        double x = 40 * rnd(8), y = 40 * rnd(8), w = 20 * (1 + rnd(3)), h = 20 * (1 + rnd(3));
        Polygon p(4);
        p.ps[0] = Point(x + w, y); p.ps[1] = Point(x + w, y + h);
        p.ps[2] = Point(x, y + h); p.ps[3] = Point(x, y);
        ShapeRef *s = new ShapeRef(router, p, 100 - i);  // ids decreasing: id order != creation order
        shapes.push_back(s);
        if (rnd(2)) {
            int ax = rnd(5), ay = rnd(5), bx = rnd(5), by = rnd(5);
            if (ax == bx && ay == by) bx = (bx + 1) % 5;  // no two identical pins
            new ShapeConnectionPin(s, 1, 0.25 * ax, 0.25 * ay, true, 0, ConnDirAll);
            new ShapeConnectionPin(s, 1, 0.25 * bx, 0.25 * by, true, 0, ConnDirAll);
        } else {
            new ShapeConnectionPin(s, 1, ATTACH_POS_CENTRE, ATTACH_POS_CENTRE, true, 0, ConnDirAll);
        }
    }
    std::vector<JunctionRef*> juncs;
    if (feat & 1) {
        int nj = 1 + rnd(3);
        for (int i = 0; i < nj; ++i) juncs.push_back(new JunctionRef(router, Point(20 * rnd(16), 20 * rnd(16)), 500 - i));
    }
    int nc = 3 + rnd(8);
    std::vector<ConnRef*> conns;
    for (int i = 0; i < nc; ++i) {
        ConnRef *c = new ConnRef(router, 1000 - i);
        for (int e = 0; e < 2; ++e) {
            int k = rnd(4);
            ConnEnd ce;
            if (k == 0) ce = ConnEnd(shapes[rnd(ns)], 1);
            else if (k == 1 && !juncs.empty()) ce = ConnEnd(juncs[rnd(juncs.size())]);
            else ce = ConnEnd(Point(20 * rnd(16), 20 * rnd(16)), (ConnDirFlags)(1 + rnd(15)));
            if (e == 0) c->setSourceEndpoint(ce); else c->setDestEndpoint(ce);
        }
        conns.push_back(c);
    }
    if (feat & 4) {
        for (size_t i = 0; i < juncs.size(); ++i)
            router->hyperedgeRerouter()->registerHyperedgeForRerouting(juncs[i]);
    }
    router->processTransaction();
    if (feat & 2) {
        // move a shape and a junction, then reroute
        router->moveShape(shapes[0], 20, 0);
        if (!juncs.empty()) router->moveJunction(juncs[0], 0, 20);
        router->processTransaction();
    }
    for (ConnRefList::const_iterator it = router->connRefs.begin(); it != router->connRefs.end(); ++it) {
        const PolyLine& r = (*it)->displayRoute();
        printf("%u:", (*it)->id());
        for (size_t i = 0; i < r.size(); ++i) printf(" %g,%g", r.ps[i].x, r.ps[i].y);
        printf("\n");
    }
    for (ObstacleList::const_iterator it = router->m_obstacles.begin(); it != router->m_obstacles.end(); ++it) {
        JunctionRef *j = dynamic_cast<JunctionRef *>(*it);
        if (j) printf("J%u: %g,%g\n", j->id(), j->position().x, j->position().y);
    }
    delete router;
    return 0;
}
