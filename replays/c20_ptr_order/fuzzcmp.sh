#!/bin/bash
# usage: fuzzcmp.sh <nseeds> <feat> VAR=VAL ...   compares ./fuzz output plain vs with the given env
N=$1; F=$2; shift 2
cnt=0; list=""
for s in $(seq 1 $N); do
  a=$(timeout 60 ./fuzz $s $F 2>/dev/null; echo "rc=$?")
  b=$(env "$@" timeout 60 ./fuzz $s $F 2>/dev/null; echo "rc=$?")
  if [ "$a" != "$b" ]; then cnt=$((cnt+1)); list="$list $s"; fi
done
echo "$* feat=$F: $cnt/$N seeds differ:$list" | cut -c1-300
