// Site 08: straightener::CmpNodePos (cola/libcola/straightener.h) breaks ties between
// nodes with equal scan position by ADDRESS.
//
// Demonstration (a): the same logical input (same ids, same rectangles, same order in the
// `nodes` vector) is handed to the public function straightener::generateConstraints()
// twice.  The only difference is at which addresses the two straightener::Node objects
// live (placement-new into the low / high half of one buffer).  The generated
// SeparationConstraints are printed.
//
// Scene: two rectangles with the SAME x-centre that overlap vertically
//   node 0: x in [0,10], y in [0,10]
//   node 1: x in [0,10], y in [6,16]
//   node 2: x in [40,50], y in [0,16]   (a by-stander on the right)
// dim = HORIZONTAL (scan top to bottom, generate x-separation constraints).
#include <cstdio>
#include <new>
#include <vector>
#include "libvpsc/rectangle.h"
#include "libcola/cola.h"
#include "libcola/straightener.h"
#include "libcola/compound_constraints.h"

using namespace straightener;

static void run(const char *label, bool node0Low)
{
    static const size_t SLOT = (sizeof(Node) + 63) & ~size_t(63);
    // One buffer per run, never freed: the nodes live in slot 0 and slot 1.
    char *buf = static_cast<char*>(::operator new(3 * SLOT));
    vpsc::Rectangle r0(0, 10, 0, 10), r1(0, 10, 6, 16), r2(40, 50, 0, 16);
    Node *n0 = new (buf + (node0Low ? 0 : SLOT)) Node(0, &r0);
    Node *n1 = new (buf + (node0Low ? SLOT : 0)) Node(1, &r1);
    Node *n2 = new (buf + 2 * SLOT) Node(2, &r2);
    std::vector<Node*> nodes;
    nodes.push_back(n0);
    nodes.push_back(n1);
    nodes.push_back(n2);
    std::vector<Edge*> edges;
    std::vector<cola::SeparationConstraint*> cs;
    generateConstraints(vpsc::HORIZONTAL, nodes, edges, cs, /*xSkipping*/ false);
    printf("%s: &node0 %s &node1; constraints:", label, (n0 < n1) ? "<" : ">");
    for (size_t i = 0; i < cs.size(); ++i) {
        printf("  x%u+%g<=x%u", cs[i]->left(), cs[i]->gap, cs[i]->right());
        delete cs[i];
    }
    printf("\n");
}

// Scene 2: the cluster branch of the predicate (u->cluster < v->cluster).  Two convex
// clusters whose average x position (Cluster::scanpos, as computed by
// generateClusterBoundaries) is the same, 5:
//   cluster 0 = {node 0 at x=0, node 1 at x=10},  cluster 1 = {node 2 at x=4, node 3 at x=6}
// all nodes 2 wide and spanning the same y range [0,10].  Only the addresses of the two
// straightener::Cluster objects are swapped.
static void runClusters(const char *label, bool cluster0Low)
{
    static const size_t SLOT = (sizeof(Cluster) + 63) & ~size_t(63);
    char *buf = static_cast<char*>(::operator new(2 * SLOT));
    vpsc::Rectangle r0(-1, 1, 0, 10), r1(9, 11, 0, 10), r2(3, 5, 0, 10), r3(5, 7, 0, 10);
    std::vector<Node*> nodes;
    nodes.push_back(new Node(0, &r0));
    nodes.push_back(new Node(1, &r1));
    nodes.push_back(new Node(2, &r2));
    nodes.push_back(new Node(3, &r3));
    cola::ConvexCluster *cc0 = new cola::ConvexCluster(), *cc1 = new cola::ConvexCluster();
    cc0->addChildNode(0); cc0->addChildNode(1);
    cc1->addChildNode(2); cc1->addChildNode(3);
    Cluster *c0 = new (buf + (cluster0Low ? 0 : SLOT)) Cluster(cc0);
    Cluster *c1 = new (buf + (cluster0Low ? SLOT : 0)) Cluster(cc1);
    c0->scanpos = (0 + 10) / 2.0;
    c1->scanpos = (4 + 6) / 2.0;
    nodes[0]->cluster = nodes[1]->cluster = c0;
    nodes[2]->cluster = nodes[3]->cluster = c1;
    std::vector<Edge*> edges;
    std::vector<cola::SeparationConstraint*> cs;
    generateConstraints(vpsc::HORIZONTAL, nodes, edges, cs, false);
    printf("%s: &cluster0 %s &cluster1; constraints:", label, (c0 < c1) ? "<" : ">");
    for (size_t i = 0; i < cs.size(); ++i) {
        printf("  x%u+%g<=x%u", cs[i]->left(), cs[i]->gap, cs[i]->right());
        delete cs[i];
    }
    printf("\n");
}

int main(void)
{
    printf("scene 1 (two nodes with equal scanpos)\n");
    run("layout A", true);
    run("layout B", false);
    printf("scene 2 (two clusters with equal scanpos)\n");
    runClusters("layout A", true);
    runClusters("layout B", false);
    return 0;
}
