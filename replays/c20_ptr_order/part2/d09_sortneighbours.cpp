// Site 09: straightener::sortNeighbours() (cola/libcola/straightener.cpp) keeps the
// intersections of the scan line with the open edges in a std::set<pair<double,Edge*>>,
// i.e. intersections at the SAME position are ordered by Edge ADDRESS.  Dummy nodes are
// created (and numbered, and appended to Edge::dummyNodes, and constrained) in that order.
//
// Demonstration (a): identical logical input (ids, routes, order of the vectors) given to
// the public straightener::generateConstraints() twice; only the addresses of the two
// straightener::Edge objects are swapped (placement-new into one buffer).
//
// Scene (dim = HORIZONTAL, scan top to bottom):
//   node 0: [0,10]x[-10,0]     node 1: [0,10]x[40,50]     node 2: [20,30]x[10,20]
//   edge 0: node0 -> node1, straight vertical line x=5
//   edge 1: node0 -> node1, the same route (a parallel/multi edge)
// When node 2 opens/closes, both edges intersect the scan line at x=5.
#include <cstdio>
#include <new>
#include <vector>
#include "libvpsc/rectangle.h"
#include "libcola/cola.h"
#include "libcola/straightener.h"
#include "libcola/compound_constraints.h"

using namespace straightener;

static void run(const char *label, bool edge0Low)
{
    static const size_t SLOT = (sizeof(Edge) + 63) & ~size_t(63);
    char *buf = static_cast<char*>(::operator new(2 * SLOT));
    vpsc::Rectangle r0(0, 10, -10, 0), r1(0, 10, 40, 50), r2(20, 30, 10, 20);
    std::vector<Node*> nodes;
    nodes.push_back(new Node(0, &r0));
    nodes.push_back(new Node(1, &r1));
    nodes.push_back(new Node(2, &r2));
    Edge *e0 = new (buf + (edge0Low ? 0 : SLOT)) Edge(0, 0, 1, 5, -5, 5, 45);
    Edge *e1 = new (buf + (edge0Low ? SLOT : 0)) Edge(1, 0, 1, 5, -5, 5, 45);
    std::vector<Edge*> edges;
    edges.push_back(e0);
    edges.push_back(e1);
    std::vector<cola::SeparationConstraint*> cs;
    generateConstraints(vpsc::HORIZONTAL, nodes, edges, cs, false);
    printf("%s: &edge0 %s &edge1\n", label, (e0 < e1) ? "<" : ">");
    for (size_t i = 0; i < edges.size(); ++i) {
        printf("   edge %u dummyNodes:", edges[i]->id);
        for (size_t j = 0; j < edges[i]->dummyNodes.size(); ++j) {
            printf(" %u", edges[i]->dummyNodes[j]);
        }
        printf("\n");
    }
    printf("   dummy node -> edge:");
    for (size_t i = 3; i < nodes.size(); ++i) {
        printf("  n%u(%g,%g)->e%u", nodes[i]->id, nodes[i]->pos[0], nodes[i]->pos[1],
                nodes[i]->edge->id);
    }
    printf("\n   constraints:");
    for (size_t i = 0; i < cs.size(); ++i) {
        printf("  x%u+%g<=x%u", cs[i]->left(), cs[i]->gap, cs[i]->right());
        delete cs[i];
    }
    printf("\n");
}

int main(void)
{
    run("layout A", true);
    run("layout B", false);
    return 0;
}
