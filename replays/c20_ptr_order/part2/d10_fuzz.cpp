// Site 10 (flip experiment input): random coarse-grid scene for the orthogonal topology
// improvement add-on (topology::AvoidTopologyAddon).  Shapes on a 60-unit grid with small
// integer jitter, orthogonal connectors between shape centres; many S-bends of EQUAL length
// result, i.e. ties on LayoutEdgeSegmentSeparation::distance.
// usage: d10_fuzz <seed> [nShapes [nConns]]
// Prints the final shape boxes and connector routes.
#include <cstdio>
#include <cstdlib>
#include <vector>
#include <set>
#include "libavoid/libavoid.h"
#include "libcola/cola.h"
#include "libtopology/orthogonal_topology.h"

using namespace Avoid;

static unsigned long rngState;
static unsigned rnd(unsigned n)
{
    rngState = rngState * 6364136223846793005UL + 1442695040888963407UL;
    return (unsigned)((rngState >> 33) % n);
}

int main(int argc, char **argv)
{
    unsigned long seed = (argc > 1) ? strtoul(argv[1], nullptr, 10) : 1;
    unsigned nShapes = (argc > 2) ? atoi(argv[2]) : 6;
    unsigned nConns = (argc > 3) ? atoi(argv[3]) : 6;
    rngState = seed * 2654435761UL + 99;

    Router *router = new Router(OrthogonalRouting);
    router->setRoutingParameter(segmentPenalty, 50);
    router->setRoutingParameter(idealNudgingDistance, 4);
    router->setRoutingOption(nudgeOrthogonalSegmentsConnectedToShapes, true);

    vpsc::Rectangles rs;
    cola::CompoundConstraints ccs;
    cola::VariableIDMap idMap;
    cola::RootCluster *root = new cola::RootCluster();
    std::set<std::pair<int,int> > used;
    std::vector<Point> centres;
    for (unsigned i = 0; i < nShapes; ++i) {
        int gx, gy;
        do { gx = rnd(4); gy = rnd(4); } while (used.count(std::make_pair(gx, gy)));
        used.insert(std::make_pair(gx, gy));
        // jitter of 0, 10 or 20 => S-bends of equal length are frequent
        double cx = 100.0 * gx + 10.0 * rnd(3), cy = 100.0 * gy + 10.0 * rnd(3);
        centres.push_back(Point(cx, cy));
        Rectangle r(Point(cx - 15, cy - 15), Point(cx + 15, cy + 15));
        new ShapeRef(router, r, i + 1);
        rs.push_back(new vpsc::Rectangle(cx - 20, cx + 20, cy - 20, cy + 20));
        idMap.addMappingForVariable(i, i + 1);
        root->addChildNode(i);
    }
    std::vector<ConnRef*> conns;
    for (unsigned k = 0; k < nConns; ++k) {
        unsigned a = rnd(nShapes), b = rnd(nShapes);
        if (a == b) { b = (a + 1) % nShapes; }
        ConnRef *c = new ConnRef(router, 100 + k);
        c->setSourceEndpoint(ConnEnd(centres[a], ConnDirAll));
        c->setDestEndpoint(ConnEnd(centres[b], ConnDirAll));
        c->setRoutingType(ConnType_Orthogonal);
        conns.push_back(c);
    }
    router->processTransaction();

    topology::AvoidTopologyAddon addon(rs, ccs, root, idMap);
    router->setTopologyAddon(&addon);
    router->processTransaction();

    for (ObstacleList::const_iterator it = router->m_obstacles.begin();
            it != router->m_obstacles.end(); ++it) {
        Box bb = (*it)->polygon().offsetBoundingBox(0);
        printf("shape %u: [%g,%g]x[%g,%g]\n", (*it)->id(), bb.min.x, bb.max.x, bb.min.y, bb.max.y);
    }
    for (size_t k = 0; k < conns.size(); ++k) {
        const PolyLine &route = conns[k]->displayRoute();
        printf("conn %u:", conns[k]->id());
        for (size_t i = 0; i < route.size(); ++i) printf(" (%g,%g)", route.ps[i].x, route.ps[i].y);
        printf("\n");
    }
    return 0;
}
