// Site 10: topology::LayoutEdgeSegmentSeparation::operator< (cola/libtopology/orthogonal_topology.cpp)
//     if (distance == rhs.distance) return (var1 < rhs.var1) || (var2 < rhs.var2);
// is not a strict weak order: for equal distances, a<b and b<a are both true whenever
// a.var1 < b.var1 and a.var2 > b.var2.
//
// The class is local to orthogonal_topology.cpp, so this program #includes that file to call
// the real operator (link against libavoid/libcola/libvpsc, NOT libtopology).
// Build twice: against the unpatched file and against the patched file.
#include "libtopology/orthogonal_topology.cpp"

#include <cstdio>

using namespace topology;

int main(void)
{
    // Four variables in one array, so their address order is known: &v[0] < &v[1] < &v[2] < &v[3].
    vpsc::Variable v[4] = { vpsc::Variable(0, 0), vpsc::Variable(1, 10),
                            vpsc::Variable(2, 20), vpsc::Variable(3, 30) };
    Avoid::Router router(Avoid::OrthogonalRouting);
    Avoid::ConnRef *conn = new Avoid::ConnRef(&router, 7);

    LayoutEdgeSegmentSeparation a, b, c;
    a.distance = 5; a.var1 = &v[0]; a.var2 = &v[3]; a.connRef = conn;
    b.distance = 5; b.var1 = &v[1]; b.var2 = &v[2]; b.connRef = conn;
    c.distance = 5; c.var1 = &v[2]; c.var2 = &v[0]; c.connRef = conn;

    bool ab = a < b, ba = b < a;
    printf("a<b = %d   b<a = %d   => %s\n", ab, ba,
            (ab && ba) ? "NOT antisymmetric (not a strict weak order)" : "antisymmetric");

    // Consequence for the container: the same three elements inserted in different orders.
    const LayoutEdgeSegmentSeparation *elems[3] = { &a, &b, &c };
    const char *names = "abc";
    int perms[6][3] = { {0,1,2}, {0,2,1}, {1,0,2}, {1,2,0}, {2,0,1}, {2,1,0} };
    for (int p = 0; p < 6; ++p)
    {
        LayoutEdgeSegmentSeparations less;
        printf("insert order %c%c%c -> iteration order ", names[perms[p][0]],
                names[perms[p][1]], names[perms[p][2]]);
        for (int k = 0; k < 3; ++k)
        {
            less.insert(*elems[perms[p][k]]);
        }
        for (LayoutEdgeSegmentSeparations::iterator it = less.begin();
                it != less.end(); ++it)
        {
            for (int k = 0; k < 3; ++k)
            {
                if (it->var1 == elems[k]->var1 && it->var2 == elems[k]->var2)
                {
                    printf("%c", names[k]);
                }
            }
        }
        printf("  (size %u)\n", (unsigned) less.size());
    }
    return 0;
}
