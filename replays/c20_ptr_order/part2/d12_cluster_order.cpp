// Site 12: ConstrainedFDLayout::recGenerateClusterVariablesAndConstraints()
// (cola/libcola/colafd.cpp) walks `std::set<Cluster *> expandedClusterSet`, i.e. it calls
// NonOverlapConstraints::addCluster() for sibling clusters in ADDRESS order.  That fixes the
// order of pairInfoList; list::sort() is stable, so cluster pairs with EQUAL overlap are
// resolved in that order, and resolving one pair changes what is done for the next.
//
// Demonstration (a): the same logical input (same rectangles, same edges, the same cluster
// hierarchy with children added in the same order) is laid out twice through the public API
// (ConstrainedFDLayout::makeFeasible + run).  The only difference: the RectangularCluster
// objects are constructed (placement-new) at ascending addresses in run A and at descending
// addresses in run B.  Final rectangle positions are printed.
//
// usage: d12_cluster_order [seed [nClusters [search]]]
//   with search>0: try seeds seed..seed+search-1 and report those that differ.
#include <cstdio>
#include <cstdlib>
#include <cmath>
#include <new>
#include <vector>
#include <utility>
#include "libcola/cola.h"

using namespace cola;

struct Result { std::vector<double> xs, ys; bool ascending; };

static unsigned long rngState;
static unsigned rnd(unsigned n)
{
    rngState = rngState * 6364136223846793005UL + 1442695040888963407UL;
    return (unsigned)((rngState >> 33) % n);
}

static Result layout(unsigned long seed, unsigned nClusters, bool ascending, bool verbose)
{
    rngState = seed * 2654435761UL + 12345;
    const unsigned perCluster = 2;
    const unsigned n = nClusters * perCluster;
    std::vector<vpsc::Rectangle*> rs;
    std::vector<Edge> es;
    // Coarse grid => many coincident positions and equal overlaps.
    for (unsigned i = 0; i < n; ++i) {
        double x = 20.0 * rnd(4), y = 20.0 * rnd(4);
        rs.push_back(new vpsc::Rectangle(x, x + 20, y, y + 20));
    }
    for (unsigned i = 0; i + 1 < n; ++i) {
        if (rnd(2)) es.push_back(std::make_pair(i, i + 1));
    }
    ConstrainedFDLayout alg(rs, es, 40);
    RootCluster *root = new RootCluster();

    // One buffer; cluster k lives in slot k (ascending) or slot nClusters-1-k (descending).
    const size_t SLOT = (sizeof(RectangularCluster) + 63) & ~size_t(63);
    char *buf = static_cast<char*>(::operator new(nClusters * SLOT));
    std::vector<RectangularCluster*> cl(nClusters);
    for (unsigned k = 0; k < nClusters; ++k) {
        unsigned slot = ascending ? k : (nClusters - 1 - k);
        cl[k] = new (buf + slot * SLOT) RectangularCluster();
        cl[k]->setPadding(Box(5));
        for (unsigned j = 0; j < perCluster; ++j) cl[k]->addChildNode(k * perCluster + j);
    }
    for (unsigned k = 0; k < nClusters; ++k) root->addChildCluster(cl[k]);
    alg.setClusterHierarchy(root);
    alg.setAvoidNodeOverlaps(true);
    alg.makeFeasible();
    alg.run();
    Result r;
    r.ascending = cl[0] < cl[1];
    for (unsigned i = 0; i < n; ++i) {
        r.xs.push_back(rs[i]->getCentreX());
        r.ys.push_back(rs[i]->getCentreY());
    }
    if (verbose) {
        printf("  clusters at %s addresses:", r.ascending ? "ascending " : "descending");
        for (unsigned i = 0; i < n; ++i) printf(" (%.3f,%.3f)", r.xs[i], r.ys[i]);
        printf("\n");
    }
    // Objects are deliberately leaked (the clusters live in our own buffer).
    return r;
}

static double maxDiff(const Result &a, const Result &b)
{
    double d = 0;
    for (size_t i = 0; i < a.xs.size(); ++i) {
        d = std::max(d, fabs(a.xs[i] - b.xs[i]));
        d = std::max(d, fabs(a.ys[i] - b.ys[i]));
    }
    return d;
}

int main(int argc, char **argv)
{
    unsigned long seed = (argc > 1) ? strtoul(argv[1], nullptr, 10) : 1;
    unsigned nClusters = (argc > 2) ? atoi(argv[2]) : 3;
    unsigned search = (argc > 3) ? atoi(argv[3]) : 0;
    if (search) {
        unsigned differing = 0;
        for (unsigned long s = seed; s < seed + search; ++s) {
            Result a = layout(s, nClusters, true, false), b = layout(s, nClusters, false, false);
            double d = maxDiff(a, b);
            if (d > 1e-6) { ++differing; printf("seed %lu: max coordinate difference %.3f\n", s, d); }
        }
        printf("%u of %u seeds differ\n", differing, search);
        return 0;
    }
    printf("seed %lu, %u clusters x 2 nodes\n", seed, nClusters);
    Result a = layout(seed, nClusters, true, true);
    Result b = layout(seed, nClusters, false, true);
    // Control: same address order again must reproduce run A exactly.
    Result c = layout(seed, nClusters, true, true);
    printf("max |A - B| = %.6f   (control: max |A - A'| = %.6f)\n", maxDiff(a, b), maxDiff(a, c));
    return 0;
}
