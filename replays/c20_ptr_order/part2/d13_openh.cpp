// Site 13: dialect::OrthoPlanariser::computeCrossings() (cola/libdialect/planarise.cpp)
// copies `std::set<Event*> openH` (ADDRESS order) in front of the events of each x-part and then
// std::sort()s with CompareActiveEvents, which treats y-coordinates within 1.0 as equal.
// Two open horizontal segments whose y differ by less than 1.0 (but by more than the 0.5 used
// when merging overlapping segments) therefore keep an address-dependent relative order, and the
// vertical segment that crosses both is split in that order.
//
// Scene (ids are the external ids given below; edges are straight, axis aligned):
//     A(0,100)-----B(200,100)           horizontal, y = 100
//     C(20,100.75)-----D(220,100.75)    horizontal, y = 100.75
//     E(100,0)                          vertical x = 100 from E down to F
//     F(100,200)
// The planarised graph's edges are printed by end-point coordinates.
//
// (a) two runs of this program on the UNMODIFIED library: `d13_openh 0` versus `d13_openh 40`.
//     The second first allocates and frees 40 blocks of 56 bytes (sizeof(Event)), which reverses
//     the order in which malloc later hands out the Event objects (LIFO free lists).
// (b) flip experiment: run with C20Y_FLIP=13 on the instrumented library.
// usage: d13_openh [perturb-count [block-size [pattern]]]   pattern 0: free ascending, 1: descending, >=2: shuffled (seed)
#include <cstdio>
#include <cstdlib>
#include <vector>
#include <string>
#include <algorithm>
#include "libdialect/commontypes.h"
#include "libdialect/graphs.h"
#include "libdialect/planarise.h"

using namespace dialect;

static Node_SP mk(Graph_SP &G, double x, double y)
{
    Node_SP u = Node::allocate(x, y, 4, 4);
    G->addNode(u);
    return u;
}

static std::string run(void)
{
    Graph_SP G = std::make_shared<Graph>();
    Node_SP A = mk(G, 0, 100), B = mk(G, 200, 100), C = mk(G, 20, 100.75), D = mk(G, 220, 100.75),
            E = mk(G, 100, 0), F = mk(G, 100, 200);
    G->addEdge(Edge::allocate(A, B));
    G->addEdge(Edge::allocate(C, D));
    G->addEdge(Edge::allocate(E, F));
    OrthoPlanariser op(G);
    Graph_SP P = op.planarise();
    // Describe every edge of the planar graph by the coordinates of its end points.
    std::vector<std::string> lines;
    for (auto p : P->getEdgeLookup()) {
        Avoid::Point s = p.second->getSourceEnd()->getCentre(), t = p.second->getTargetEnd()->getCentre();
        if (t.x < s.x || (t.x == s.x && t.y < s.y)) std::swap(s, t);
        char buf[200];
        snprintf(buf, sizeof(buf), "    (%g,%g)--(%g,%g)\n", s.x, s.y, t.x, t.y);
        lines.push_back(buf);
    }
    std::sort(lines.begin(), lines.end());
    std::string out;
    for (const std::string &l : lines) out += l;
    return out;
}

int main(int argc, char **argv)
{
    int count = (argc > 1) ? atoi(argv[1]) : 0;
    size_t size = (argc > 2) ? atoi(argv[2]) : 56;
    // Optionally perturb the heap BEFORE anything else: allocate `count` blocks and free them
    // in ascending address order.  glibc's per-size free lists are LIFO, so the next `count`
    // allocations of that size class come back in DESCENDING address order instead of the
    // ascending order of a fresh heap.
    int pattern = (argc > 3) ? atoi(argv[3]) : 0;
    std::vector<void*> blocks;
    for (int i = 0; i < count; ++i) blocks.push_back(malloc(size));
    std::sort(blocks.begin(), blocks.end());
    if (pattern == 1) std::reverse(blocks.begin(), blocks.end());
    if (pattern >= 2) { srand(pattern); std::random_shuffle(blocks.begin(), blocks.end(), [](int n){ return rand() % n; }); }
    for (void *b : blocks) free(b);
    std::string result = run();
    printf("heap perturbation: %d blocks of %zu bytes allocated and freed first\n%s", count, size, result.c_str());
    return 0;
}
