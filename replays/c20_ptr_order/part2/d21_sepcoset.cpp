// Site 21: dialect::SepCoSet = std::set<SepCo_SP> (cola/libdialect/constraints.h) is ordered by
// the ADDRESS of the SepCo objects.  It is iterated by
//   Projection::generateColaConstraints()  -> order of the cola constraints handed to the solver
//   ProjSeq::violation()                   -> order of a floating-point summation
//   Projection::toString()/ProjSeq::toString()
//
// Demonstration (a): the same three SepCos (same nodes, gaps) are inserted into a SepCoSet in the
// same order; the only difference between layout A and layout B is the order in which the three
// SepCo objects were allocated (std::make_shared), i.e. their relative addresses.
//
// Scene: four nodes all at x = 0; constraints  n0 + 0.1 <= n1,  n0 + 0.2 <= n2,  n0 + 0.3 <= n3
// (all violated, by exactly 0.1, 0.2, 0.3).
#include <cstdio>
#include <string>
#include <vector>
#include "libcola/compound_constraints.h"
#include "libdialect/commontypes.h"
#include "libdialect/graphs.h"
#include "libdialect/constraints.h"

using namespace dialect;

static void run(const char *label, bool ascending)
{
    Graph_SP G = std::make_shared<Graph>();
    std::vector<Node_SP> n;
    for (int i = 0; i < 4; ++i) {
        Node_SP u = Node::allocate(0, 10.0 * i, 4, 4);
        u->setExternalId(i);
        G->addNode(u);
        n.push_back(u);
    }
    const double gaps[3] = {0.1, 0.2, 0.3};
    // Allocate the three SepCos next to each other, in ascending or descending logical order.
    SepCo_SP sc[3];
    for (int k = 0; k < 3; ++k) {
        int i = ascending ? k : 2 - k;
        sc[i] = std::make_shared<SepCo>(vpsc::XDIM, n[0], n[i + 1], gaps[i]);
    }
    // Identical logical use from here on.
    SepCoSet sepcos;
    for (int i = 0; i < 3; ++i) sepcos.insert(sc[i]);
    ProjSeq ps;
    ps.addProjection(sepcos, vpsc::XDIM);
    printf("%s: addresses sc0 %s sc1 %s sc2\n", label, (sc[0] < sc[1]) ? "<" : ">", (sc[1] < sc[2]) ? "<" : ">");
    // (1) order of iteration, as seen through the public string representation
    //     (node ids replaced by the external ids 0..3 to keep the text comparable)
    printf("   iteration order of the set (gap of each SepCo):");
    for (SepCo_SP s : sepcos) printf(" %g", s->gap);
    printf("\n");
    // (2) order of the generated cola constraints
    ColaGraphRep &cgr = G->updateColaGraphRep();
    Projection_SP proj = ps.nextProjection();
    cola::CompoundConstraints ccs = proj->generateColaConstraints(cgr);
    printf("   generated cola constraints:");
    for (cola::CompoundConstraint *cc : ccs) {
        cola::SeparationConstraint *s = dynamic_cast<cola::SeparationConstraint*>(cc);
        printf("  r%u+%g<=r%u", s->left(), s->gap, s->right());
    }
    printf("\n");
    // (3) floating point sum
    printf("   ProjSeq::violation() = %.17g\n", ps.violation());
}

int main(void)
{
    run("layout A", true);
    run("layout B", false);
    return 0;
}
