// Probe: connector from a shape with two symmetric pins of one class (corner pins, so the
// dummy centre->pin edges are NOT orthogonal) to a point straight below the shape centre.
// Both pins give equal-cost routes; which pin is used depends on the visList order
// decided by CmpVisEdgeRotation's "u < v" pointer comparison.
#include "libavoid/libavoid.h"
#include <cstdio>
#include <cstdlib>
#include <vector>
using namespace Avoid;
int main(int argc, char **argv) {
    // optional heap perturbation: allocate/free blocks to scramble the allocator's free lists
    std::vector<void*> junk;
    int perturb = (argc > 1) ? atoi(argv[1]) : 0;
    for (int i = 0; i < perturb; ++i) junk.push_back(malloc(16 + 8 * (i % 9)));
    for (size_t i = 0; i < junk.size(); i += 2) free(junk[i]);
    Router *router = new Router(OrthogonalRouting);
    router->setRoutingPenalty(segmentPenalty, 50);
    Polygon poly(4);
    poly.ps[0] = Point(100, 0);
    poly.ps[1] = Point(100, 100);
    poly.ps[2] = Point(0, 100);
    poly.ps[3] = Point(0, 0);
    ShapeRef *shape = new ShapeRef(router, poly, 1);
    // two pins of class 1 at the bottom-left and bottom-right corners regions.
    new ShapeConnectionPin(shape, 1, 0.25, ATTACH_POS_BOTTOM, true, 0, ConnDirDown);
    new ShapeConnectionPin(shape, 1, 0.75, ATTACH_POS_BOTTOM, true, 0, ConnDirDown);
    ConnRef *conn = new ConnRef(router, 10);
    conn->setSourceEndpoint(ConnEnd(shape, 1));
    conn->setDestEndpoint(ConnEnd(Point(50, 300), ConnDirUp));
    router->processTransaction();
    const PolyLine& r = conn->displayRoute();
    for (size_t i = 0; i < r.size(); ++i) printf("%g,%g ", r.ps[i].x, r.ps[i].y);
    printf("\n");
    delete router;
    for (size_t i = 1; i < junk.size(); i += 2) free(junk[i]);
    return 0;
}
