#!/bin/bash
# usage: run7.sh <tag>  -- runs the 7 allocation-sensitive libavoid scenes normally and with
# MALLOC_MMAP_THRESHOLD_=0, and reports per scene: N=normal output equals baseline-normal, S=stable (normal==mmap)
WT=/tmp/wt_c20x/cola
T=$WT/libavoid/tests
TAG=$1
R=/tmp/seed_out/c20x/runs/seven_$TAG
rm -rf $R; mkdir -p $R/normal $R/mmap
cd $T
export LD_LIBRARY_PATH=$WT/libavoid/.libs
for mode in normal mmap; do
  for p in inlineOverlap10 vertlineassertion hyperedge02 improveHyperedge04 junction04 removeJunctions01 slowrouting; do
    rm -f output/$p*.txt output/inlineoverlap10.txt
    if [ $mode = mmap ]; then MALLOC_MMAP_THRESHOLD_=0 ./.libs/$p >/dev/null 2>&1; else ./.libs/$p >/dev/null 2>&1; fi
    echo "$p $?" >> $R/$mode.status
    for f in output/$p*.txt output/inlineoverlap10.txt; do [ -f $f ] && mv $f $R/$mode/; done
  done
done
B=/tmp/seed_out/c20x/runs/base_normal/libavoid
for f in $(ls $R/normal); do
  n=DIFF; cmp -s $R/normal/$f $B/$f && n=same
  s=UNSTABLE; cmp -s $R/normal/$f $R/mmap/$f && s=stable
  echo "$f normal-vs-baseline=$n normal-vs-mmap=$s"
done
cat $R/normal.status $R/mmap.status | awk '$2!=0'
