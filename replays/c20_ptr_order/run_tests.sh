#!/bin/bash
# usage: run_tests.sh <libdir> <snapshot-name> [ENV=VAL ...]
# Runs every built test program of cola/<libdir>/tests (cwd = tests dir) with the
# given extra environment and snapshots tests/output into runs/<snapshot-name>/<libdir>.
WT=/tmp/wt_c20x/cola
LIB=$1; SNAP=$2; shift 2
T=$WT/$LIB/tests
OUT=/tmp/seed_out/c20x/runs/$SNAP/$LIB
rm -rf "$OUT"; mkdir -p "$OUT"
cd "$T" || exit 1
mkdir -p output
find output -type f ! -name README.txt -delete
progs=$(ls .libs | grep -v "^lt-")
: > "$OUT/../$LIB.status"; touch "$OUT/../$LIB.stamp"
for p in $progs; do
  [ -x ./.libs/$p ] || [ -x ./$p ] || continue
  if [ -x ./.libs/$p ]; then bin=./.libs/$p; else bin=./$p; fi
  env LD_LIBRARY_PATH=$WT/libavoid/.libs:$WT/libvpsc/.libs:$WT/libcola/.libs:$WT/libtopology/.libs:$WT/libdialect/.libs:$WT/libproject/.libs "$@" timeout 900 $bin >"$OUT/_stdout_$p.out" 2>&1
  echo "$p $?" >> "$OUT/../$LIB.status"
done
cp -r output/. "$OUT/"
find . -maxdepth 1 -type f \( -name "*.svg" -o -name "*.txt" -o -name "*.tglf" -o -name "*.gml" -o -name "*.dot" \) -newer "$OUT/../$LIB.stamp" -exec cp {} "$OUT/" \;
