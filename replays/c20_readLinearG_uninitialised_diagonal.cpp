// Observation 1: ConstrainedFDLayout::readLinearG() returns uninitialised
// memory on the diagonal of G.  The constructor allocates each row with
// `new unsigned short[n]` and computePathLengths() skips i==j, so G[i][i] is
// whatever the heap held before.
//
// The program builds the same layout object twice.  Before each construction
// the application does some unrelated work that leaves freed heap blocks
// filled with a byte pattern (0x5a before the first, 0xa5 before the second).
// It then checks that
//   (a) every diagonal entry of G has the documented value for "no forces
//       required between u and v", i.e. 0, and
//   (b) the two matrices are identical.
//
// Exit code 0: defect absent.  Exit code 1: defect present.
#include "libcola/cola.h"
#include <cstdio>
#include <cstring>
#include <vector>

static const unsigned N = 20;

// Unrelated work: buffers are allocated, written and freed again.  Sizes
// around that of one row of G (N unsigned shorts) so that the rows of the
// next layout are carved from these blocks; a large block as well.
static void unrelatedWork(unsigned char pattern)
{
    const int K = 256;
    const size_t sizes[4] = { N * sizeof(unsigned short), 32, 48, 56 };
    for (size_t s = 0; s < 4; ++s)
    {
        char *b[K];
        for (int i = 0; i < K; ++i)
        {
            b[i] = new char[sizes[s]];
            memset(b[i], pattern, sizes[s]);
        }
        for (int i = 0; i < K; ++i)
        {
            delete [] b[i];
        }
    }
    const size_t big = 1 << 20;
    char *large = new char[big];
    memset(large, pattern, big);
    delete [] large;
}

static std::vector<unsigned> once(void)
{
    vpsc::Rectangles rs;
    for (unsigned i = 0; i < N; ++i)
    {
        rs.push_back(new vpsc::Rectangle(i * 30, i * 30 + 20, 0, 20));
    }
    std::vector<cola::Edge> es;
    for (unsigned i = 0; i + 1 < N; ++i)
    {
        es.push_back(cola::Edge(i, i + 1));
    }
    cola::ConstrainedFDLayout alg(rs, es, 60);
    std::vector<unsigned> g = alg.readLinearG();
    for (unsigned i = 0; i < N; ++i)
    {
        delete rs[i];
    }
    return g;
}

int main(void)
{
    unrelatedWork(0x5a);
    std::vector<unsigned> a = once();
    unrelatedWork(0xa5);
    std::vector<unsigned> b = once();

    int bad = 0;
    for (unsigned i = 0; i < N; ++i)
    {
        unsigned ga = a[N * i + i], gb = b[N * i + i];
        if ((ga != 0) || (gb != 0))
        {
            printf("G[%u][%u]: run 1 = %u, run 2 = %u (expected 0)\n",
                    i, i, ga, gb);
            bad = 1;
        }
    }
    for (size_t k = 0; k < a.size(); ++k)
    {
        if (a[k] != b[k])
        {
            if ((k / N) != (k % N))
            {
                printf("G[%zu][%zu]: run 1 = %u, run 2 = %u\n", k / N, k % N,
                        a[k], b[k]);
            }
            bad = 1;
        }
    }
    printf(bad ? "DEFECT PRESENT: readLinearG() is not reproducible / has an "
                 "undefined diagonal\n"
               : "ok: diagonal of G is 0 and both runs agree\n");
    return bad;
}
