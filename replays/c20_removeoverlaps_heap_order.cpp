#include <vector>
#include <set>
#include <cstdio>
#include <cstdlib>
#include <cstring>
#include <libvpsc/rectangle.h>
using namespace vpsc;
static void run(const char* tag){
  Rectangles rs;
  for(int i=0;i<3;i++) rs.push_back(new Rectangle(0,10,0,10));
  { std::set<unsigned> fixed; removeoverlaps(rs, fixed, false); }
  printf("%s:",tag);
  for(auto r:rs){printf(" (%.6f,%.6f)",r->getCentreX(),r->getCentreY());}
  puts("");
}
int main(int argc,char**argv){
  bool desc = argc>1 && !strcmp(argv[1],"desc");
  std::vector<void*> junk;
  for(int i=0;i<7;i++) junk.push_back(malloc(56));   // exactly fills the tcache bin for 64-byte chunks
  if(desc) for(int i=6;i>=0;i--) free(junk[i]); else for(int i=0;i<7;i++) free(junk[i]);
  run(desc?"freed-descending":"freed-ascending ");
  return 0;
}
