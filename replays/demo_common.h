// Common part of the demonstrations: a small independent oracle (Dijkstra over the grid induced by all
// rectangle sides and endpoint coordinates, with the travel direction as part of the state) and helpers
// that evaluate the cost (Manhattan length + segmentPenalty * bends) of a libavoid route.
#include "libavoid/libavoid.h"
#include <cstdio>
#include <cstdlib>
#include <cmath>
#include <vector>
#include <queue>
#include <algorithm>
using namespace Avoid;

struct R { double x1, y1, x2, y2; };

static bool strictlyInside(const R& r, double x, double y)
{
    return (x > r.x1) && (x < r.x2) && (y > r.y1) && (y < r.y2);
}

// Directions: 0 = up (y decreasing), 1 = right, 2 = down, 3 = left.
static const int DX[4] = {0, 1, 0, -1};
static const int DY[4] = {-1, 0, 1, 0};
static unsigned flagOf(int d)
{
    switch (d) { case 0: return ConnDirUp; case 1: return ConnDirRight;
                 case 2: return ConnDirDown; default: return ConnDirLeft; }
}

// Minimum of (length + pen * bends) over all orthogonal paths from s to t that do not enter the interior
// of any rectangle, leave s in one of the directions sd and reach t from one of the sides td.
static double oracle(const std::vector<R>& rects, Point s, unsigned sd, Point t, unsigned td,
        double pen, const std::vector<Point>& extraPts = std::vector<Point>())
{
    std::vector<double> xs, ys;
    for (size_t i = 0; i < extraPts.size(); ++i)
    {
        xs.push_back(extraPts[i].x); ys.push_back(extraPts[i].y);
    }
    for (size_t i = 0; i < rects.size(); ++i)
    {
        xs.push_back(rects[i].x1); xs.push_back(rects[i].x2);
        ys.push_back(rects[i].y1); ys.push_back(rects[i].y2);
    }
    xs.push_back(s.x); xs.push_back(t.x); ys.push_back(s.y); ys.push_back(t.y);
    std::sort(xs.begin(), xs.end()); xs.erase(std::unique(xs.begin(), xs.end()), xs.end());
    std::sort(ys.begin(), ys.end()); ys.erase(std::unique(ys.begin(), ys.end()), ys.end());
    int nx = xs.size(), ny = ys.size();
    int si = std::find(xs.begin(), xs.end(), s.x) - xs.begin();
    int sj = std::find(ys.begin(), ys.end(), s.y) - ys.begin();
    int ti = std::find(xs.begin(), xs.end(), t.x) - xs.begin();
    int tj = std::find(ys.begin(), ys.end(), t.y) - ys.begin();
    std::vector<double> dist(nx * ny * 4, 1e300);
    typedef std::pair<double, int> QE;
    std::priority_queue<QE, std::vector<QE>, std::greater<QE> > pq;
    for (int d = 0; d < 4; ++d)
    {
        if (!(sd & flagOf(d))) continue;
        int st = (si * ny + sj) * 4 + d;
        dist[st] = 0; pq.push(QE(0, st));
    }
    double best = 1e300;
    while (!pq.empty())
    {
        QE e = pq.top(); pq.pop();
        if (e.first > dist[e.second]) continue;
        int d = e.second % 4, j = (e.second / 4) % ny, i = e.second / 4 / ny;
        bool atStart = (i == si && j == sj && e.first == 0);
        if (i == ti && j == tj && !atStart)
        {
            int from = (d + 2) % 4;
            if (td & flagOf(from)) { best = std::min(best, e.first); }
            continue;
        }
        for (int nd = 0; nd < 4; ++nd)
        {
            if (nd == (d + 2) % 4) continue;
            if (atStart && nd != d) continue;
            double c = e.first;
            if (!atStart && nd != d) c += pen;
            int ni = i + DX[nd], nj = j + DY[nd];
            if (ni < 0 || nj < 0 || ni >= nx || nj >= ny) continue;
            double mx = (xs[i] + xs[ni]) / 2, my = (ys[j] + ys[nj]) / 2;
            bool blocked = false;
            for (size_t r = 0; r < rects.size() && !blocked; ++r)
            {
                if (strictlyInside(rects[r], mx, my)) blocked = true;
            }
            if (blocked) continue;
            c += fabs(xs[ni] - xs[i]) + fabs(ys[nj] - ys[j]);
            int ns = (ni * ny + nj) * 4 + nd;
            if (c < dist[ns] - 1e-12) { dist[ns] = c; pq.push(QE(c, ns)); }
        }
    }
    return best;
}

static double routeCost(const PolyLine& r, double pen, bool& axisOk)
{
    double len = 0; int bends = 0; axisOk = true;
    int lastDir = -1;
    for (size_t i = 1; i < r.size(); ++i)
    {
        double dx = r.ps[i].x - r.ps[i-1].x, dy = r.ps[i].y - r.ps[i-1].y;
        if (dx != 0 && dy != 0) axisOk = false;
        if (dx == 0 && dy == 0) continue;
        len += fabs(dx) + fabs(dy);
        int dir = (dx > 0) ? 1 : (dx < 0) ? 3 : (dy > 0) ? 2 : 0;
        if (lastDir >= 0 && dir != lastDir) { bends += (dir == (lastDir + 2) % 4) ? 2 : 1; }
        lastDir = dir;
    }
    return len + pen * bends;
}

static void printRoute(const char *label, const PolyLine& r)
{
    printf("    %s:", label);
    for (size_t k = 0; k < r.size(); ++k) printf(" (%g,%g)", r.ps[k].x, r.ps[k].y);
    printf("\n");
}
