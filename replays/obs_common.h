// Shared helper for the c15d observations: run a scenario in a child process
// and turn "child crashed / sanitizer aborted / child reported a failure" into
// exit status 1 of the parent (1 = defect present, 0 = clean).
#ifndef OBS_COMMON_H
#define OBS_COMMON_H
#include <cstdio>
#include <cstdlib>
#include <unistd.h>
#include <sys/wait.h>

// Make ASan/LSan/UBSan builds exit with status 1 on any report.
extern "C" const char *__asan_default_options() { return "exitcode=1:detect_leaks=1"; }
extern "C" const char *__lsan_default_options() { return "exitcode=1"; }
extern "C" const char *__ubsan_default_options() { return "halt_on_error=1:exitcode=1"; }

static int runScenario(const char *name, int (*scenario)(void))
{
    fflush(stdout); fflush(stderr);
    pid_t pid = fork();
    if (pid == 0)
    {
        int rc = scenario();
        fflush(stdout); fflush(stderr);
        // Use exit(), not _exit(): LeakSanitizer reports at normal exit.
        exit(rc);
    }
    int status = 0;
    waitpid(pid, &status, 0);
    if (WIFSIGNALED(status))
    {
        printf("[%s] DEFECT: child killed by signal %d\n", name, WTERMSIG(status));
        return 1;
    }
    if (WEXITSTATUS(status) != 0)
    {
        printf("[%s] DEFECT: child exit status %d\n", name, WEXITSTATUS(status));
        return 1;
    }
    printf("[%s] clean\n", name);
    return 0;
}
#endif
