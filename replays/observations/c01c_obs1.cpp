// Observation on the UNMODIFIED code: the static vpsc::Solver does not enforce
// an equality constraint whose right-hand variable starts too far to the
// RIGHT (positive slack).  It is left unsatisfied, is not flagged
// unsatisfiable and nothing is thrown.  The IncSolver handles the same input.
//
//   g++ -std=gnu++11 -I$WT/cola obs1.cpp -o obs1 $WT/cola/libvpsc/.libs/libvpsc.a
#include <libvpsc/variable.h>
#include <libvpsc/constraint.h>
#include <libvpsc/solve_VPSC.h>
#include <libvpsc/exceptions.h>
#include <cstdio>
#include <cmath>
using namespace vpsc;

static int run(bool incremental, bool useSolve)
{
    Variables vs;
    vs.push_back(new Variable(0, 0.0));
    vs.push_back(new Variable(1, 10.0));
    Constraints cs;
    cs.push_back(new Constraint(vs[0], vs[1], 5.0, true));   // v0 + 5 == v1
    int bad = 0;
    try {
        if (incremental) {
            IncSolver s(vs, cs);
            if (useSolve) s.solve(); else s.satisfy();
        } else {
            Solver s(vs, cs);
            if (useSolve) s.solve(); else s.satisfy();
        }
    } catch (...) {
        printf("  threw\n");
        bad = 1;
    }
    double slack = vs[1]->finalPosition - 5.0 - vs[0]->finalPosition;
    printf("  %s %s: v0=%g v1=%g  v1-5-v0=%g  flagged=%d\n",
            incremental ? "IncSolver" : "Solver", useSolve ? "solve()" : "satisfy()",
            vs[0]->finalPosition, vs[1]->finalPosition, slack,
            (int) cs[0]->unsatisfiable);
    if (!cs[0]->unsatisfiable && std::fabs(slack) > 1e-6) {
        printf("  -> equality neither satisfied nor flagged\n");
        bad = 1;
    }
    return bad;
}

int main()
{
    int bad = 0;
    bad += run(true, true);
    bad += run(true, false);
    bad += run(false, true);
    bad += run(false, false);
    printf(bad ? "FAIL (%d)\n" : "PASS\n", bad);
    return bad ? 1 : 0;
}
