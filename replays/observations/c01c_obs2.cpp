// Observation on the UNMODIFIED code: the solver's own final check uses an
// absolute tolerance of 1e-10.  With coordinates of the order of 1e9 and
// fractional gaps, the rounding error of block position + offset exceeds
// that, and IncSolver::satisfy()/solve() throws a char* "Unsatisfied
// constraint" exception for a feasible DAG of inequalities (before it has
// copied the result), although the positions it computed satisfy every
// constraint to within 1e-6.
//
//   g++ -std=gnu++11 -I$WT/cola obs2.cpp -o obs2 $WT/cola/libvpsc/.libs/libvpsc.a
#include <libvpsc/variable.h>
#include <libvpsc/constraint.h>
#include <libvpsc/solve_VPSC.h>
#include <libvpsc/exceptions.h>
#include <cstdio>
using namespace vpsc;

int main()
{
    const double M = 1e9;
    double d[6] = { 2.1*M, 6.5*M, 7.0*M, -1.4*M, 10.0*M, -2.6*M };
    double w[6] = { 1, 1, 1, 1, 50, 1 };
    Variables vs;
    for (int i = 0; i < 6; ++i) vs.push_back(new Variable(i, d[i], w[i]));
    Constraints cs;
    cs.reserve(8);
    cs.push_back(new Constraint(vs[1], vs[2], 0.1));
    cs.push_back(new Constraint(vs[2], vs[5], -1.8));
    cs.push_back(new Constraint(vs[5], vs[4], -1.5));
    IncSolver s(vs, cs);
    int bad = 0;
    try {
        s.solve();
        Constraint *c = new Constraint(vs[1], vs[5], 4.9);
        cs.push_back(c);
        s.addConstraint(c);
        s.solve();
    } catch (char *msg) {
        printf("threw char* exception from the solver\n");
        bad = 1;
    }
    for (size_t k = 0; k < cs.size(); ++k) {
        printf("c%zu: v%d + %g <= v%d   flagged=%d\n", k, cs[k]->left->id,
                cs[k]->gap, cs[k]->right->id, (int) cs[k]->unsatisfiable);
    }
    printf(bad ? "FAIL\n" : "PASS\n");
    return bad;
}
