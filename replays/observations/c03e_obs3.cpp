// Observation 3 (UNMODIFIED code): with a shape buffer distance, a connector endpoint that
// lies OUTSIDE a shape but within the buffer distance of it is treated as if it were inside
// the shape: the orthogonal route runs straight through the shape's interior although a
// path around the shape exists.
//
// exit 1 = defect present, exit 0 = fine.
#include "libavoid/libavoid.h"
#include <cstdio>
#include <algorithm>
using namespace Avoid;

static bool throughInterior(double x1, double y1, double x2, double y2, const Point& a, const Point& b)
{
    double t0 = 0, t1 = 1;
    const double d[2] = { b.x - a.x, b.y - a.y }, p[2] = { a.x, a.y };
    const double lo[2] = { x1, y1 }, hi[2] = { x2, y2 };
    for (int k = 0; k < 2; ++k)
    {
        if (d[k] == 0) { if (!(lo[k] < p[k] && p[k] < hi[k])) return false; }
        else
        {
            double ta = (lo[k] - p[k]) / d[k], tb = (hi[k] - p[k]) / d[k];
            if (ta > tb) std::swap(ta, tb);
            t0 = std::max(t0, ta); t1 = std::min(t1, tb);
        }
    }
    if (d[0] == 0 && d[1] == 0) return true;
    return t0 < t1;
}

int main(void)
{
    Router *router = new Router(OrthogonalRouting);
    router->setRoutingParameter(segmentPenalty, 50);
    router->setRoutingParameter(shapeBufferDistance, 10);

    Rectangle rect(Point(100, 100), Point(200, 200));
    new ShapeRef(router, rect, 1);
    // Bystanders so that the endpoints are not on the outside of the scene.
    Rectangle rect2(Point(-100, -100), Point(-40, -40));
    new ShapeRef(router, rect2, 2);
    Rectangle rect3(Point(400, 300), Point(460, 360));
    new ShapeRef(router, rect3, 3);

    const Point src(95, 150);      // 5 to the left of the shape: outside it, inside its buffer
    const Point dst(300, 150);     // to the right of the shape
    ConnRef *conn = new ConnRef(router, ConnEnd(src), ConnEnd(dst), 10);
    router->processTransaction();

    int bad = 0;
    const PolyLine& route = conn->displayRoute();
    printf("conn %u:", conn->id());
    for (size_t k = 0; k < route.size(); ++k) printf(" (%g,%g)", route.ps[k].x, route.ps[k].y);
    printf("\n");
    for (size_t k = 1; k < route.size(); ++k)
    {
        if (throughInterior(100, 100, 200, 200, route.ps[k - 1], route.ps[k]))
        {
            printf("  DEFECT: segment (%g,%g)-(%g,%g) passes through the interior of shape 1 [100,100]-[200,200]\n",
                    route.ps[k - 1].x, route.ps[k - 1].y, route.ps[k].x, route.ps[k].y);
            ++bad;
        }
    }
    delete router;
    return bad ? 1 : 0;
}
