// Side remark (UNMODIFIED code; hyperedge connectivity rather than C03): hyperedge rerouting
// of a junction with three free-point terminals.  The MTST picks terminal t2 (0,400) as the
// root of the tree, the rerouter puts the new junction ON that terminal and creates only two
// connectors (to t1 and t3); the improver then moves the junction along the common edge to
// (200,400) (recommended position) and the routes of both connectors start there.  The
// piece (0,400)-(200,400), i.e. the arm to terminal t2, is not represented by any connector.
// Prints the connectors, junctions and the new/deleted object counts; always exits 0.
#include "libavoid/libavoid.h"
#include <cstdio>
using namespace Avoid;
int main(void)
{
    Router *router = new Router(OrthogonalRouting);
    router->setRoutingParameter(segmentPenalty, 50);
    router->setRoutingParameter(idealNudgingDistance, 10);
    Rectangle rect(Point(200, 100), Point(260, 200));
    ShapeRef *S = new ShapeRef(router, rect, 1);
    (void) S;
    Rectangle rect2(Point(500, 0), Point(560, 60));
    new ShapeRef(router, rect2, 2);
    JunctionRef *j = new JunctionRef(router, Point(230, 400), 7);
    const Point t1(230, 0), t2(0, 400), t3(460, 400);
    new ConnRef(router, ConnEnd(t1), ConnEnd(j), 11);
    new ConnRef(router, ConnEnd(t2), ConnEnd(j), 12);
    new ConnRef(router, ConnEnd(t3), ConnEnd(j), 13);
    router->hyperedgeRerouter()->registerHyperedgeForRerouting(j);
    router->processTransaction();
    for (ConnRefList::const_iterator it = router->connRefs.begin(); it != router->connRefs.end(); ++it)
    {
        const PolyLine& route = (*it)->displayRoute();
        std::pair<ConnEnd, ConnEnd> e = (*it)->endpointConnEnds();
        printf("conn %u: src %s (%g,%g) dst %s (%g,%g) :", (*it)->id(), e.first.junction() ? "J" : "P", e.first.position().x, e.first.position().y,
            e.second.junction() ? "J" : "P", e.second.position().x, e.second.position().y);
        for (size_t k = 0; k < route.size(); ++k) printf(" (%g,%g)", route.ps[k].x, route.ps[k].y);
        printf("\n");
    }
    for (ObstacleList::iterator it = router->m_obstacles.begin(); it != router->m_obstacles.end(); ++it)
    {
        JunctionRef *jr = dynamic_cast<JunctionRef *>(*it);
        if (jr) printf("junction %u at (%g,%g) rec (%g,%g)\n", jr->id(), jr->position().x, jr->position().y, jr->recommendedPosition().x, jr->recommendedPosition().y);
    }
    HyperedgeNewAndDeletedObjectLists l = router->hyperedgeRerouter()->newAndDeletedObjectLists(0);
    printf("new conns %d, deleted conns %d, new junctions %d, deleted junctions %d\n", (int) l.newConnectorList.size(), (int) l.deletedConnectorList.size(), (int) l.newJunctionList.size(), (int) l.deletedJunctionList.size());
    return 0;
}
