// Side observation (UNMODIFIED code, assertions enabled as in the default build): a valid
// scene of interior-disjoint rectangles and free endpoints makes the nudging step abort with
//   orthogonal.cpp:3081 ... Assertion `vs[it->second]->id != freeSegmentID' failed.
// (scene found by the random explorer: explore 1149 1149 0)
#include "libavoid/libavoid.h"
#include <cstdio>
using namespace Avoid;
static ShapeRef *mk(Router *router, Rectangle r, unsigned id) { return new ShapeRef(router, r, id); }
int main(void)
{

    Router *router = new Router(OrthogonalRouting);
    router->setRoutingParameter(shapeBufferDistance, 4);
    router->setRoutingParameter(segmentPenalty, 20);
    router->setRoutingParameter(idealNudgingDistance, 25);
    router->setRoutingOption(nudgeOrthogonalSegmentsConnectedToShapes, false);
    router->setRoutingOption(improveHyperedgeRoutesMovingJunctions, true);
    router->setRoutingOption(penaliseOrthogonalSharedPathsAtConnEnds, true);
    router->setRoutingOption(nudgeOrthogonalTouchingColinearSegments, false);
    router->setRoutingOption(performUnifyingNudgingPreprocessingStep, false);
    router->setRoutingOption(improveHyperedgeRoutesMovingAddingAndDeletingJunctions, false);
    router->setRoutingOption(nudgeSharedPathsWithCommonEndPoint, false);
    ShapeRef *s1 = mk(router, Rectangle(Point(120, 85), Point(135, 95)), 1);
    ShapeRef *s2 = mk(router, Rectangle(Point(110, 35), Point(170, 60)), 2);
    ShapeRef *s3 = mk(router, Rectangle(Point(35, 35), Point(50, 60)), 3);
    ShapeRef *s4 = mk(router, Rectangle(Point(145, 200), Point(170, 260)), 4);
    ConnRef *c5 = new ConnRef(router, ConnEnd(Point(177.5, 190)), ConnEnd(Point(150, 275)), 5);
    ConnRef *c6 = new ConnRef(router, ConnEnd(Point(2.5, 260)), ConnEnd(Point(272.5, 52.5)), 6);
    ConnRef *c7 = new ConnRef(router, ConnEnd(Point(97.5, 105)), ConnEnd(Point(180, 185)), 7);
    ConnRef *c8 = new ConnRef(router, ConnEnd(Point(80, 232.5)), ConnEnd(Point(77.5, 40)), 8);
    ConnRef *c9 = new ConnRef(router, ConnEnd(Point(255, 282.5)), ConnEnd(Point(180, 122.5)), 9);
    ConnRef *c10 = new ConnRef(router, ConnEnd(Point(20, -10)), ConnEnd(Point(250, 85)), 10);
    ConnRef *c11 = new ConnRef(router, ConnEnd(Point(270, -20)), ConnEnd(Point(282.5, 267.5)), 11);
    router->processTransaction();
    c8->setSourceEndpoint(ConnEnd(Point(205, 260)));
    ShapeRef *s1000 = mk(router, Rectangle(Point(95, 185), Point(125, 210)), 1000);
    router->moveShape(s1000, -10, -30);
    router->processTransaction();
    router->moveShape(s3, 35, 15);
    ShapeRef *s1001 = mk(router, Rectangle(Point(30, 110), Point(70, 135)), 1001);
    router->moveShape(s3, -20, -30);
    router->processTransaction();
    ShapeRef *s1002 = mk(router, Rectangle(Point(195, 175), Point(230, 235)), 1002);
    ShapeRef *s1003 = mk(router, Rectangle(Point(0, 185), Point(10, 245)), 1003);

    router->processTransaction();
    printf("no assertion failure\n");
    delete router;
    return 0;
}
