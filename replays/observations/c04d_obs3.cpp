// Self-contained reproduction program (oracle + harness + scene).
// Independent exact-ish oracle for polyline shortest paths among convex polygons
// with integer coordinates.
#include <vector>
#include <cmath>
#include <queue>
#include <map>
#include <cstdio>
#include <algorithm>

typedef long long ll;
struct IPt { ll x, y; };
typedef std::vector<IPt> IPoly;   // convex, vertices in order with positive cross (libavoid order)

static inline ll cross(const IPt& a, const IPt& b, const IPt& c)
{
    return (b.x - a.x) * (c.y - a.y) - (c.x - a.x) * (b.y - a.y);
}

// compare fractions n1/d1 < n2/d2, with d1,d2 > 0
static inline bool fracLess(ll n1, ll d1, ll n2, ll d2)
{
    return (__int128) n1 * d2 < (__int128) n2 * d1;
}

// Does the closed segment pq contain a point strictly inside convex polygon P?
static bool segHitsInterior(const IPt& p, const IPt& q, const IPoly& P)
{
    // point(t) = p + t (q-p); inside iff for every side (a,b): cross(a,b,pt) has
    // the sign of the polygon orientation, strictly.
    size_t n = P.size();
    if (n < 3) return false;
    // orientation
    ll orient = 0;
    for (size_t i = 0; i < n && orient == 0; ++i)
        orient = cross(P[i], P[(i + 1) % n], P[(i + 2) % n]);
    if (orient == 0) return false; // zero area
    int sgn = (orient > 0) ? 1 : -1;
    // lower bound L = Ln/Ld, upper bound U = Un/Ud
    ll Ln = 0, Ld = 1; // t >= 0
    ll Un = 1, Ud = 1; // t <= 1
    for (size_t i = 0; i < n; ++i)
    {
        const IPt& a = P[i];
        const IPt& b = P[(i + 1) % n];
        ll A = sgn * cross(a, b, p);
        ll B = sgn * cross(a, b, q) - A;  // value(t) = A + B t  > 0 required
        if (B == 0)
        {
            if (A <= 0) return false;
            continue;
        }
        if (B > 0)
        {
            ll nn = -A, dd = B;   // t > nn/dd
            if (fracLess(Ln, Ld, nn, dd)) { Ln = nn; Ld = dd; }
        }
        else
        {
            ll nn = A, dd = -B;   // t < nn/dd
            if (fracLess(nn, dd, Un, Ud)) { Un = nn; Ud = dd; }
        }
    }
    // feasible iff L < U  (if both non-strict and equal also feasible, but then
    // there were no strict constraints, impossible for n>=3 with B!=0 somewhere;
    // if all B==0 and all A>0 then p inside: L=0,U=1 -> feasible)
    if (fracLess(Ln, Ld, Un, Ud)) return true;
    return false;
}

static bool pointStrictlyInside(const IPt& p, const IPoly& P)
{
    return segHitsInterior(p, p, P) ;
}

// point in closed polygon
static bool pointInClosed(const IPt& p, const IPoly& P)
{
    size_t n = P.size();
    ll orient = 0;
    for (size_t i = 0; i < n && orient == 0; ++i)
        orient = cross(P[i], P[(i + 1) % n], P[(i + 2) % n]);
    int sgn = (orient > 0) ? 1 : -1;
    for (size_t i = 0; i < n; ++i)
        if (sgn * cross(P[i], P[(i + 1) % n], p) < 0) return false;
    return true;
}

static bool visibleExact(const IPt& p, const IPt& q, const std::vector<IPoly>& polys)
{
    for (size_t i = 0; i < polys.size(); ++i)
        if (segHitsInterior(p, q, polys[i])) return false;
    return true;
}

static double edist(const IPt& a, const IPt& b)
{
    double dx = (double)(a.x - b.x), dy = (double)(a.y - b.y);
    return sqrt(dx * dx + dy * dy);
}

struct OracleResult { double len; double cost; int bends; bool found; };

// nodes: 0 = src, 1 = dst, then polygon vertices.
// penalty: cost per bend (non-collinear interior vertex).  tautOnly: only allow
// bends at a polygon vertex b where the path a-b-c wraps around the polygon
// (both neighbours of b in the polygon lie, non-strictly, on the inner side of
// the turn).
static OracleResult oracleShortest(const IPt& src, const IPt& dst,
        const std::vector<IPoly>& polys, double penalty, bool tautOnly)
{
    std::vector<IPt> pts;
    std::vector<int> polyOf, idxIn;
    pts.push_back(src); polyOf.push_back(-1); idxIn.push_back(-1);
    pts.push_back(dst); polyOf.push_back(-1); idxIn.push_back(-1);
    for (size_t i = 0; i < polys.size(); ++i)
        for (size_t j = 0; j < polys[i].size(); ++j)
        {
            pts.push_back(polys[i][j]); polyOf.push_back((int) i); idxIn.push_back((int) j);
        }
    size_t N = pts.size();
    std::vector<std::vector<char> > vis(N, std::vector<char>(N, 0));
    for (size_t i = 0; i < N; ++i)
        for (size_t j = i + 1; j < N; ++j)
        {
            if (pts[i].x == pts[j].x && pts[i].y == pts[j].y) continue;
            bool v = visibleExact(pts[i], pts[j], polys);
            vis[i][j] = vis[j][i] = v;
        }
    // State (v, prev) -> index v*N+prev ; prev==v means none.
    std::vector<double> best(N * N, 1e300);
    typedef std::pair<double, size_t> QE;
    std::priority_queue<QE, std::vector<QE>, std::greater<QE> > pq;
    best[0 * N + 0] = 0; pq.push(QE(0, 0 * N + 0));
    std::vector<size_t> from(N * N, (size_t) -1);
    OracleResult res; res.found = false; res.len = res.cost = 0; res.bends = 0;
    while (!pq.empty())
    {
        QE e = pq.top(); pq.pop();
        size_t st = e.second; double d = e.first;
        if (d > best[st]) continue;
        size_t v = st / N, pv = st % N;
        if (v == 1)
        {
            res.found = true; res.cost = d;
            // reconstruct
            double len = 0; int bends = 0;
            size_t s = st;
            while (from[s] != (size_t) -1)
            {
                size_t a = s / N, b = s % N;
                len += edist(pts[a], pts[b]);
                size_t ps = from[s];
                size_t pb = ps % N, pa = ps / N;
                if (pa != pb && cross(pts[pb], pts[pa], pts[a]) != 0) bends++;
                s = ps;
            }
            res.len = len; res.bends = bends;
            return res;
        }
        for (size_t w = 2; w <= N; ++w)
        {
            size_t u = (w == N) ? 1 : w;  // try all shape vertices, and dst
            if (u == v || !vis[v][u]) continue;
            double step = edist(pts[v], pts[u]);
            if (pv != v)
            {
                ll cr = cross(pts[pv], pts[v], pts[u]);
                if (cr != 0)
                {
                    step += penalty;
                    if (tautOnly)
                    {
                        const IPoly& P = polys[polyOf[v]];
                        size_t n = P.size();
                        const IPt& d0 = P[(idxIn[v] + n - 1) % n];
                        const IPt& e0 = P[(idxIn[v] + 1) % n];
                        // turn sign
                        int ts = (cr > 0) ? 1 : -1;
                        // polygon neighbours must be on inner side of both
                        // segments: i.e. same side as turn for line pv->v and v->u
                        ll c1 = cross(pts[pv], pts[v], d0) * ts, c2 = cross(pts[pv], pts[v], e0) * ts;
                        ll c3 = cross(pts[v], pts[u], d0) * ts, c4 = cross(pts[v], pts[u], e0) * ts;
                        if (c1 < 0 || c2 < 0 || c3 < 0 || c4 < 0) continue;
                    }
                }
                else
                {
                    // collinear: must continue forward, not backwards
                    ll dot = (pts[v].x - pts[pv].x) * (pts[u].x - pts[v].x) +
                             (pts[v].y - pts[pv].y) * (pts[u].y - pts[v].y);
                    if (dot < 0) continue;
                }
            }
            size_t ns = u * N + v;
            if (d + step < best[ns] - 1e-12)
            {
                best[ns] = d + step; from[ns] = st;
                pq.push(QE(best[ns], ns));
            }
        }
    }
    return res;
}

// ---- common demo harness (scene description, route checking against the oracle) ----
#include "libavoid/libavoid.h"
#include <string>

struct DemoScene {
    std::vector<IPoly> polys;
    IPt src, dst;
};

static IPoly rect(ll xmin, ll ymin, ll xmax, ll ymax)
{
    // Same vertex order as Avoid::Rectangle.
    IPoly P;
    P.push_back({xmax, ymin}); P.push_back({xmax, ymax});
    P.push_back({xmin, ymax}); P.push_back({xmin, ymin});
    return P;
}

static Avoid::Polygon toAvoid(const IPoly& P)
{
    Avoid::Polygon poly(P.size());
    for (size_t i = 0; i < P.size(); ++i)
        poly.ps[i] = Avoid::Point((double) P[i].x, (double) P[i].y);
    return poly;
}

// Checks the connector's displayRoute() against the oracle.  Returns true if OK.
static bool checkRoute(const char *label, Avoid::ConnRef *conn, const IPt& src,
        const IPt& dst, const std::vector<IPoly>& polys, double penalty)
{
    const Avoid::PolyLine& route = conn->displayRoute();
    std::vector<IPt> rp;
    bool ok = true;
    for (size_t i = 0; i < route.size(); ++i)
    {
        IPt p = {(ll) llround(route.ps[i].x), (ll) llround(route.ps[i].y)};
        if (fabs(route.ps[i].x - p.x) > 1e-9 || fabs(route.ps[i].y - p.y) > 1e-9)
        {
            printf("  %s: route point %g,%g is not a scene vertex\n", label,
                    route.ps[i].x, route.ps[i].y);
            ok = false;
        }
        rp.push_back(p);
    }
    double len = 0;
    int bends = 0;
    for (size_t i = 1; i < rp.size(); ++i)
    {
        len += edist(rp[i - 1], rp[i]);
        if (!visibleExact(rp[i - 1], rp[i], polys))
        {
            printf("  %s: segment %zu of the route passes through an obstacle\n", label, i);
            ok = false;
        }
        if (i + 1 < rp.size() && cross(rp[i - 1], rp[i], rp[i + 1]) != 0) bends++;
    }
    if (rp.size() < 2 || rp[0].x != src.x || rp[0].y != src.y ||
            rp.back().x != dst.x || rp.back().y != dst.y)
    {
        printf("  %s: route does not join the connector's endpoints\n", label);
        ok = false;
    }
    OracleResult any = oracleShortest(src, dst, polys, penalty, false);
    OracleResult taut = oracleShortest(src, dst, polys, penalty, true);
    double cost = len + penalty * bends;
    printf("  %s: route", label);
    for (size_t i = 0; i < rp.size(); ++i) printf(" (%lld,%lld)", rp[i].x, rp[i].y);
    printf("\n      length %.6f, %d bend(s), cost %.6f  |  oracle: length %.6f, %d bend(s), cost %.6f\n",
            len, bends, cost, taut.len, taut.bends, taut.cost);
    if (fabs(any.cost - taut.cost) > 1e-9)
    {
        // The demo scenes are chosen so that this does not happen.
        printf("  %s: (note) unrestricted oracle cost %.6f differs from taut-only oracle\n", label, any.cost);
    }
    if (fabs(cost - taut.cost) > 1e-6)
    {
        printf("  %s: WRONG: route cost %.6f differs from the optimum %.6f by %.6f\n",
                label, cost, taut.cost, cost - taut.cost);
        ok = false;
    }
    return ok;
}
// Observation 3 (unmodified library): changing the segment penalty of a router
// whose connectors are already routed does not reroute them, so the routes keep
// minimising the old cost.
//
// exit 1 = defect present, exit 0 = not present.
using namespace Avoid;

int main(void)
{
    std::vector<IPoly> polys;
    polys.push_back(rect(90, -30, 110, 200));
    IPoly Q; Q.push_back({100, -60}); Q.push_back({112, -35}); Q.push_back({88, -35});
    polys.push_back(Q);
    Router *router = new Router(PolyLineRouting);
    router->setRoutingParameter(segmentPenalty, 0);
    for (size_t i = 0; i < polys.size(); ++i)
    {
        Polygon p = toAvoid(polys[i]);
        new ShapeRef(router, p);
    }
    IPt src = {0, 0}, dst = {200, 0};
    ConnRef *conn = new ConnRef(router, ConnEnd(Point(0, 0)), ConnEnd(Point(200, 0)));
    conn->setRoutingType(ConnType_PolyLine);
    router->processTransaction();
    printf("1. routed with segment penalty 0\n");
    bool ok1 = checkRoute("p=0", conn, src, dst, polys, 0);

    printf("2. setRoutingParameter(segmentPenalty, 30); processTransaction()\n");
    router->setRoutingParameter(segmentPenalty, 30);
    bool did = router->processTransaction();
    printf("   processTransaction() returned %s\n", did ? "true" : "false");
    bool ok2 = checkRoute("p=30", conn, src, dst, polys, 30);
    delete router;
    if (!ok1)
    {
        printf("UNEXPECTED: the initial routing should be optimal\n");
        return 2;
    }
    if (!ok2)
    {
        printf("DEFECT PRESENT: the route was not updated for the new penalty\n");
        return 1;
    }
    printf("defect not present\n");
    return 0;
}
