// obs1: UNMODIFIED code.  With transactions switched off
// (Router::setTransactionUse(false)), constructing a connector with the
// two-endpoint constructor aborts (assertion) / would store a null reroute
// flag pointer in the visibility edges in an NDEBUG build.
//
// ConnRef::ConnRef(Router*, const ConnEnd&, const ConnEnd&) calls
// setEndpoints() *before* it registers m_reroute_flag_ptr.  With
// transactions off each setEndpoint processes a transaction at once, so the
// second one already runs generatePath(), which asserts
// m_reroute_flag_ptr != nullptr (connector.cpp:984) and otherwise hands the
// null pointer to EdgeInf::addConn().
//
// Exit 1 = defect present, 0 = not present.
#include <cstdio>
#include <cstdlib>
#include <unistd.h>
#include <sys/wait.h>
#include "libavoid/libavoid.h"
using namespace Avoid;

static int scenario(void)
{
    Router *router = new Router(PolyLineRouting);
    router->setTransactionUse(false);
    Polygon poly = Rectangle(Point(100, 100), Point(200, 200));
    new ShapeRef(router, poly);
    ConnRef *conn = new ConnRef(router, ConnEnd(Point(50, 150)),
            ConnEnd(Point(250, 150)));
    const PolyLine& route = conn->displayRoute();
    if (route.size() < 3)
    {
        printf("route does not avoid the shape\n");
        return 1;
    }
    delete router;
    return 0;
}

int main(void)
{
    fflush(stdout);
    pid_t pid = fork();
    if (pid == 0)
    {
        _exit(scenario());
    }
    int status = 0;
    waitpid(pid, &status, 0);
    if (WIFSIGNALED(status))
    {
        printf("DEFECT: child terminated by signal %d while constructing a "
               "connector with transactions off\n", WTERMSIG(status));
        return 1;
    }
    if (WEXITSTATUS(status) != 0)
    {
        printf("DEFECT: wrong result\n");
        return 1;
    }
    printf("ok\n");
    return 0;
}
