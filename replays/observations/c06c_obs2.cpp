// obs2: UNMODIFIED code.  With transactions switched off, moving a shape
// that has a connector attached to one of its connection pins never returns:
// Router::moveShape -> processTransaction -> processActions ->
// ShapeRef::moveAttachedConns -> Router::modifyConnector -> (transactions
// off) processTransaction -> processActions (on the same, still populated
// action list) -> moveAttachedConns -> ... until the stack overflows.
//
// Exit 1 = defect present, 0 = not present.
#include <cstdio>
#include <cstdlib>
#include <unistd.h>
#include <sys/wait.h>
#include "libavoid/libavoid.h"
using namespace Avoid;

static int scenario(void)
{
    Router *router = new Router(PolyLineRouting);
    Polygon poly = Rectangle(Point(100, 100), Point(200, 200));
    ShapeRef *shape = new ShapeRef(router, poly);
    new ShapeConnectionPin(shape, 1, ATTACH_POS_CENTRE, ATTACH_POS_CENTRE,
            true, 0, ConnDirAll);
    Polygon poly2 = Rectangle(Point(300, 80), Point(340, 220));
    new ShapeRef(router, poly2);
    ConnRef *conn = new ConnRef(router, ConnEnd(shape, 1),
            ConnEnd(Point(450, 150)));
    router->processTransaction();

    router->setTransactionUse(false);
    router->moveShape(shape, 0, 200);

    const PolyLine& route = conn->displayRoute();
    if ((route.size() < 2) || !(route.ps[0] == Point(150, 350)))
    {
        printf("connector did not follow the shape\n");
        return 1;
    }
    delete router;
    return 0;
}

int main(void)
{
    fflush(stdout);
    pid_t pid = fork();
    if (pid == 0)
    {
        _exit(scenario());
    }
    int status = 0;
    waitpid(pid, &status, 0);
    if (WIFSIGNALED(status))
    {
        printf("DEFECT: child terminated by signal %d while moving a shape "
               "with an attached connector, transactions off\n",
               WTERMSIG(status));
        return 1;
    }
    if (WEXITSTATUS(status) != 0)
    {
        printf("DEFECT: wrong result\n");
        return 1;
    }
    printf("ok\n");
    return 0;
}
