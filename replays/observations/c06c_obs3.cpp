// obs3: UNMODIFIED code.  Router with both routing modes
// (PolyLineRouting | OrthogonalRouting) and InvisibilityGrph = false: any
// transaction that moves or deletes a shape after the first one aborts.
// Router::checkAllMissingEdges() walks all vertices, including the dummy
// vertices of the orthogonal visibility graph left from the previous
// transaction, and passes them to EdgeInf::checkEdgeVisibility(), which
// asserts i->id != dummyOrthogID (graph.cpp:590); in an NDEBUG build it
// would create poly-line visibility edges to those dummy vertices, which
// are deleted a moment later by destroyOrthogonalVisGraph().
//
// Exit 1 = defect present, 0 = not present.
#include <cstdio>
#include <cstdlib>
#include <unistd.h>
#include <sys/wait.h>
#include "libavoid/libavoid.h"
using namespace Avoid;

static int scenario(void)
{
    Router *router = new Router(PolyLineRouting | OrthogonalRouting);
    router->InvisibilityGrph = false;
    Polygon poly = Rectangle(Point(100, 100), Point(200, 200));
    ShapeRef *shape = new ShapeRef(router, poly);
    Polygon poly2 = Rectangle(Point(300, 80), Point(340, 220));
    new ShapeRef(router, poly2);
    ConnRef *c1 = new ConnRef(router, ConnEnd(Point(50, 150)),
            ConnEnd(Point(450, 150)));
    c1->setRoutingType(ConnType_PolyLine);
    ConnRef *c2 = new ConnRef(router, ConnEnd(Point(50, 170)),
            ConnEnd(Point(450, 170)));
    c2->setRoutingType(ConnType_Orthogonal);
    router->processTransaction();

    router->moveShape(shape, 0, 200);
    router->processTransaction();
    delete router;
    return 0;
}

int main(void)
{
    fflush(stdout);
    pid_t pid = fork();
    if (pid == 0)
    {
        _exit(scenario());
    }
    int status = 0;
    waitpid(pid, &status, 0);
    if (WIFSIGNALED(status))
    {
        printf("DEFECT: child terminated by signal %d in the second "
               "transaction\n", WTERMSIG(status));
        return 1;
    }
    printf("ok\n");
    return 0;
}
