// obs4: UNMODIFIED code.  With Router::SelectiveReroute = false (and the
// default InvisibilityGrph = true) connectors are not rerouted at all when a
// shape they do not touch is removed, although a shorter path has opened:
// the flag only disables the call of
// markPolylineConnectorsNeedingReroutingForDeletedObstacle(), it does not
// make the router reroute every connector instead.
//
// Exit 1 = defect present, 0 = not present.
#include <cstdio>
#include <cmath>
#include "libavoid/libavoid.h"
using namespace Avoid;

static double length(const PolyLine& r)
{
    double len = 0;
    for (size_t i = 1; i < r.size(); ++i)
        len += euclideanDist(r.ps[i - 1], r.ps[i]);
    return len;
}

int main(void)
{
    Router *router = new Router(PolyLineRouting);
    router->SelectiveReroute = false;
    Polygon pa = Rectangle(Point(100, 100), Point(140, 220));
    new ShapeRef(router, pa);
    Polygon pm = Rectangle(Point(90, 40), Point(150, 110));
    ShapeRef *m = new ShapeRef(router, pm);
    ConnRef *c = new ConnRef(router, ConnEnd(Point(50, 150)),
            ConnEnd(Point(400, 150)));
    router->processTransaction();
    router->deleteShape(m);
    router->processTransaction();
    double inc = length(c->displayRoute());

    Router *fresh = new Router(PolyLineRouting);
    fresh->SelectiveReroute = false;
    new ShapeRef(fresh, pa);
    ConnRef *fc = new ConnRef(fresh, ConnEnd(Point(50, 150)),
            ConnEnd(Point(400, 150)));
    fresh->processTransaction();
    double fr = length(fc->displayRoute());

    printf("incremental %.6f, fresh %.6f\n", inc, fr);
    int result = (inc > fr + 1e-6) ? 1 : 0;
    printf(result ? "DEFECT: connector not rerouted after the shape was "
            "deleted\n" : "ok\n");
    delete router;
    delete fresh;
    return result;
}
