// obs5: UNMODIFIED code.  With Router::RubberBandRouting = true, deleting a
// shape that a connector bends around aborts in the next transaction:
// ConnRef::generateStandardPath() looks up the vertex of the last bend of
// the old route by ID, the vertex is gone with the shape, and
// COLA_ASSERT(m_start_vert) fails (connector.cpp:1199); an NDEBUG build
// passes the null vertex on to the search.
//
// Exit 1 = defect present, 0 = not present.
#include <cstdio>
#include <cstdlib>
#include <unistd.h>
#include <sys/wait.h>
#include "libavoid/libavoid.h"
using namespace Avoid;

static int scenario(void)
{
    Router *router = new Router(PolyLineRouting);
    router->RubberBandRouting = true;
    Polygon poly = Rectangle(Point(200, 60), Point(240, 250));
    ShapeRef *shape = new ShapeRef(router, poly);
    ConnRef *conn = new ConnRef(router, ConnEnd(Point(50, 150)),
            ConnEnd(Point(400, 150)));
    router->processTransaction();
    router->deleteShape(shape);
    router->processTransaction();
    const PolyLine& route = conn->displayRoute();
    int result = (route.size() == 2) ? 0 : 1;
    delete router;
    return result;
}

int main(void)
{
    fflush(stdout);
    pid_t pid = fork();
    if (pid == 0)
    {
        _exit(scenario());
    }
    int status = 0;
    waitpid(pid, &status, 0);
    if (WIFSIGNALED(status))
    {
        printf("DEFECT: child terminated by signal %d after deleting the "
               "shape\n", WTERMSIG(status));
        return 1;
    }
    if (WEXITSTATUS(status) != 0)
    {
        printf("DEFECT: connector not straight after the only shape was "
               "deleted\n");
        return 1;
    }
    printf("ok\n");
    return 0;
}
