// c06d obs2 -- UNMODIFIED code, segmentPenalty 0: variant of the known "adding a shape can offer
// a cheaper corner that nothing reroutes to".  Here no penalty is needed: the connector's target
// lies inside shape P, whose corners it therefore cannot use; the corners of P's overlapping
// neighbour Q are inside P and unusable too, so the only way out is a long detour round R.  Adding
// shape N next to them provides usable corners and a much shorter route, but the connector is not
// re-routed (the new shape does not block its current route).
// exit 1 = defect present.
#include <cstdio>
#include <cmath>
#include "libavoid/libavoid.h"
using namespace Avoid;
static double len(const PolyLine& r){double l=0;for(size_t i=1;i<r.size();++i)l+=euclideanDist(r.ps[i-1],r.ps[i]);return l;}
static void pr(const char*t,const PolyLine& r){printf("%s len %.6f:",t,len(r));for(size_t i=0;i<r.size();++i)printf(" (%g,%g)",r.ps[i].x,r.ps[i].y);printf("\n");}
static void add(Router *r,double x,double y,double w,double h){Polygon p=Rectangle(Point(x,y),Point(x+w,y+h));new ShapeRef(r,p);}
static void scene(Router *r, bool withN)
{
    r->setRoutingParameter(segmentPenalty,0);
    add(r, 84, 40, 73, 101);      // Q: blocks the straight line, bottom corners inside P
    add(r, 83, 130, 119, 64);     // P: contains the target
    add(r, 250, 4, 28, 95);       // R: far away
    if (withN) add(r, 117, 76, 114, 43);   // N
}
int main(void){
  Point s(154,32), d(154,173);
  Router *r=new Router(PolyLineRouting); scene(r,false);
  ConnRef *c=new ConnRef(r,ConnEnd(s),ConnEnd(d));
  r->processTransaction(); pr("T1 incremental       ",c->displayRoute());
  add(r, 117, 76, 114, 43);
  r->processTransaction(); pr("T2 incremental (N added)",c->displayRoute());
  Router *f=new Router(PolyLineRouting); scene(f,true);
  ConnRef *fc=new ConnRef(f,ConnEnd(s),ConnEnd(d));
  f->processTransaction(); pr("fresh, final scene   ",fc->displayRoute());
  int bad = len(c->displayRoute()) > len(fc->displayRoute())+1e-6;
  printf(bad?"defect present: incremental route longer than fresh route\n":"clean\n"); return bad;}
