#include <cstdio>
#include <cmath>
#include "libcola/cola.h"
using namespace cola;
int main() {
    vpsc::Rectangles rs;
    rs.push_back(new vpsc::Rectangle(0, 20, 0, 20));
    rs.push_back(new vpsc::Rectangle(100, 120, 50, 70));
    std::vector<Edge> es; es.push_back(Edge(0,1));
    CompoundConstraints ccs;
    ccs.push_back(new OrthogonalEdgeConstraint(vpsc::XDIM, 0, 1));
    UnsatisfiableConstraintInfos ux, uy;
    ConstrainedFDLayout alg(rs, es, 60);
    alg.setConstraints(ccs);
    alg.setUnsatisfiableConstraintInfo(&ux, &uy);
    alg.makeFeasible();
    printf("after makeFeasible: x0=%g x1=%g reported=%zu\n", rs[0]->getCentreX(), rs[1]->getCentreX(), ux.size()+uy.size());
    int bad = fabs(rs[0]->getCentreX()-rs[1]->getCentreX()) > 1e-4;
    alg.run();
    printf("after run: x0=%g x1=%g reported=%zu\n", rs[0]->getCentreX(), rs[1]->getCentreX(), ux.size()+uy.size());
    return bad;
}
