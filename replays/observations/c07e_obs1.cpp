// obs1: ConstrainedFDLayout::makeFeasible() silently drops part of an
// AlignmentConstraint although the whole constraint set is satisfiable.
//
//   two rectangles at the same place
//   BoundaryConstraint (Y):  rect 1 at least 10 above the line, rect 0 at least 10 below it
//                            (=> y0 - y1 >= 20)
//   AlignmentConstraint (Y): y0 = g + 50, y1 = g          (=> y0 - y1 == 50)
//
// The set is satisfiable (any y0 - y1 == 50), nothing can be reported by
// makeFeasible(), yet afterwards y0 - y1 == 20.
//
// exit 1 = defect present, 0 = constraints hold.
#include <cstdio>
#include <cmath>
#include <vector>
#include <libcola/cola.h>

using namespace cola;

int main()
{
    std::vector<vpsc::Rectangle*> rs;
    rs.push_back(new vpsc::Rectangle(-5, 5, -5, 5));   // rect 0
    rs.push_back(new vpsc::Rectangle(-5, 5, -5, 5));   // rect 1
    std::vector<Edge> es;

    AlignmentConstraint *al = new AlignmentConstraint(vpsc::YDIM);
    al->addShape(0, 50);
    al->addShape(1, 0);
    BoundaryConstraint *bd = new BoundaryConstraint(vpsc::YDIM);
    bd->addShape(1, -10);   // rect 1 above (left of) the line
    bd->addShape(0, 10);    // rect 0 below (right of) the line

    CompoundConstraints ccs;
    ccs.push_back(al);
    ccs.push_back(bd);      // same priority; makeFeasible takes the last one first

    ConstrainedFDLayout alg(rs, es, 30);
    alg.setConstraints(ccs);
    UnsatisfiableConstraintInfos ux, uy;
    alg.setUnsatisfiableConstraintInfo(&ux, &uy);
    alg.makeFeasible();

    double y0 = rs[0]->getCentreY(), y1 = rs[1]->getCentreY();
    printf("after makeFeasible: y0=%g y1=%g  (y0-y1=%g, alignment wants 50, boundary wants >=20)\n",
            y0, y1, y0 - y1);
    printf("reported unsatisfiable: x=%zu y=%zu\n", ux.size(), uy.size());
    int bad = 0;
    if (fabs((y0 - y1) - 50) > 1e-4 && ux.empty() && uy.empty())
    {
        printf("DEFECT: alignment violated by %g and nothing reported\n", (y0 - y1) - 50);
        bad = 1;
    }
    if (y0 - y1 < 20 - 1e-4)
    {
        printf("DEFECT: boundary violated\n");
        bad = 1;
    }
    return bad;
}
