// obs2: a FixedRelativeConstraint that repeats an equality which another
// constraint already states (consistently!) makes makeFeasible() throw away
// every constraint it handles afterwards in that dimension.
//
//   rect 0 at (0,0), rect 1 at (50,0), rect 2 at (0,100)
//   SeparationConstraint X: x1 - x0 == 50          (true in the input)
//   FixedRelativeConstraint {0,1}                  (also says x1 - x0 == 50)
//   SeparationConstraint X: x2 - x0 >= 100         (easy: move rect 2 right)
//
// Satisfiable; makeFeasible() reports nothing (it cannot), but leaves
// x2 - x0 == 0.
//
// exit 1 = defect present, 0 = constraints hold.
#include <cstdio>
#include <cmath>
#include <vector>
#include <libcola/cola.h>

using namespace cola;

int main()
{
    std::vector<vpsc::Rectangle*> rs;
    rs.push_back(new vpsc::Rectangle(-5, 5, -5, 5));     // rect 0 (0,0)
    rs.push_back(new vpsc::Rectangle(45, 55, -5, 5));    // rect 1 (50,0)
    rs.push_back(new vpsc::Rectangle(-5, 5, 95, 105));   // rect 2 (0,100)
    std::vector<Edge> es;

    std::vector<unsigned> grp;
    grp.push_back(0);
    grp.push_back(1);

    CompoundConstraints ccs;
    // makeFeasible() works from the back of the list for equal priorities.
    ccs.push_back(new SeparationConstraint(vpsc::XDIM, 0, 2, 100));
    ccs.push_back(new FixedRelativeConstraint(rs, grp));
    ccs.push_back(new SeparationConstraint(vpsc::XDIM, 0, 1, 50, true));

    ConstrainedFDLayout alg(rs, es, 30);
    alg.setConstraints(ccs);
    alg.makeFeasible();

    double x0 = rs[0]->getCentreX(), x1 = rs[1]->getCentreX(), x2 = rs[2]->getCentreX();
    printf("after makeFeasible: x0=%g x1=%g x2=%g\n", x0, x1, x2);
    int bad = 0;
    if (fabs(x1 - x0 - 50) > 1e-4) { printf("DEFECT: x1-x0=%g, wanted 50\n", x1 - x0); bad = 1; }
    if (x2 - x0 < 100 - 1e-4) { printf("DEFECT: x2-x0=%g, wanted >= 100\n", x2 - x0); bad = 1; }
    return bad;
}
