// Observation on UNMODIFIED code: in makeFeasible() a FixedRelativeConstraint (combined branch, no rollback) that
// conflicts with a constraint placed before it leaves a stale `unsatisfiable` flag in valid[dim]; every separation
// processed afterwards in that dimension is then judged "unsatisfiable" and dropped, even if it is unrelated.
#include <cstdio>
#include <vector>
#include "libvpsc/rectangle.h"
#include "libcola/cola.h"
using namespace cola;
int main()
{
    double xs[5] = { 0, 100, 300, 400, 410 };
    std::vector<vpsc::Rectangle*> rs;
    for (int i = 0; i < 5; ++i) rs.push_back(new vpsc::Rectangle(xs[i]-5, xs[i]+5, i*30-5, i*30+5));
    std::vector<Edge> es;
    for (unsigned i = 0; i + 1 < 5; ++i) es.push_back(Edge(i, i+1));
    std::vector<unsigned> grp; grp.push_back(0); grp.push_back(1);
    CompoundConstraints ccs;
    // processed last (list is consumed from the back): unrelated, trivially satisfiable, initially violated
    ccs.push_back(new SeparationConstraint(vpsc::XDIM, 3, 4, 60));
    ccs.push_back(new FixedRelativeConstraint(rs, grp));              // x1 - x0 == 100
    ccs.push_back(new SeparationConstraint(vpsc::XDIM, 1, 0, 50));    // x1 + 50 <= x0: conflicts with the group
    ConstrainedFDLayout alg(rs, es, 50);
    alg.setConstraints(ccs);
    alg.makeFeasible();
    double v = rs[3]->getCentreX() + 60 - rs[4]->getCentreX();
    printf("after makeFeasible: x3=%g x4=%g  (x3+60<=x4 violated by %g)\n", rs[3]->getCentreX(), rs[4]->getCentreX(), v > 0 ? v : 0);
    return v > 1e-4;
}
