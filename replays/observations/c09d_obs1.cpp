// Observation 1 (UNMODIFIED code): removeoverlaps() on three ordinary-sized
// rectangles whose coordinates are near 1e7 throws vpsc::UnsatisfiedConstraint
// out of the second (vertical) pass and leaves Rectangle::yBorder changed.
//
// Build:  g++ -std=gnu++11 -I$WT/cola obs1.cpp -o obs1 $WT/cola/libvpsc/.libs/libvpsc.a
// Exit code 1 = defect present, 0 = all promises of C09 hold for this input.
#include <cstdio>
#include <cmath>
#include <set>
#include <algorithm>
#include "libvpsc/rectangle.h"
#include "libvpsc/constraint.h"
#include "libvpsc/exceptions.h"
using namespace vpsc;

int main()
{
    const double in[3][4] = {
        {10000028.306037067, 10000030.531720273, 10000003.792676384, 10000089.411381632},
        {10000012.291634668, 10000079.443032701, 10000006.782518333, 10000009.829521345},
        {10000018.445775205, 10000116.833364192, 10000008.697355555, 10000012.492949696} };
    Rectangles rs;
    for (int i = 0; i < 3; ++i) {
        rs.push_back(new Rectangle(in[i][0], in[i][1], in[i][2], in[i][3]));
    }
    int bad = 0;
    try {
        removeoverlaps(rs);
    } catch (UnsatisfiedConstraint&) {
        printf("DEFECT: removeoverlaps threw vpsc::UnsatisfiedConstraint\n");
        ++bad;
    }
    if (Rectangle::xBorder != 0 || Rectangle::yBorder != 0) {
        printf("DEFECT: borders not restored: xBorder=%g yBorder=%g\n",
                Rectangle::xBorder, Rectangle::yBorder);
        ++bad;
        Rectangle::setXBorder(0);
        Rectangle::setYBorder(0);
    }
    for (int i = 0; i < 3; ++i) {
        for (int j = i + 1; j < 3; ++j) {
            double ox = std::min(rs[i]->getMaxX(), rs[j]->getMaxX())
                      - std::max(rs[i]->getMinX(), rs[j]->getMinX());
            double oy = std::min(rs[i]->getMaxY(), rs[j]->getMaxY())
                      - std::max(rs[i]->getMinY(), rs[j]->getMinY());
            if (ox > 1e-6 && oy > 1e-6) {
                printf("DEFECT: rectangles %d and %d overlap by %g x %g\n", i, j, ox, oy);
                ++bad;
            }
        }
        double w = rs[i]->getMaxX() - rs[i]->getMinX(), h = rs[i]->getMaxY() - rs[i]->getMinY();
        if (fabs(w - (in[i][1] - in[i][0])) > 1e-7 || fabs(h - (in[i][3] - in[i][2])) > 1e-7) {
            printf("DEFECT: rectangle %d changed size\n", i);
            ++bad;
        }
    }
    if (!bad) printf("ok: no overlap, sizes kept, borders restored\n");
    return bad ? 1 : 0;
}
