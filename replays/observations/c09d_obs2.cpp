// Observation 2 (UNMODIFIED code): a single fixed rectangle under a pile of
// identical free rectangles is dragged along by far more than 1% of the
// rectangle size: the weight 10000 that stands for "fixed" is a constant,
// the pull of n stacked rectangles grows like n^2.
//
// Build:  g++ -std=gnu++11 -I$WT/cola obs2.cpp -o obs2 $WT/cola/libvpsc/.libs/libvpsc.a
// Exit code 1 = defect present.
#include <cstdio>
#include <cmath>
#include <set>
#include "libvpsc/rectangle.h"
using namespace vpsc;

int main()
{
    int bad = 0;
    const unsigned counts[] = { 5, 15, 30, 100 };
    for (unsigned k = 0; k < 4; ++k) {
        const unsigned n = counts[k];
        Rectangles rs;
        for (unsigned i = 0; i < n; ++i) {
            rs.push_back(new Rectangle(0, 10, 0, 10));
        }
        std::set<unsigned> fixed;
        fixed.insert(0);
        removeoverlaps(rs, fixed);
        double dx = rs[0]->getMinX(), dy = rs[0]->getMinY();
        bool moved = fabs(dx) > 0.1 || fabs(dy) > 0.1;   // 1% of the size 10
        printf("%s n=%3u identical 10x10 rectangles, rectangle 0 fixed: it moved by (%g,%g)\n",
                moved ? "DEFECT:" : "ok:    ", n, dx, dy);
        if (moved) ++bad;
        for (unsigned i = 0; i < n; ++i) delete rs[i];
    }
    return bad ? 1 : 0;
}
