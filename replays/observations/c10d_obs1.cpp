// obs1: UNMODIFIED code.  With nudgeSharedPathsWithCommonEndPoint == false a
// connector whose END POINT merely LIES ON the path of another connector is
// treated as "sharing a path with a common end point" and is glued to it with
// an equality constraint, although the two connectors have four distinct end
// points.
//
//   S1 = [120,280]x[110,500], S2 = [120,280]x[-300,90]: a corridor y in [90,110].
//   A: (0,0) -> (200,100), arriving from the left: last segment y=100, x in [0,200].
//   B: (100,300) -> (300,-100): up x=100, through the corridor, up x=300.
//      Its middle segment is centred in the corridor at y=100, x in [100,300],
//      i.e. it passes through A's end point (200,100).
//
// Expected (and what happens with the option at its default `true`, or with
// the two connector ids swapped): B's middle segment is moved to y=96.
// Observed: B stays on y=100, collinear with A's last segment for x in [100,200].
//
// exit 1 = defect present, exit 0 = not present.

#include "libavoid/libavoid.h"
#include <cstdio>
#include <cmath>
#include <algorithm>

using namespace Avoid;

static ShapeRef *mkShape(Router *router, double x1, double y1, double x2,
        double y2, unsigned id)
{
    Rectangle r(Point(x1, y1), Point(x2, y2));
    return new ShapeRef(router, r, id);
}

// Longest collinear overlap between two display routes; *closest receives the
// smallest distance between parallel segments whose spans overlap.
static double overlapLen(ConnRef *a, ConnRef *b, double *closest)
{
    const PolyLine& ra = a->displayRoute();
    const PolyLine& rb = b->displayRoute();
    double best = 0;
    *closest = 1e9;
    for (size_t i = 1; i < ra.size(); ++i)
    {
        for (size_t j = 1; j < rb.size(); ++j)
        {
            for (int d = 0; d < 2; ++d)
            {
                int o = 1 - d;
                Point a1 = ra.ps[i - 1], a2 = ra.ps[i];
                Point b1 = rb.ps[j - 1], b2 = rb.ps[j];
                if (a1[d] != a2[d] || b1[d] != b2[d]) continue;
                if (a1[o] == a2[o] || b1[o] == b2[o]) continue;
                double lo = std::max(std::min(a1[o], a2[o]),
                        std::min(b1[o], b2[o]));
                double hi = std::min(std::max(a1[o], a2[o]),
                        std::max(b1[o], b2[o]));
                if (hi - lo <= 0) continue;
                double dist = fabs(a1[d] - b1[d]);
                *closest = std::min(*closest, dist);
                if (dist == 0) best = std::max(best, hi - lo);
            }
        }
    }
    return best;
}

static void printRoute(const char *name, ConnRef *c)
{
    const PolyLine& r = c->displayRoute();
    printf("  %-2s:", name);
    for (size_t i = 0; i < r.size(); ++i)
    {
        printf(" (%g,%g)", r.ps[i].x, r.ps[i].y);
    }
    printf("\n");
}

int main(int argc, char **argv)
{
    // Optional argument "ids": swap the connector ids (defect disappears).
    bool swapIds = (argc > 1);
    Router *router = new Router(OrthogonalRouting);
    router->setRoutingPenalty(segmentPenalty, 50);
    router->setRoutingParameter(idealNudgingDistance, 4);
    router->setRoutingOption(nudgeSharedPathsWithCommonEndPoint, false);
    mkShape(router, 120, 110, 280, 500, 1);
    mkShape(router, 120, -300, 280, 90, 2);
    ConnRef *A = new ConnRef(router, ConnEnd(Point(0, 0)),
            ConnEnd(Point(200, 100), ConnDirLeft), swapIds ? 11 : 12);
    ConnRef *B = new ConnRef(router, ConnEnd(Point(100, 300), ConnDirUp),
            ConnEnd(Point(300, -100), ConnDirDown), swapIds ? 12 : 11);
    router->processTransaction();
    printRoute("A", A);
    printRoute("B", B);
    double closest;
    double ov = overlapLen(A, B, &closest);
    printf("collinear overlap of A and B: %g (closest parallel distance %g)\n",
            ov, closest);
    int bad = (ov > 0) ? 1 : 0;
    printf(bad ? "DEFECT PRESENT: A and B (no common end point) overlap in a "
            "20 wide corridor\n" : "ok\n");
    delete router;
    return bad;
}
