// obs2: UNMODIFIED code.  Two C-bends that are flush against obstacles on
// OPPOSITE sides, at different heights, and overlap in between.
//
//   O1 = [40,100]x[0,40]   (left of the line x=100)
//   O2 = [100,160]x[80,120] (right of the line x=100)
//   A: (80,-30) -> (80,70)   goes round the right side of O1: x=100, y in [-30,70]
//   B: (120,50) -> (120,150) goes round the left side of O2:  x=100, y in [50,150]
//
// A and B overlap on x=100 for y in [50,70].  A may move right (nothing there
// for y in [-30,70]), B may move left (nothing there for y in [50,150]).
// CmpLineOrder puts A (a "low" C-bend, order -1) before B (a "high" C-bend,
// order +1) because NudgingShiftSegment::fixedOrder() is only consulted when
// one of the two is fixed; the constraint A + d <= B can then not be
// satisfied for any d (A cannot go left, B cannot go right), the separation
// is reduced to nothing and the region is left as it was.
//
// exit 1 = defect present, exit 0 = not present.

#include "libavoid/libavoid.h"
#include <cstdio>
#include <cmath>
#include <algorithm>

using namespace Avoid;

static ShapeRef *mkShape(Router *router, double x1, double y1, double x2,
        double y2, unsigned id)
{
    Rectangle r(Point(x1, y1), Point(x2, y2));
    return new ShapeRef(router, r, id);
}

// Longest collinear overlap between two display routes; *closest receives the
// smallest distance between parallel segments whose spans overlap.
static double overlapLen(ConnRef *a, ConnRef *b, double *closest)
{
    const PolyLine& ra = a->displayRoute();
    const PolyLine& rb = b->displayRoute();
    double best = 0;
    *closest = 1e9;
    for (size_t i = 1; i < ra.size(); ++i)
    {
        for (size_t j = 1; j < rb.size(); ++j)
        {
            for (int d = 0; d < 2; ++d)
            {
                int o = 1 - d;
                Point a1 = ra.ps[i - 1], a2 = ra.ps[i];
                Point b1 = rb.ps[j - 1], b2 = rb.ps[j];
                if (a1[d] != a2[d] || b1[d] != b2[d]) continue;
                if (a1[o] == a2[o] || b1[o] == b2[o]) continue;
                double lo = std::max(std::min(a1[o], a2[o]),
                        std::min(b1[o], b2[o]));
                double hi = std::min(std::max(a1[o], a2[o]),
                        std::max(b1[o], b2[o]));
                if (hi - lo <= 0) continue;
                double dist = fabs(a1[d] - b1[d]);
                *closest = std::min(*closest, dist);
                if (dist == 0) best = std::max(best, hi - lo);
            }
        }
    }
    return best;
}

static void printRoute(const char *name, ConnRef *c)
{
    const PolyLine& r = c->displayRoute();
    printf("  %-2s:", name);
    for (size_t i = 0; i < r.size(); ++i)
    {
        printf(" (%g,%g)", r.ps[i].x, r.ps[i].y);
    }
    printf("\n");
}

int main(void)
{
    Router *router = new Router(OrthogonalRouting);
    router->setRoutingPenalty(segmentPenalty, 50);
    router->setRoutingParameter(idealNudgingDistance, 4);
    mkShape(router, 40, 0, 100, 40, 1);
    mkShape(router, 100, 80, 160, 120, 2);
    ConnRef *A = new ConnRef(router, ConnEnd(Point(80, -30)),
            ConnEnd(Point(80, 70)), 10);
    ConnRef *B = new ConnRef(router, ConnEnd(Point(120, 50)),
            ConnEnd(Point(120, 150)), 11);
    router->processTransaction();
    printRoute("A", A);
    printRoute("B", B);
    double closest;
    double ov = overlapLen(A, B, &closest);
    printf("collinear overlap of A and B: %g (closest parallel distance %g)\n",
            ov, closest);
    int bad = (ov > 0) ? 1 : 0;
    printf(bad ? "DEFECT PRESENT: A and B overlap although each has free "
            "space on one side\n" : "ok\n");
    delete router;
    return bad;
}
