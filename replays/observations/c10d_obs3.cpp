// obs3: UNMODIFIED code.  One hopeless little group keeps a whole nudging
// region from being nudged.
//
// Same scene as the demo of seeded change A, except that the obstacle O ends at
// x=99.75 instead of x=98: C1's flush middle segment (x=99.75) and C2's fixed
// segment (x=100) are 0.25 apart.  The smallest separation that is tried is
// 0.4 (a tenth of 4), so that group is never satisfied, `satisfied` stays
// false and NO segment of the region is updated -- including A and B, which
// share x=150 for y in [60,240], 50 units away, in a 50 wide channel.
//
// exit 1 = defect present, exit 0 = not present.

#include "libavoid/libavoid.h"
#include <cstdio>
#include <cmath>
#include <algorithm>

using namespace Avoid;

static ShapeRef *mkShape(Router *router, double x1, double y1, double x2,
        double y2, unsigned id)
{
    Rectangle r(Point(x1, y1), Point(x2, y2));
    return new ShapeRef(router, r, id);
}

// Longest collinear overlap between two display routes; *closest receives the
// smallest distance between parallel segments whose spans overlap.
static double overlapLen(ConnRef *a, ConnRef *b, double *closest)
{
    const PolyLine& ra = a->displayRoute();
    const PolyLine& rb = b->displayRoute();
    double best = 0;
    *closest = 1e9;
    for (size_t i = 1; i < ra.size(); ++i)
    {
        for (size_t j = 1; j < rb.size(); ++j)
        {
            for (int d = 0; d < 2; ++d)
            {
                int o = 1 - d;
                Point a1 = ra.ps[i - 1], a2 = ra.ps[i];
                Point b1 = rb.ps[j - 1], b2 = rb.ps[j];
                if (a1[d] != a2[d] || b1[d] != b2[d]) continue;
                if (a1[o] == a2[o] || b1[o] == b2[o]) continue;
                double lo = std::max(std::min(a1[o], a2[o]),
                        std::min(b1[o], b2[o]));
                double hi = std::min(std::max(a1[o], a2[o]),
                        std::max(b1[o], b2[o]));
                if (hi - lo <= 0) continue;
                double dist = fabs(a1[d] - b1[d]);
                *closest = std::min(*closest, dist);
                if (dist == 0) best = std::max(best, hi - lo);
            }
        }
    }
    return best;
}

static void printRoute(const char *name, ConnRef *c)
{
    const PolyLine& r = c->displayRoute();
    printf("  %-2s:", name);
    for (size_t i = 0; i < r.size(); ++i)
    {
        printf(" (%g,%g)", r.ps[i].x, r.ps[i].y);
    }
    printf("\n");
}

int main(void)
{
    Router *router = new Router(OrthogonalRouting);
    router->setRoutingPenalty(segmentPenalty, 50);
    router->setRoutingParameter(idealNudgingDistance, 4);
    mkShape(router, 40, 100, 99.75, 200, 1);  // O
    mkShape(router, 150, 100, 200, 200, 3);   // O3
    ConnRef *C1 = new ConnRef(router, ConnEnd(Point(80, 60)),
            ConnEnd(Point(80, 240)), 10);
    ConnRef *C2 = new ConnRef(router, ConnEnd(Point(100, 150)),
            ConnEnd(Point(100, 400)), 11);
    ConnRef *A = new ConnRef(router, ConnEnd(Point(170, 60)),
            ConnEnd(Point(170, 240)), 12);
    ConnRef *B = new ConnRef(router, ConnEnd(Point(175, 50)),
            ConnEnd(Point(175, 250)), 13);
    router->processTransaction();
    printRoute("C1", C1);
    printRoute("C2", C2);
    printRoute("A", A);
    printRoute("B", B);
    double closest;
    double ov = overlapLen(A, B, &closest);
    printf("collinear overlap of A and B: %g (closest parallel distance %g)\n",
            ov, closest);
    int bad = (ov > 0) ? 1 : 0;
    printf(bad ? "DEFECT PRESENT: A and B overlap in a 50 wide channel\n"
            : "ok\n");
    delete router;
    return bad;
}
