// obs4: UNMODIFIED code.  With nudgeOrthogonalSegmentsConnectedToShapes ==
// true a segment that carries a routing checkpoint is no longer fixed (only
// weighted 0.001) and is nudged off its checkpoint.
//
//   O3 = [150,200]x[100,200]
//   A: (170,60) -> (170,240), B: (175,50) -> (175,250): both go round the left
//   side of O3 and share x=150.  B (the outer one) has the checkpoint (150,150).
//
// With the option off B's segment is fixed and A is moved to x=146.  With the
// option on B is moved to x=146 and its checkpoint (150,150) is no longer on
// its route.
//
// exit 1 = defect present, exit 0 = not present.

#include "libavoid/libavoid.h"
#include <cstdio>
#include <cmath>
#include <algorithm>

using namespace Avoid;

static ShapeRef *mkShape(Router *router, double x1, double y1, double x2,
        double y2, unsigned id)
{
    Rectangle r(Point(x1, y1), Point(x2, y2));
    return new ShapeRef(router, r, id);
}

// Longest collinear overlap between two display routes; *closest receives the
// smallest distance between parallel segments whose spans overlap.
static double overlapLen(ConnRef *a, ConnRef *b, double *closest)
{
    const PolyLine& ra = a->displayRoute();
    const PolyLine& rb = b->displayRoute();
    double best = 0;
    *closest = 1e9;
    for (size_t i = 1; i < ra.size(); ++i)
    {
        for (size_t j = 1; j < rb.size(); ++j)
        {
            for (int d = 0; d < 2; ++d)
            {
                int o = 1 - d;
                Point a1 = ra.ps[i - 1], a2 = ra.ps[i];
                Point b1 = rb.ps[j - 1], b2 = rb.ps[j];
                if (a1[d] != a2[d] || b1[d] != b2[d]) continue;
                if (a1[o] == a2[o] || b1[o] == b2[o]) continue;
                double lo = std::max(std::min(a1[o], a2[o]),
                        std::min(b1[o], b2[o]));
                double hi = std::min(std::max(a1[o], a2[o]),
                        std::max(b1[o], b2[o]));
                if (hi - lo <= 0) continue;
                double dist = fabs(a1[d] - b1[d]);
                *closest = std::min(*closest, dist);
                if (dist == 0) best = std::max(best, hi - lo);
            }
        }
    }
    return best;
}

static void printRoute(const char *name, ConnRef *c)
{
    const PolyLine& r = c->displayRoute();
    printf("  %-2s:", name);
    for (size_t i = 0; i < r.size(); ++i)
    {
        printf(" (%g,%g)", r.ps[i].x, r.ps[i].y);
    }
    printf("\n");
}

int main(void)
{
    Router *router = new Router(OrthogonalRouting);
    router->setRoutingPenalty(segmentPenalty, 50);
    router->setRoutingParameter(idealNudgingDistance, 4);
    router->setRoutingOption(nudgeOrthogonalSegmentsConnectedToShapes, true);
    mkShape(router, 150, 100, 200, 200, 3);
    ConnRef *A = new ConnRef(router, ConnEnd(Point(170, 60)),
            ConnEnd(Point(170, 240)), 12);
    ConnRef *B = new ConnRef(router, ConnEnd(Point(175, 50)),
            ConnEnd(Point(175, 250)), 13);
    Point cp(150, 150);
    std::vector<Checkpoint> cps;
    cps.push_back(Checkpoint(cp));
    B->setRoutingCheckpoints(cps);
    router->processTransaction();
    printRoute("A", A);
    printRoute("B", B);
    const PolyLine& r = B->displayRoute();
    bool on = false;
    for (size_t i = 1; i < r.size(); ++i)
    {
        if (pointOnLine(r.ps[i - 1], r.ps[i], cp) || (r.ps[i] == cp) ||
                (r.ps[i - 1] == cp))
        {
            on = true;
        }
    }
    printf("checkpoint (150,150) on B's display route: %s\n",
            on ? "yes" : "no");
    int bad = on ? 0 : 1;
    printf(bad ? "DEFECT PRESENT: nudging moved B off its checkpoint\n"
            : "ok\n");
    delete router;
    return bad;
}
