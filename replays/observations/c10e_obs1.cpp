// Observation 1 (UNMODIFIED code): nudging drops a routing checkpoint.
//
//   K  : (360,0) -> (230,220) with checkpoint (200,360).  The checkpoint lies
//        in a dead end, so the route is a hairpin:
//          (360,0) (200,0) (200,360)* (210,360) (210,220) (230,220)
//        down x=200 to the checkpoint, 10 to the right, back up x=210
//        (x=210 is the left side of shape R2).
//   M  : (360,360) -> (40,120), an S-bend whose middle segment (x=130, the
//        right side of shape R1) is free to be centred in [130,210].
//
// Default options (unifying preprocessing step on, end segments not nudged).
// exit 1 = checkpoint no longer on K's display route (defect present).

#include "libavoid/libavoid.h"
#include <cstdio>
#include <algorithm>
using namespace Avoid;

static bool onSeg(const Point& a, const Point& b, const Point& p)
{
    if (a.x == b.x && p.x == a.x)
        return p.y >= std::min(a.y, b.y) && p.y <= std::max(a.y, b.y);
    if (a.y == b.y && p.y == a.y)
        return p.x >= std::min(a.x, b.x) && p.x <= std::max(a.x, b.x);
    return false;
}
static bool onRoute(const PolyLine& r, const Point& p)
{
    for (size_t i = 1; i < r.size(); ++i)
        if (onSeg(r.ps[i - 1], r.ps[i], p)) return true;
    return false;
}
static void pr(const char *n, const PolyLine& r)
{
    printf("  %s:", n);
    for (size_t i = 0; i < r.size(); ++i) printf(" (%g,%g)", r.ps[i].x, r.ps[i].y);
    printf("\n");
}

int main(int argc, char **argv)
{
    Router *router = new Router(OrthogonalRouting);
    router->setRoutingPenalty(segmentPenalty, 50);
    router->setRoutingParameter(idealNudgingDistance, 4);
    if (argc > 1)
    {
        // "./obs1 nounify": without the unifying step the checkpoint survives.
        router->setRoutingOption(performUnifyingNudgingPreprocessingStep, false);
    }
    Rectangle r1(Point(70, 335), Point(130, 365));
    Rectangle r2(Point(210, 300), Point(290, 360));
    Rectangle r3(Point(335, 220), Point(425, 240));
    new ShapeRef(router, r1, 1);
    new ShapeRef(router, r2, 2);
    new ShapeRef(router, r3, 3);

    ConnRef *M = new ConnRef(router, ConnEnd(Point(360, 360)),
            ConnEnd(Point(40, 120)), 100);
    ConnRef *K = new ConnRef(router, ConnEnd(Point(360, 0)),
            ConnEnd(Point(230, 220)), 106);
    Point cp(200, 360);
    std::vector<Checkpoint> cps;
    cps.push_back(Checkpoint(cp));
    K->setRoutingCheckpoints(cps);
    router->processTransaction();

    printf("raw routes (simplified):\n");
    pr("M", M->route().simplify());
    pr("K", K->route().simplify());
    printf("display routes after nudging:\n");
    pr("M", M->displayRoute());
    pr("K", K->displayRoute());
    bool rawHas = onRoute(K->route(), cp);
    bool dispHas = onRoute(K->displayRoute(), cp);
    printf("checkpoint (200,360) on K's raw route: %s, on K's display route: %s\n",
            rawHas ? "yes" : "no", dispHas ? "yes" : "no");
    int bad = (rawHas && !dispHas) ? 1 : 0;
    printf(bad ? "RESULT: nudging moved the route off its checkpoint\n"
               : "RESULT: ok\n");
    delete router;
    return bad;
}
