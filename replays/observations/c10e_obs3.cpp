// Observation 3 (UNMODIFIED code): COLA_ASSERT failure (abort) inside
// ImproveOrthogonalRoutes::nudgeOrthogonalRoutes() for a valid scene and a
// valid combination of nudging options:
//     nudgeOrthogonalSegmentsConnectedToShapes = true
//     nudgeSharedPathsWithCommonEndPoint       = false
//
//   shape   [60,120]x[195,265]
//   conn 100 (200,160) -> (120,0), checkpoint (80,40)
//            route (200,160) (200,40) (80,40) (80,0) (120,0)
//   conn 101 (230,220) -> (200,320), checkpoint (80,0)
//            route (230,220) (230,0) (60,0) (60,320) (200,320)
//
// The routing is run in a child process; exit 1 = the child was killed by the
// assertion (defect present), exit 0 = processTransaction() returned.
// (The default build of the library has assertions enabled.)

#include "libavoid/libavoid.h"
#include <cstdio>
#include <cstdlib>
#include <unistd.h>
#include <sys/wait.h>
using namespace Avoid;

static void run(bool shared)
{
    Router *router = new Router(OrthogonalRouting);
    router->setRoutingPenalty(segmentPenalty, 50);
    router->setRoutingParameter(idealNudgingDistance, 4);
    router->setRoutingOption(nudgeOrthogonalSegmentsConnectedToShapes, true);
    router->setRoutingOption(nudgeSharedPathsWithCommonEndPoint, shared);
    Rectangle r1(Point(60, 195), Point(120, 265));
    new ShapeRef(router, r1, 1);
    ConnRef *c100 = new ConnRef(router, ConnEnd(Point(200, 160)),
            ConnEnd(Point(120, 0)), 100);
    std::vector<Checkpoint> cp1;
    cp1.push_back(Checkpoint(Point(80, 40)));
    c100->setRoutingCheckpoints(cp1);
    ConnRef *c101 = new ConnRef(router, ConnEnd(Point(230, 220)),
            ConnEnd(Point(200, 320)), 101);
    std::vector<Checkpoint> cp2;
    cp2.push_back(Checkpoint(Point(80, 0)));
    c101->setRoutingCheckpoints(cp2);
    router->processTransaction();
    ConnRef *cs[2] = { c100, c101 };
    for (int k = 0; k < 2; ++k)
    {
        const PolyLine& r = cs[k]->displayRoute();
        printf("  conn %u:", cs[k]->id());
        for (size_t i = 0; i < r.size(); ++i) printf(" (%g,%g)", r.ps[i].x, r.ps[i].y);
        printf("\n");
    }
    delete router;
}

int main(void)
{
    int bad = 0;
    for (int shared = 1; shared >= 0; --shared)
    {
        printf("nudgeSharedPathsWithCommonEndPoint = %s:\n", shared ? "true" : "false");
        fflush(stdout);
        pid_t pid = fork();
        if (pid == 0)
        {
            run(shared != 0);
            fflush(stdout);
            _exit(0);
        }
        int st = 0;
        waitpid(pid, &st, 0);
        if (WIFSIGNALED(st))
        {
            printf("  processTransaction() was killed by signal %d\n", WTERMSIG(st));
            bad = 1;
        }
    }
    printf(bad ? "RESULT: defect present\n" : "RESULT: ok\n");
    return bad;
}
