// Observation 4 (UNMODIFIED code, default options): the unifying
// preprocessing step parks a free S-bend exactly on top of two other
// connectors' immovable end segments, and the nudging pass cannot get it off
// again.
//
//   shapes  [85,115]x[190,230]   [195,285]x[90,130]   [215,265]x[195,265]
//   shapeBufferDistance 2, idealNudgingDistance 6
//   conn 100 (280,160) -> (160,0)   route (280,160) (160,160) (160,0)
//   conn 103 (40,160)  -> (100,210) route (40,160) (100,160) (100,210)
//   conn 102 (320,240) -> (90,90)   route (320,240) (320,132) (90,132) (90,90)
//
// 102's middle segment (y=132, just below the second shape) is an S-bend with
// the free channel y in [132,188] -- 56 units for a nudging distance of 6.
// Before nudging it overlaps nobody.  The end segments of 100 and 103 both lie
// on y=160 inside that channel.
//
// exit 1 = 102 runs collinear and overlapping with 100 / 103 (defect present).
// "./obs4 nounify" switches performUnifyingNudgingPreprocessingStep off: ok.

#include "libavoid/libavoid.h"
#include <cstdio>
#include <cmath>
#include <algorithm>
using namespace Avoid;

static double overlapLen(ConnRef *a, ConnRef *b)
{
    const PolyLine& ra = a->displayRoute();
    const PolyLine& rb = b->displayRoute();
    double best = 0;
    for (size_t i = 1; i < ra.size(); ++i)
        for (size_t j = 1; j < rb.size(); ++j)
            for (int d = 0; d < 2; ++d)
            {
                int o = 1 - d;
                Point a1 = ra.ps[i - 1], a2 = ra.ps[i];
                Point b1 = rb.ps[j - 1], b2 = rb.ps[j];
                if (a1[d] != a2[d] || b1[d] != b2[d]) continue;
                if (a1[o] == a2[o] || b1[o] == b2[o]) continue;
                double lo = std::max(std::min(a1[o], a2[o]), std::min(b1[o], b2[o]));
                double hi = std::min(std::max(a1[o], a2[o]), std::max(b1[o], b2[o]));
                if (hi - lo <= 0) continue;
                if (a1[d] == b1[d]) best = std::max(best, hi - lo);
            }
    return best;
}
static void pr(const char *n, const PolyLine& r)
{
    printf("  %s:", n);
    for (size_t i = 0; i < r.size(); ++i) printf(" (%g,%g)", r.ps[i].x, r.ps[i].y);
    printf("\n");
}

int main(int argc, char **argv)
{
    Router *router = new Router(OrthogonalRouting);
    router->setRoutingPenalty(segmentPenalty, 50);
    router->setRoutingParameter(idealNudgingDistance, 6);
    router->setRoutingParameter(shapeBufferDistance, 2);
    if (argc > 1)
    {
        router->setRoutingOption(performUnifyingNudgingPreprocessingStep, false);
    }
    Rectangle r1(Point(85, 190), Point(115, 230));
    Rectangle r2(Point(195, 90), Point(285, 130));
    Rectangle r3(Point(215, 195), Point(265, 265));
    new ShapeRef(router, r1, 1);
    new ShapeRef(router, r2, 2);
    new ShapeRef(router, r3, 3);
    ConnRef *c100 = new ConnRef(router, ConnEnd(Point(280, 160)), ConnEnd(Point(160, 0)), 100);
    ConnRef *c102 = new ConnRef(router, ConnEnd(Point(320, 240)), ConnEnd(Point(90, 90)), 102);
    ConnRef *c103 = new ConnRef(router, ConnEnd(Point(40, 160)), ConnEnd(Point(100, 210)), 103);
    router->processTransaction();

    printf("raw routes (simplified):\n");
    pr("100", c100->route().simplify());
    pr("102", c102->route().simplify());
    pr("103", c103->route().simplify());
    printf("display routes after nudging:\n");
    pr("100", c100->displayRoute());
    pr("102", c102->displayRoute());
    pr("103", c103->displayRoute());
    double o1 = overlapLen(c100, c102), o2 = overlapLen(c103, c102);
    printf("collinear overlap 100/102: %g, 103/102: %g, existsOrthogonalSegmentOverlap: %s\n",
            o1, o2, router->existsOrthogonalSegmentOverlap() ? "true" : "false");
    int bad = (o1 > 0 || o2 > 0) ? 1 : 0;
    printf(bad ? "RESULT: defect present\n" : "RESULT: ok\n");
    delete router;
    return bad;
}
