// Observation 2 (unmodified code): two pins of DIFFERENT classes at the same position on one shape (same
// direction) -- only one of them is routable for orthogonal connectors.
//
// Cause: all pins of a shape share one VertID (shape id, kShapeConnectionPin).  When the orthogonal visibility
// graph is built, the vertices lying on a scan line are collected in a BreakpointSet (std::set<PosVertInf>), and
// PosVertInf::operator< (orthogonal.cpp) orders by position, then VertID, then direction flags.  The two pin
// vertices are equivalent under that order, so the second one is silently dropped and gets no visibility edge.
// The connector attached to its class finds no path and is drawn as a straight line to the shape centre.
//
// exit 1 = defect present, exit 0 = clean.
#include "libavoid/libavoid.h"
#include <cstdio>
#include <cmath>
using namespace Avoid;
static bool same(const Point& a, const Point& b) { return fabs(a.x - b.x) < 1e-9 && fabs(a.y - b.y) < 1e-9; }
static int check(const char *n, ConnRef *c, ShapeConnectionPin *pin)
{
    const PolyLine& r = c->displayRoute();
    printf("  %s:", n);
    for (size_t i = 0; i < r.size(); ++i) printf(" (%g,%g)", r.ps[i].x, r.ps[i].y);
    Point end = r.ps[r.size() - 1];
    if (!same(end, pin->position()))
    {
        printf("   <-- DEFECT: does not end at its pin (%g,%g)\n", pin->position().x, pin->position().y);
        return 1;
    }
    printf("\n");
    return 0;
}
int main(void)
{
    Router *router = new Router(OrthogonalRouting);
    router->setTransactionUse(true);
    router->setRoutingParameter(shapeBufferDistance, 4);
    Rectangle rect(Point(300, 100), Point(400, 200));
    ShapeRef *shape = new ShapeRef(router, rect);
    // An "input" port that accepts two kinds of connector: one pin per class, same place, same direction.
    ShapeConnectionPin *p1 = new ShapeConnectionPin(shape, 1, ATTACH_POS_LEFT, 0.5, true, 0.0, ConnDirLeft);
    ShapeConnectionPin *p2 = new ShapeConnectionPin(shape, 2, ATTACH_POS_LEFT, 0.5, true, 0.0, ConnDirLeft);
    ConnRef *c1 = new ConnRef(router, ConnEnd(Point(100, 120)), ConnEnd(shape, 1));
    ConnRef *c2 = new ConnRef(router, ConnEnd(Point(100, 180)), ConnEnd(shape, 2));
    router->processTransaction();
    int bad = check("c1 (class 1)", c1, p1);
    bad |= check("c2 (class 2)", c2, p2);
    printf(bad ? "DEFECT PRESENT\n" : "ok\n");
    delete router;
    return bad;
}
