// Observation 5 (unmodified code): default pin directions and exclusivity are computed from the PROPORTIONAL
// constants even for pins with ABSOLUTE offsets, and for junction pins.
//
// ShapeConnectionPin::directions() with visDirs == ConnDirNone tests m_x_offset/m_y_offset against
// ATTACH_POS_LEFT/RIGHT/TOP/BOTTOM (0 / 1) regardless of m_using_proportional_offsets, although position()
// interprets absolute offsets with ATTACH_POS_MIN_OFFSET (0) / ATTACH_POS_MAX_OFFSET (-1) / == width / == height.
// Documentation (connectionpin.h): "Points on the shape boundary will have visibility from the shape out of that
// edge while points in the interior will have visibility in all directions.  [...] Pins with visibility in a
// specific direction are exclusive by default".
//
// exit 1 = defect present, exit 0 = clean.
#include "libavoid/libavoid.h"
#include <cstdio>
using namespace Avoid;
static int bad = 0;
static void expect(const char *what, ShapeConnectionPin *pin, unsigned wantDirs, bool wantExclusive)
{
    unsigned d = pin->directions();
    bool ok = (d == wantDirs) && (pin->isExclusive() == wantExclusive);
    printf("  %-58s at (%g,%g) dirs=%u exclusive=%d   %s\n", what, pin->position().x, pin->position().y, d,
            (int) pin->isExclusive(), ok ? "" : "<-- DEFECT");
    if (!ok) { printf("      expected dirs=%u exclusive=%d\n", wantDirs, (int) wantExclusive); bad = 1; }
}
int main(void)
{
    Router *router = new Router(OrthogonalRouting);
    router->setTransactionUse(true);
    Rectangle rect(Point(100, 100), Point(200, 160));   // 100 wide, 60 high
    ShapeRef *shape = new ShapeRef(router, rect);
    // Proportional pins behave as documented:
    expect("proportional (ATTACH_POS_RIGHT, 0.5)",
            new ShapeConnectionPin(shape, 1, ATTACH_POS_RIGHT, 0.5, true, 0.0, ConnDirNone), ConnDirRight, true);
    // Absolute pins:
    expect("absolute (ATTACH_POS_MIN_OFFSET, 30): left edge",
            new ShapeConnectionPin(shape, 2, ATTACH_POS_MIN_OFFSET, 30, false, 0.0, ConnDirNone), ConnDirLeft, true);
    expect("absolute (ATTACH_POS_MAX_OFFSET, 30): right edge",
            new ShapeConnectionPin(shape, 3, ATTACH_POS_MAX_OFFSET, 30, false, 0.0, ConnDirNone), ConnDirRight, true);
    expect("absolute (100 == width, 30): right edge",
            new ShapeConnectionPin(shape, 4, 100, 30, false, 0.0, ConnDirNone), ConnDirRight, true);
    expect("absolute (50, ATTACH_POS_MAX_OFFSET): bottom edge",
            new ShapeConnectionPin(shape, 5, 50, ATTACH_POS_MAX_OFFSET, false, 0.0, ConnDirNone), ConnDirDown, true);
    expect("absolute (1, 30): interior, one unit from the left edge",
            new ShapeConnectionPin(shape, 6, 1, 30, false, 0.0, ConnDirNone), ConnDirAll, false);
    printf(bad ? "DEFECT PRESENT\n" : "ok\n");
    delete router;
    return bad;
}
