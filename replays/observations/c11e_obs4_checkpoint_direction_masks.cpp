// obs4: UNMODIFIED code (beside the C11 statement proper: direction masks of
// checkpoints).  Checkpoint arrival/departure masks use ConnDirUp/ConnDirDown
// the other way round from pins and free ConnEnds: everywhere else ConnDirUp
// means "towards smaller y" (a pin at ATTACH_POS_TOP defaults to ConnDirUp, a
// ConnEnd(Point, ConnDirUp) leaves towards smaller y), but a checkpoint with
// departureDirections == ConnDirUp can only be left towards LARGER y, and
// left/right behave normally.  Here the only room is above the line (smaller
// y); departure ConnDirUp makes the checkpoint unreachable/skipped ("Warning:
// skipping checkpoint") or leaves it downwards, departure ConnDirDown leaves
// it upwards.
// exit 1 = defect present.
#include <cstdio>
#include "libavoid/libavoid.h"
using namespace Avoid;
static int run(ConnDirFlags dep, Point *after)
{
    Router *router = new Router(OrthogonalRouting);
    router->setTransactionUse(true);
    router->setRoutingParameter(shapeBufferDistance, 4);
    Rectangle r1(Point(100, 100), Point(200, 200)); new ShapeRef(router, r1);   // above
    Rectangle r2(Point(100, 400), Point(200, 500)); new ShapeRef(router, r2);   // below
    ConnRef *a = new ConnRef(router, ConnEnd(Point(0, 300)), ConnEnd(Point(600, 300)));
    a->setRoutingType(ConnType_Orthogonal);
    std::vector<Checkpoint> cps; cps.push_back(Checkpoint(Point(300, 300), ConnDirAll, dep));
    a->setRoutingCheckpoints(cps);
    router->processTransaction();
    const PolyLine& r = a->displayRoute();
    printf("  departure mask %u:", (unsigned) dep);
    int found = 0;
    for (size_t i = 0; i < r.size(); ++i) { printf(" (%g,%g)", r.ps[i].x, r.ps[i].y);
        if (r.ps[i].x == 300 && r.ps[i].y == 300 && i + 1 < r.size()) { *after = r.ps[i + 1]; found = 1; } }
    printf("\n");
    delete router;
    return found;
}
int main(void)
{
    int defect = 0; Point n;
    // A free end with ConnDirUp leaves towards smaller y:
    {
        Router *router = new Router(OrthogonalRouting); router->setTransactionUse(true);
        Rectangle r1(Point(100, 100), Point(200, 200)); new ShapeRef(router, r1);
        Rectangle r2(Point(100, 400), Point(200, 500)); new ShapeRef(router, r2);
        ConnRef *a = new ConnRef(router, ConnEnd(Point(300, 300), ConnDirUp), ConnEnd(Point(600, 300)));
        a->setRoutingType(ConnType_Orthogonal); router->processTransaction();
        const PolyLine& r = a->displayRoute();
        printf("  free end ConnDirUp: (%g,%g) -> (%g,%g)  [towards %s y]\n", r.ps[0].x, r.ps[0].y, r.ps[1].x, r.ps[1].y, r.ps[1].y < r.ps[0].y ? "smaller" : "larger/equal");
        delete router;
    }
    if (!run(ConnDirUp, &n)) { printf("DEFECT: checkpoint with departure ConnDirUp not a bend of the route\n"); defect = 1; }
    else if (!(n.y < 300)) { printf("DEFECT: departure ConnDirUp leaves towards (%g,%g), i.e. not towards smaller y\n", n.x, n.y); defect = 1; }
    if (run(ConnDirDown, &n) && n.y < 300) { printf("DEFECT: departure ConnDirDown leaves towards (%g,%g), i.e. towards smaller y\n", n.x, n.y); defect = 1; }
    printf(defect ? "DEFECT PRESENT\n" : "no defect\n");
    return defect;
}
