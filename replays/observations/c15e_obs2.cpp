// c15e obs2 -- cola::ConstrainedMajorizationLayout: two leaks around its constraint interface.
//  2.1 setUnsatisfiableConstraintInfo(): GradientProjection::destroyVPSC() clear()s the caller's list at every
//      iteration without deleting the UnsatisfiableConstraintInfo objects it put there in the iteration before.
//  2.2 setConstraintsVector() copies the vector into a heap-allocated CompoundConstraints that nobody frees.
// Needs a leak checker (LSan build or valgrind --leak-check=full --error-exitcode=1).  Exit 1 = defect present.
#include "obs_common.h"
#include <vector>
#include "libcola/cola.h"
using namespace cola;
typedef std::vector<vpsc::Rectangle*> RS;
static RS mkrs(void) { RS rs; for (int i = 0; i < 4; ++i) rs.push_back(new vpsc::Rectangle(40*i, 40*i+30, 7*i, 7*i+25)); return rs; }
static std::vector<Edge> ring(void) { std::vector<Edge> es; for (unsigned i = 0; i < 4; ++i) es.push_back(Edge(i, (i+1)%4)); return es; }

static int unsatInfos(void)
{
    RS rs = mkrs();
    CompoundConstraints ccs;
    ccs.push_back(new SeparationConstraint(vpsc::XDIM, 0, 1, 100));
    ccs.push_back(new SeparationConstraint(vpsc::XDIM, 1, 0, 100));   // contradicts the first
    UnsatisfiableConstraintInfos ux, uy;
    {
        TestConvergence done(1e-9, 5);     // a handful of iterations
        ConstrainedMajorizationLayout alg(rs, ring(), nullptr, 50, StandardEdgeLengths, &done);
        alg.setConstraints(&ccs);
        alg.setUnsatisfiableConstraintInfo(&ux, &uy);
        alg.run();
    }
    printf("reported: %u in x, %u in y\n", (unsigned) ux.size(), (unsigned) uy.size());
    // The caller frees everything it has been handed.
    for (size_t i = 0; i < ux.size(); ++i) delete ux[i];
    for (size_t i = 0; i < uy.size(); ++i) delete uy[i];
    for (size_t i = 0; i < ccs.size(); ++i) delete ccs[i];
    for (size_t i = 0; i < rs.size(); ++i) delete rs[i];
    return 0;
}
static int constraintsVector(void)
{
    RS rs = mkrs();
    CompoundConstraints ccs;
    ccs.push_back(new SeparationConstraint(vpsc::XDIM, 0, 1, 100));
    {
        ConstrainedMajorizationLayout alg(rs, ring(), nullptr, 50);
        alg.setConstraintsVector(ccs);
        alg.runOnce();
    }
    for (size_t i = 0; i < ccs.size(); ++i) delete ccs[i];
    for (size_t i = 0; i < rs.size(); ++i) delete rs[i];
    return 0;
}
int main(void)
{
    int bad = 0;
    bad |= runScenario("obs2.1 unsatisfiable infos of earlier iterations", unsatInfos);
    bad |= runScenario("obs2.2 setConstraintsVector", constraintsVector);
    return bad;
}
