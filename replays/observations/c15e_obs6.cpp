// c15e obs6 -- dialect::doHOLA() on a graph that is not connected trips the library's own assertion
//   routing.cpp:306  LeaflessOrthoRouter::route(): Assertion `edgeLookup.size() > 1' failed
// (SIGABRT in an ordinary build, no memory checker needed).  Nothing in hola.h asks for a connected graph; a graph
// without edges, a single tree and a single connected graph with cycles are all handled.  Exit 1 = defect present.
#include "obs_common.h"
#include <vector>
#include "libdialect/graphs.h"
#include "libdialect/opts.h"
#include "libdialect/hola.h"
using namespace dialect;
static Graph_SP mk(int n, const int (*es)[2], int m)
{
    Graph_SP G = std::make_shared<Graph>();
    std::vector<Node_SP> ns;
    for (int i = 0; i < n; ++i) ns.push_back(G->addNode(30*(i%4) + (i*7%5), 40*(i/4) + (i*3%7), 20, 20));
    for (int k = 0; k < m; ++k) G->addEdge(ns[es[k][0]], ns[es[k][1]]);
    return G;
}
static int cyclePlusIsolatedNode(void)
{
    const int es[][2] = {{0,1},{1,2},{2,3},{3,0}};
    Graph_SP G = mk(5, es, 4);            // node 4 has no edges
    HolaOpts opts; doHOLA(*G, opts); return 0;
}
static int twoTrees(void)
{
    const int es[][2] = {{0,1},{0,2},{3,4},{4,5},{4,6}};
    Graph_SP G = mk(7, es, 5);
    HolaOpts opts; doHOLA(*G, opts); return 0;
}
int main(void)
{
    int bad = 0;
    bad |= runScenario("obs6.1 doHOLA, 4-cycle plus an isolated node", cyclePlusIsolatedNode);
    bad |= runScenario("obs6.2 doHOLA, two separate trees", twoTrees);
    return bad;
}
