// c15e obs7 -- cola::Resize handed to ConstrainedFDLayout through PreIteration, layout with a ColaTopologyAddon and
// non-overlap constraints: when the new bounding box overlaps the node's neighbours, topology::applyResizes() trips
//   topology_constraints_constructor.cpp:543  TopologyConstraints::noOverlaps(): Assertion `u->rect->overlapY(v->rect)<e'
// in its second (vertical) pass -- SIGABRT in an ordinary build.  With a new box that stays clear of the neighbours
// (arguments "60 150") the same program is clean.  Exit 1 = defect present.
#include "obs_common.h"
#include <vector>
#include "libcola/cola.h"
#include "libtopology/cola_topology_addon.h"
using namespace cola;
static double dx = 110, newW = 250;
static int scenario(void)
{
    std::vector<vpsc::Rectangle*> rs;
    for (int i = 0; i < 4; ++i) rs.push_back(new vpsc::Rectangle(100*i, 100*i + 30, 0, 25));   // a row of four
    std::vector<Edge> es; es.push_back(Edge(0,1)); es.push_back(Edge(1,2)); es.push_back(Edge(2,3));
    Locks locks;
    Resizes resizes;   // node 1 becomes 250 wide (and 50 high): covers its neighbours 0 and 2
    resizes.push_back(Resize(1, rs[1]->getMinX() - dx, rs[1]->getMinY() - 10, newW, 50));
    PreIteration pre(locks, resizes);
    TestConvergence done(1e-4, 5);
    ConstrainedFDLayout alg(rs, es, 100, StandardEdgeLengths, &done, &pre);
    alg.setAvoidNodeOverlaps(true);
    topology::ColaTopologyAddon topology;
    alg.setTopology(&topology);
    alg.makeFeasible();
    alg.run();
    alg.freeAssociatedObjects();
    return 0;
}
int main(int argc, char **argv)
{
    if (argc > 2) { dx = atof(argv[1]); newW = atof(argv[2]); }
    return runScenario("obs7 Resize onto the neighbours", scenario);
}
