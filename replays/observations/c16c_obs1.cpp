// obs1 (c16c): UNMODIFIED code.  Avoid::pointOnLine() is documented as
//   "Returns true iff the point c lies on the closed segment ab."
// (cola/libavoid/geometry.cpp) but it answers for the OPEN segment: both end
// points, and the single point of a zero-length segment, are reported as not
// on the segment.  Exit 1 = behaviour differs from the closed-segment answer.
#include <cstdio>
#include "libavoid/libavoid.h"
using namespace Avoid;

int main(void)
{
    int bad = 0;
    struct { Point a, b, c; const char *what; } cases[] = {
        { Point(0, 0), Point(0, 4), Point(0, 0), "vertical segment, c == a" },
        { Point(0, 0), Point(0, 4), Point(0, 4), "vertical segment, c == b" },
        { Point(0, 0), Point(4, 0), Point(4, 0), "horizontal segment, c == b" },
        { Point(0, 0), Point(2, 4), Point(0, 0), "sloped segment, c == a" },
        { Point(0, 0), Point(2, 4), Point(2, 4), "sloped segment, c == b" },
        { Point(3, 3), Point(3, 3), Point(3, 3), "zero-length segment, c == a == b" },
    };
    for (size_t i = 0; i < sizeof(cases) / sizeof(cases[0]); ++i)
    {
        bool got = pointOnLine(cases[i].a, cases[i].b, cases[i].c);
        printf("%-36s pointOnLine = %d (closed segment: 1)\n", cases[i].what, (int) got);
        if (!got) ++bad;
    }
    // Control: an interior point is found.
    if (!pointOnLine(Point(0, 0), Point(2, 4), Point(1, 2))) { printf("control failed\n"); return 2; }
    if (bad)
    {
        printf("DEFECT PRESENT: %d end-point cases answered 'not on the closed segment'\n", bad);
        return 1;
    }
    printf("ok\n");
    return 0;
}
