// obs2 (c16c): UNMODIFIED code.  Degenerate (zero-area) polygons on the
// integer grid: inPoly() and inPolyGen() disagree with exact arithmetic.
//  - inPoly (convex test by signs of cross products) accepts every point of
//    the supporting LINE of a collinear triangle, also far outside the span of
//    its vertices (all cross products are 0 -> "on the border").
//  - inPolyGen (ray crossing) reports a point that lies on an edge of a
//    zero-area polygon as outside when two edges overlap there (the left/right
//    crossing parities cancel), e.g. a triangle with a repeated vertex.
// Exit 1 = at least one of the two wrong answers is produced.
#include <cstdio>
#include "libavoid/libavoid.h"
using namespace Avoid;

int main(void)
{
    int bad = 0;

    Polygon flat(3);                 // collinear "triangle" (0,0) (2,0) (4,0)
    flat.ps[0] = Point(0, 0);
    flat.ps[1] = Point(2, 0);
    flat.ps[2] = Point(4, 0);
    bool a = inPoly(flat, Point(9, 0), true);     // on the line, outside 0..4
    printf("inPoly((0,0)(2,0)(4,0), (9,0)) = %d, exact 0\n", (int) a);
    if (a) ++bad;

    Polygon spike(3);                // (0,0) (0,0) (0,2): the segment (0,0)-(0,2)
    spike.ps[0] = Point(0, 0);
    spike.ps[1] = Point(0, 0);
    spike.ps[2] = Point(0, 2);
    bool b = inPolyGen(spike, Point(0, 1));       // on that segment
    printf("inPolyGen((0,0)(0,0)(0,2), (0,1)) = %d, exact 1 (on an edge)\n", (int) b);
    if (!b) ++bad;

    if (bad)
    {
        printf("DEFECT PRESENT (%d wrong answers on degenerate polygons)\n", bad);
        return 1;
    }
    printf("ok\n");
    return 0;
}
