// obs3 (c16c): UNMODIFIED code.  Avoid::angle(a, b, c) ("the angle (radians)
// between ab and bc", acos of the normalised dot product) returns NaN for
// exactly collinear integer points: sqrt(72)*sqrt(18) rounds to just below
// 36, the cosine becomes 1.0000000000000002 and acos() of that is NaN.
// The exact answer is 0.  Exit 1 = NaN returned.
#include <cstdio>
#include <cmath>
#include "libavoid/libavoid.h"
using namespace Avoid;

int main(void)
{
    double ang = angle(Point(-6, -6), Point(0, 0), Point(3, 3));
    printf("angle((-6,-6),(0,0),(3,3)) = %g (exact: 0)\n", ang);
    int nans = 0, total = 0;
    for (int ax = -6; ax <= 6; ++ax) for (int ay = -6; ay <= 6; ++ay)
    for (int cx = -6; cx <= 6; ++cx) for (int cy = -6; cy <= 6; ++cy)
    {
        if ((ax == 0 && ay == 0) || (cx == 0 && cy == 0)) continue;
        double v = angle(Point(ax, ay), Point(0, 0), Point(cx, cy));
        ++total;
        if (v != v) ++nans;
    }
    printf("%d of %d non-degenerate integer triples (|coord| <= 6) give NaN\n", nans, total);
    if ((ang != ang) || nans)
    {
        printf("DEFECT PRESENT\n");
        return 1;
    }
    printf("ok\n");
    return 0;
}
