// obs1: Avoid::Polygon::curvedPolyline() on an OPEN polyline that contains a
// vertex in the middle of a straight run (three collinear points) does not end
// at the polyline's last point: the last line segment is shortened by
// curve_amount at its far end as if another corner followed.
//
// Exit 1 = defect present, exit 0 = curved polylines start and end where the
// original polyline does.
#include <cstdio>
#include "libavoid/libavoid.h"
using namespace Avoid;

static void print(const char *t, const Polygon& p)
{
    printf("%s", t);
    for (size_t i = 0; i < p.size(); ++i)
    {
        printf(" %c(%g,%g)", (i < p.ts.size()) ? p.ts[i] : '?', p.ps[i].x, p.ps[i].y);
    }
    printf("\n");
}

static int check(const char *name, const Polygon& line, double amount)
{
    Polygon curved = line.curvedPolyline(amount);
    printf("%s\n", name);
    print("  polyline:      ", line);
    print("  curvedPolyline:", curved);
    int bad = 0;
    if (curved.ps.front() != line.ps.front())
    {
        printf("  WRONG: starts at (%g,%g), polyline starts at (%g,%g)\n",
                curved.ps.front().x, curved.ps.front().y,
                line.ps.front().x, line.ps.front().y);
        bad = 1;
    }
    if (curved.ps.back() != line.ps.back())
    {
        printf("  WRONG: ends at (%g,%g), polyline ends at (%g,%g)\n",
                curved.ps.back().x, curved.ps.back().y,
                line.ps.back().x, line.ps.back().y);
        bad = 1;
    }
    return bad;
}

int main(void)
{
    int bad = 0;

    // Reference: no collinear vertex.  Ends at (100,100).
    Polygon plain(3);
    plain.ps[0] = Point(0, 0);
    plain.ps[1] = Point(100, 0);
    plain.ps[2] = Point(100, 100);
    bad |= check("L-shaped route, no collinear vertex", plain, 10);

    // The same route with an extra vertex in the middle of the first segment
    // (as in ConnRef::route(), which is not simplified).
    Polygon extra(4);
    extra.ps[0] = Point(0, 0);
    extra.ps[1] = Point(50, 0);
    extra.ps[2] = Point(100, 0);
    extra.ps[3] = Point(100, 100);
    bad |= check("same route with a vertex at (50,0)", extra, 10);

    // ... or in the middle of the last segment.
    Polygon extra2(4);
    extra2.ps[0] = Point(0, 0);
    extra2.ps[1] = Point(100, 0);
    extra2.ps[2] = Point(100, 50);
    extra2.ps[3] = Point(100, 100);
    bad |= check("same route with a vertex at (100,50)", extra2, 10);

    // A straight three-point line.
    Polygon straight(3);
    straight.ps[0] = Point(0, 0);
    straight.ps[1] = Point(50, 0);
    straight.ps[2] = Point(100, 0);
    bad |= check("straight line with a middle vertex", straight, 10);

    printf(bad ? "obs1: DEFECT PRESENT\n" : "obs1: ok\n");
    return bad;
}
