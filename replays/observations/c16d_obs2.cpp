// obs2: vpsc::Rectangle::overlaps(x1,y1,x2,y2) is documented as "checks if
// line segment is strictly overlapping.  That is, if any point on the line is
// inside the rectangle."  It is wrong in two classes of inputs:
//   (a) a segment that only touches one CORNER of the rectangle from outside
//       is reported as overlapping (the corner is counted as an intersection
//       with two sides), and
//   (b) a segment lying completely INSIDE the rectangle (it crosses no side)
//       is reported as not overlapping.
// Compared here with an exact test on all integer segments in -3..3 against
// the rectangle [-1,1] x [-1,2].
//
// Exit 1 = defect present, exit 0 = agrees with the exact answer everywhere.
#include <cstdio>
#include <cstdlib>
#include <vector>
#include <string>
#include <unistd.h>
#include <fcntl.h>
#include "libvpsc/rectangle.h"

// Exact: does the closed segment p1-p2 contain a point strictly inside the
// open box (xl,xh) x (yl,yh)?  The set of such parameters t is an open interval
// whose ends are 0, 1 or crossings with a box side, t = (c - x1)/(x2 - x1) with
// |x2 - x1| <= 6, i.e. multiples of 1/60.  Sampling t = k/1680 (1680 = 28*60)
// with integer arithmetic therefore hits every non-empty such interval.
static bool exactOverlaps(int x1, int y1, int x2, int y2,
        int xl, int xh, int yl, int yh)
{
    const int N = 1680;
    for (int k = 0; k <= N; ++k)
    {
        // point * N
        long px = (long) x1 * (N - k) + (long) x2 * k;
        long py = (long) y1 * (N - k) + (long) y2 * k;
        if (px > (long) xl * N && px < (long) xh * N &&
            py > (long) yl * N && py < (long) yh * N)
        {
            return true;
        }
    }
    return false;
}

int main(void)
{
    const int Q = 3;
    vpsc::Rectangle r(-1, 1, -1, 2);
    long cases = 0, touchCorner = 0, insideMissed = 0, other = 0;
    std::vector<std::string> examples;

    // Rectangle::overlaps() prints an SVG fragment to stdout whenever it
    // returns true; silence that while we enumerate.
    fflush(stdout);
    int saved = dup(1);
    int devnull = open("/dev/null", O_WRONLY);
    dup2(devnull, 1);

    for (int x1 = -Q; x1 <= Q; ++x1) for (int y1 = -Q; y1 <= Q; ++y1)
    for (int x2 = -Q; x2 <= Q; ++x2) for (int y2 = -Q; y2 <= Q; ++y2)
    {
        ++cases;
        bool got = r.overlaps(x1, y1, x2, y2);
        bool want = exactOverlaps(x1, y1, x2, y2, -1, 1, -1, 2);
        if (got == want) continue;
        char buf[200];
        if (got && !want)
        {
            ++touchCorner;
            if (touchCorner <= 3)
            {
                snprintf(buf, sizeof(buf), "  (%d,%d)-(%d,%d): overlaps()=true,"
                        " but no point of it is inside", x1, y1, x2, y2);
                examples.push_back(buf);
            }
        }
        else if (r.inside(x1, y1) && r.inside(x2, y2))
        {
            ++insideMissed;
            if (insideMissed <= 3)
            {
                snprintf(buf, sizeof(buf), "  (%d,%d)-(%d,%d): overlaps()=false,"
                        " but the whole segment is inside", x1, y1, x2, y2);
                examples.push_back(buf);
            }
        }
        else
        {
            ++other;
            snprintf(buf, sizeof(buf), "  (%d,%d)-(%d,%d): overlaps()=%d, exact %d",
                    x1, y1, x2, y2, (int) got, (int) want);
            if (other <= 3) examples.push_back(buf);
        }
    }
    fflush(stdout);
    dup2(saved, 1);
    close(saved);
    close(devnull);

    printf("rectangle [-1,1]x[-1,2], %ld integer segments in -3..3\n", cases);
    printf("  reported overlapping but only touching from outside: %ld\n", touchCorner);
    printf("  completely inside but reported not overlapping:      %ld\n", insideMissed);
    printf("  other disagreements:                                 %ld\n", other);
    for (size_t i = 0; i < examples.size(); ++i) printf("%s\n", examples[i].c_str());
    bool bad = (touchCorner + insideMissed + other) > 0;
    printf(bad ? "obs2: DEFECT PRESENT\n" : "obs2: ok\n");
    return bad ? 1 : 0;
}
