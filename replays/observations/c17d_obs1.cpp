// obs1 (c17d): on the UNMODIFIED code, shortest_paths::floyd_warshall<T> with an
// integral T reports finite distances between nodes of different components
// (and so disagrees with johnsons / dijkstra and with a Bellman-Ford oracle).
// exit 1 = defect present, exit 0 = clean.
#include <libcola/shortest_paths.h>
#include <cstdio>
#include <vector>
#include <limits>

typedef unsigned T;
static const T MX = std::numeric_limits<T>::max();

int main()
{
    // Nodes 0-1 joined by one edge of length 5; node 2 is isolated.
    const unsigned n = 3;
    std::vector<shortest_paths::Edge> es(1, shortest_paths::Edge(0, 1));
    std::valarray<T> w(1); w[0] = 5;

    // Bellman-Ford oracle.
    T ref[3][3];
    for (unsigned s = 0; s < n; ++s) {
        for (unsigned j = 0; j < n; ++j) ref[s][j] = MX;
        ref[s][s] = 0;
        for (unsigned round = 0; round < n; ++round)
            for (size_t e = 0; e < es.size(); ++e) {
                unsigned u = es[e].first, v = es[e].second;
                if (ref[s][u] != MX && ref[s][u] + w[e] < ref[s][v]) ref[s][v] = ref[s][u] + w[e];
                if (ref[s][v] != MX && ref[s][v] + w[e] < ref[s][u]) ref[s][u] = ref[s][v] + w[e];
            }
    }
    T **J = new T*[n], **F = new T*[n];
    for (unsigned i = 0; i < n; ++i) { J[i] = new T[n]; F[i] = new T[n]; }
    shortest_paths::johnsons(n, J, es, w);
    shortest_paths::floyd_warshall(n, F, es, w);
    int bad = 0;
    for (unsigned i = 0; i < n; ++i) for (unsigned j = 0; j < n; ++j) {
        T d1[3];
        shortest_paths::dijkstra(i, n, d1, es, w);
        if (J[i][j] != ref[i][j]) { printf("johnsons[%u][%u] = %u, expected %u\n", i, j, J[i][j], ref[i][j]); ++bad; }
        if (d1[j] != ref[i][j])   { printf("dijkstra[%u][%u] = %u, expected %u\n", i, j, d1[j], ref[i][j]); ++bad; }
        if (F[i][j] != ref[i][j]) { printf("floyd_warshall[%u][%u] = %u, expected %u%s\n", i, j, F[i][j], ref[i][j],
                                           ref[i][j] == MX ? " (unreachable sentinel)" : ""); ++bad; }
    }
    if (bad) { printf("DEFECT PRESENT: %d wrong entries\n", bad); return 1; }
    printf("clean\n");
    return 0;
}
