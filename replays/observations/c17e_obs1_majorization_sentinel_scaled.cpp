// C17 observation on the UNMODIFIED code (exit 1 = defect present).
//
// ConstrainedMajorizationLayout multiplies the all-pairs matrix by idealLength
// *including the "unreachable" sentinel* (cola.cpp, constructor:
//     double d = edge_length * D[i][j];  Dij[i*n + j] = d;).
// Its readers recognise an unreachable pair by  isinf(d) || d == DBL_MAX
// (compute_stress) -- which is what the product happens to be for
// idealLength > 1 (inf) and idealLength == 1 (DBL_MAX).  For idealLength < 1
// the product is a finite number below DBL_MAX, the pair is taken for a
// connected one, and compute_stress() evaluates
//     diff*diff / (d*d)  ==  inf / inf  ==  NaN
// for it.  So for every disconnected graph and every idealLength < 1 the public
// computeStress() returns NaN, the value handed to the TestConvergence callback
// is NaN, and the default convergence test can never fire: run() always burns
// the full 100 iterations.
#include <cstdio>
#include <cmath>
#include <vector>
#include <libcola/cola.h>

using namespace std;

struct CountingTest : public cola::TestConvergence {
    CountingTest() : cola::TestConvergence(1e-4, 100), calls(0), nanSeen(0) {}
    bool operator()(const double new_stress, std::valarray<double>& X, std::valarray<double>& Y) {
        ++calls;
        if (new_stress != new_stress) ++nanSeen;
        return cola::TestConvergence::operator()(new_stress, X, Y);
    }
    unsigned calls, nanSeen;
};

static int runCase(double ideal)
{
    // Two components: a triangle and a single edge.
    const unsigned n = 5;
    vector<cola::Edge> es;
    es.push_back(cola::Edge(0, 1));
    es.push_back(cola::Edge(1, 2));
    es.push_back(cola::Edge(2, 0));
    es.push_back(cola::Edge(3, 4));
    const double px[n] = {0, 1, 0.3, 4, 5.5}, py[n] = {0, 0.2, 0.9, 3, 3.5};
    vpsc::Rectangles rs;
    for (unsigned i = 0; i < n; ++i) {
        rs.push_back(new vpsc::Rectangle(px[i] - 0.05, px[i] + 0.05, py[i] - 0.05, py[i] + 0.05));
    }
    CountingTest test;
    cola::ConstrainedMajorizationLayout alg(rs, es, nullptr, ideal, cola::StandardEdgeLengths, &test);

    // Expected stress: only the four connected pairs contribute.
    double want = 0;
    for (size_t k = 0; k < es.size(); ++k) {
        unsigned u = es[k].first, v = es[k].second;
        double l = sqrt((px[u]-px[v])*(px[u]-px[v]) + (py[u]-py[v])*(py[u]-py[v]));
        want += (ideal - l) * (ideal - l) / (ideal * ideal);
    }
    double got = alg.computeStress();
    alg.run();
    bool ok = std::isfinite(got) && fabs(got - want) < 1e-9 * (1 + want) && test.nanSeen == 0;
    printf("idealLength %-5g computeStress() = %-12g expected %-12g ; run(): %u iterations, "
           "NaN stress passed to the convergence test %u times  %s\n",
           ideal, got, want, test.calls, test.nanSeen, ok ? "ok" : "DEFECT");
    for (unsigned i = 0; i < n; ++i) delete rs[i];
    return ok ? 0 : 1;
}

int main()
{
    int bad = 0;
    bad += runCase(2.0);    // sentinel becomes inf      -> recognised
    bad += runCase(1.0);    // sentinel stays DBL_MAX    -> recognised
    bad += runCase(0.5);    // sentinel becomes DBL_MAX/2 -> taken for a distance
    bad += runCase(0.999);
    if (bad) {
        printf("DEFECT: for idealLength < 1 pairs in different components do not carry the "
               "'unreachable' sentinel in ConstrainedMajorizationLayout's distance matrix\n");
        return 1;
    }
    printf("clean\n");
    return 0;
}
