// C17 side observation on the UNMODIFIED code (exit 1 = defect present).
//
// ConstrainedFDLayout::outputInstanceToSVG() embeds "source code to generate
// this instance".  It re-creates the edge list from the upper triangle of G
// (sorted by node index, one entry per adjacent pair) but prints the ideal edge
// length array in the ORIGINAL edge order.  So unless the caller's edge list
// happened to be sorted, duplicate-free and written (lo,hi), the emitted
// instance pairs lengths with the wrong edges (or has arrays of different
// sizes) and its ideal-distance matrix differs from the one of the instance
// that was dumped.
//
// We dump an instance, parse the es / eLengths lines back out of the file,
// build that instance and compare its readLinearD() with the original's.
#include <cstdio>
#include <cstring>
#include <cmath>
#include <string>
#include <vector>
#include <libcola/cola.h>

using namespace std;

int main()
{
    const unsigned n = 3;
    vector<cola::Edge> es;
    cola::EdgeLengths lens;
    es.push_back(cola::Edge(1, 2)); lens.push_back(5);   // long edge listed first
    es.push_back(cola::Edge(0, 1)); lens.push_back(1);
    vpsc::Rectangles rs;
    for (unsigned i = 0; i < n; ++i) rs.push_back(new vpsc::Rectangle(40.0*i, 40.0*i + 10, 0, 10));
    cola::ConstrainedFDLayout alg(rs, es, 10, lens);
    vector<double> d0 = alg.readLinearD();
    alg.outputInstanceToSVG("/tmp/seed_out/c17e/obs/obs2_dump");

    FILE *fp = fopen("/tmp/seed_out/c17e/obs/obs2_dump.svg", "r");
    if (!fp) { printf("cannot read dump\n"); return 2; }
    vector<cola::Edge> es2;
    cola::EdgeLengths lens2;
    double ideal2 = 0;
    char line[1024];
    while (fgets(line, sizeof line, fp)) {
        unsigned long a, b; int k; double v;
        if (sscanf(line, " es.push_back(std::make_pair(%lu, %lu));", &a, &b) == 2) es2.push_back(cola::Edge(a, b));
        else if (sscanf(line, " eLengths[%d] = %lf;", &k, &v) == 2) { if ((int) lens2.size() <= k) lens2.resize(k + 1); lens2[k] = v; }
        else if (sscanf(line, " double defaultEdgeLength=%lf;", &v) == 1) ideal2 = v;
    }
    fclose(fp);
    printf("dumped instance: defaultEdgeLength=%g, edges:", ideal2);
    for (size_t k = 0; k < es2.size(); ++k) printf(" (%u,%u) len %g;", es2[k].first, es2[k].second, k < lens2.size() ? lens2[k] : -1.0);
    printf("\n");
    if (es2.size() != lens2.size()) { printf("DEFECT: %zu edges but %zu lengths in the dump\n", es2.size(), lens2.size()); return 1; }
    cola::ConstrainedFDLayout alg2(rs, es2, ideal2, lens2);
    vector<double> d1 = alg2.readLinearD();
    int bad = 0;
    for (unsigned i = 0; i < n; ++i) for (unsigned j = 0; j < n; ++j) {
        if (fabs(d0[i*n+j] - d1[i*n+j]) > 1e-9) { printf("D[%u][%u]: original %g, dumped instance %g\n", i, j, d0[i*n+j], d1[i*n+j]); ++bad; }
    }
    if (bad) { printf("DEFECT: the dumped instance has a different ideal-distance matrix\n"); return 1; }
    printf("clean\n");
    return 0;
}
