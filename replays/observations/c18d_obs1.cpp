// Observation on UNMODIFIED code (exit 1 = defect present, exit 0 = absent).
//
// C18 says: a placement satisfies a constraint iff the transformed placement satisfies the
// transformed constraint.  Graph::rotate90cw() turns the node positions and the SepMatrix
// together, so a layout that satisfied the constraints before the turn satisfies the turned
// constraints after it, and a projection onto them must leave it alone.
//
// It does not: Graph::project() (and destress(), makeFeasible()) work on the vpsc::Rectangles
// cached in the Graph's ColaGraphRep, and Graph::updateColaGraphRep() rebuilds them only when
// nodes were added or removed.  After rotate90cw() / rotate180() / translate() / Node::setCentre()
// / Node::setDims() the rectangles still hold the OLD positions and sizes, so
//  (1) the projection starts from the un-rotated placement and overwrites the rotated one, and
//  (2) BDRY gaps are translated to VPSC constraints with the OLD half extents.
#include <cmath>
#include <iostream>
#include "libdialect/graphs.h"
#include "libdialect/constraints.h"

using namespace dialect;

static int bad = 0;
static void check(bool ok, const std::string &what) {
    std::cout << (ok ? "  ok   : " : "  FAIL : ") << what << std::endl;
    if (!ok) ++bad;
}

int main(void) {
    ColaOptions opts;
    {
        std::cout << "(1) quarter turn, then project" << std::endl;
        Graph G;
        Node_SP a = Node::allocate(0, 0, 10, 10), b = Node::allocate(100, 0, 10, 10), c = Node::allocate(100, 80, 10, 10);
        G.addNode(a); G.addNode(b); G.addNode(c);
        G.addEdge(a, b); G.addEdge(b, c);
        SepMatrix &m = G.getSepMatrix();
        m.setCardinalOP(a->id(), b->id(), CardinalDir::EAST);
        m.setCardinalOP(b->id(), c->id(), CardinalDir::SOUTH);
        // The placement satisfies the constraints: projecting changes nothing.
        G.project(opts, vpsc::XDIM); G.project(opts, vpsc::YDIM);
        check(b->getCentre().x == 100 && c->getCentre().y == 80, "projection leaves the satisfying placement alone");
        G.rotate90cw();
        Avoid::Point ra = a->getCentre(), rb = b->getCentre(), rc = c->getCentre();
        std::cout << "  rotated: a=(" << ra.x << "," << ra.y << ") b=(" << rb.x << "," << rb.y << ") c=(" << rc.x << "," << rc.y << ")\n";
        std::cout << G.getSepMatrix().writeTglf(std::map<id_type, unsigned>());
        // b is now SOUTH of a, c WEST of b: the rotated placement satisfies exactly that.
        G.project(opts, vpsc::XDIM); G.project(opts, vpsc::YDIM);
        Avoid::Point pa = a->getCentre(), pb = b->getCentre(), pc = c->getCentre();
        std::cout << "  projected: a=(" << pa.x << "," << pa.y << ") b=(" << pb.x << "," << pb.y << ") c=(" << pc.x << "," << pc.y << ")\n";
        bool same = std::fabs(pa.x - ra.x) + std::fabs(pa.y - ra.y) + std::fabs(pb.x - rb.x) + std::fabs(pb.y - rb.y)
                  + std::fabs(pc.x - rc.x) + std::fabs(pc.y - rc.y) < 1e-6;
        check(same, "projection leaves the rotated (still satisfying) placement alone");
    }
    {
        std::cout << "(2) resize a node, then project onto a BDRY gap" << std::endl;
        Graph G;
        Node_SP a = Node::allocate(0, 0, 10, 10), b = Node::allocate(100, 0, 10, 10);
        G.addNode(a); G.addNode(b);
        G.project(opts, vpsc::XDIM);   // any earlier layout step: builds the rectangles
        b->setDims(60, 10);
        G.getSepMatrix().addSep(a->id(), b->id(), GapType::BDRY, SepDir::EAST, SepType::EQ, 0);
        G.project(opts, vpsc::XDIM);
        double d = b->getCentre().x - a->getCentre().x;
        std::cout << "  x_b - x_a = " << d << "   (boundaries touch at (10+60)/2 = 35)\n";
        check(std::fabs(d - 35) < 1e-6, "BDRY == 0 makes the boundaries of the resized node touch");
    }
    std::cout << (bad ? "DEFECT PRESENT" : "no defect") << std::endl;
    return bad ? 1 : 0;
}
