// Further observations on UNMODIFIED code (exit 1 = at least one present).
//  (a) SepCo::addToMatrix() of an inexact SepCo with a negative gap stores a different
//      constraint from the one the SepCo states (and projects onto).
//  (b) Graph::writeTglf() writes coordinates with 6 significant digits: large or fractional
//      coordinates do not survive write -> read (node centres, sizes, route points).
#include <cmath>
#include <iostream>
#include "libvpsc/variable.h"
#include "libvpsc/constraint.h"
#include "libdialect/graphs.h"
#include "libdialect/constraints.h"
#include "libdialect/io.h"
using namespace dialect;

static int bad = 0;
static void check(bool ok, const std::string &what) {
    std::cout << (ok ? "  ok   : " : "  FAIL : ") << what << std::endl;
    if (!ok) ++bad;
}

int main(void) {
    {
        std::cout << "(a) SepCo(x, left=b, right=a, gap=-100, inexact):  b.x - 100 <= a.x" << std::endl;
        Graph G;
        Node_SP a = Node::allocate(0, 0, 30, 30), b = Node::allocate(200, 100, 30, 30);
        G.addNode(a); G.addNode(b);
        G.updateColaGraphRep();
        SepCo sc(vpsc::XDIM, b, a, -100);
        std::cout << "  SepCo::violation() at a.x=0, b.x=200: " << sc.violation() << "  (violated: needs a.x >= 100)\n";
        sc.addToMatrix(G.getSepMatrix());
        std::cout << "  matrix: " << G.getSepMatrix().writeTglf(std::map<id_type, unsigned>());
        // Evaluate the matrix' VPSC constraint at the same placement.
        ColaGraphRep &cgr = G.getColaGraphRep();
        vpsc::Variables vs; vs.push_back(new vpsc::Variable(0, 0)); vs.push_back(new vpsc::Variable(1, 0));
        double pos[2]; pos[cgr.id2ix.at(a->id())] = 0; pos[cgr.id2ix.at(b->id())] = 200;
        vpsc::Constraints cs; vpsc::Rectangles bbs;
        G.getSepMatrix().generateSeparationConstraints(vpsc::XDIM, vs, cs, bbs);
        bool matrixSatisfied = true;
        for (auto c : cs) if (pos[c->right->id] - pos[c->left->id] < c->gap - 1e-9) matrixSatisfied = false;
        check(matrixSatisfied == (sc.violation() == 0), "the SepMatrix agrees with the SepCo about the placement a.x=0, b.x=200");
        // and at a.x = 150, b.x = 200, which the SepCo allows (200-100 <= 150)
        pos[cgr.id2ix.at(a->id())] = 150;
        bool sat2 = true;
        for (auto c : cs) if (pos[c->right->id] - pos[c->left->id] < c->gap - 1e-9) sat2 = false;
        check(sat2, "the SepMatrix allows a.x=150, b.x=200, which the SepCo allows");
    }
    {
        std::cout << "(b) coordinates in TGLF" << std::endl;
        Graph G;
        Node_SP a = Node::allocate(1234.5678, 20000.125, 30.25, 30), b = Node::allocate(2345678.5, 0, 30, 30);
        a->setExternalId(0); b->setExternalId(1);
        G.addNode(a); G.addNode(b);
        Edge_SP e = Edge::allocate(a, b);
        e->addRoutePoint(1234.5678, 20000.125); e->addRoutePoint(2345678.5, 20000.125); e->addRoutePoint(2345678.5, 0);
        G.addEdge(e);
        std::string s = G.writeTglf(true);
        std::cout << s;
        Graph_SP H = buildGraphFromTglf(s);
        check(G.hasSameLayoutAs(*H, 0.001), "hasSameLayoutAs(original, reread, tol 0.001)");
    }
    std::cout << (bad ? "DEFECT(S) PRESENT" : "none") << std::endl;
    return bad ? 1 : 0;
}
