// obs2: cola::PreIteration objects constructed with the default arguments all share ONE
// process-wide Locks vector (and one Resizes vector): the default arguments are the private
// statics PreIteration::__locksNotUsed / __resizesNotUsed, and `locks` / `resizes` are public
// references to them.  A client that follows the class documentation ("Override the operator()
// for things like locking the position of nodes", cola.h: "client can use this to create locks
// on nodes") and pushes a Lock into `locks` of a default-constructed PreIteration therefore
// leaves that lock behind for every later layout in the process that also uses a
// default-constructed PreIteration -- even a completely passive one.
//
//   run 1:  layout L with a passive, default-constructed PreIteration      -> P1
//   noise:  an unrelated layout whose PreIteration subclass locks node 0 at (500, 500)
//   run 2:  layout L again, from scratch, passive default PreIteration     -> P2
// exit 1 = P1 != P2 (defect present), exit 0 = clean.
#include <cstdio>
#include <cmath>
#include <vector>
#include "libcola/cola.h"
using namespace cola;

struct LockFirstNode : public PreIteration
{
    LockFirstNode() : PreIteration(), done(false) {}
    bool operator()()
    {
        if (!done)
        {
            locks.push_back(Lock(0, 500, 500));
            done = true;
            changed = true;
        }
        return true;
    }
    bool done;
};

static std::vector<double> layout(PreIteration *pre, unsigned n)
{
    vpsc::Rectangles rs;
    for (unsigned i = 0; i < n; ++i)
    {
        double x = 40.0 * (i % 3) + 7 * i, y = 35.0 * (i / 3) + 3 * i;
        rs.push_back(new vpsc::Rectangle(x - 10, x + 10, y - 10, y + 10));
    }
    std::vector<Edge> es;
    for (unsigned i = 0; i + 1 < n; ++i) es.push_back(Edge(i, i + 1));
    es.push_back(Edge(0, n - 1));
    ConstrainedFDLayout alg(rs, es, 50, StandardEdgeLengths, nullptr, pre);
    alg.run();
    std::vector<double> out;
    for (unsigned i = 0; i < n; ++i)
    {
        out.push_back(rs[i]->getCentreX());
        out.push_back(rs[i]->getCentreY());
        delete rs[i];
    }
    return out;
}

int main()
{
    PreIteration passive1;
    std::vector<double> p1 = layout(&passive1, 7);
    {
        LockFirstNode locker;
        layout(&locker, 4);
    }
    PreIteration passive2;
    printf("locks visible to a new default-constructed PreIteration: %zu (expected 0)\n",
            passive2.locks.size());
    std::vector<double> p2 = layout(&passive2, 7);
    double md = 0;
    for (size_t i = 0; i < p1.size(); ++i) md = std::max(md, std::fabs(p1[i] - p2[i]));
    printf("max |P1 - P2| = %g\n", md);
    if (md > 1e-9)
    {
        printf("FAIL: node 0 of run 2 is at (%g, %g); run 1 had it at (%g, %g)\n", p2[0], p2[1], p1[0], p1[1]);
        return 1;
    }
    printf("OK\n");
    return 0;
}
