#include <cstdio>
#include <vector>
#include "libcola/cola.h"
using namespace cola;
std::vector<double> runOnce(CompoundConstraints &ccs, bool makeFeas) {
    double xs[] = {0, 40, 95, 150, 210, 260, 300, 30};
    double ys[] = {0, 35, -20, 60, 10, -45, 25, 90};
    const unsigned n = 8;
    vpsc::Rectangles rs;
    for (unsigned i = 0; i < n; ++i) rs.push_back(new vpsc::Rectangle(xs[i]-15, xs[i]+15, ys[i]-10, ys[i]+10));
    std::vector<Edge> es;
    es.push_back(Edge(0,1)); es.push_back(Edge(1,2)); es.push_back(Edge(2,3)); es.push_back(Edge(3,4));
    es.push_back(Edge(4,5)); es.push_back(Edge(5,6)); es.push_back(Edge(6,7)); es.push_back(Edge(7,0)); es.push_back(Edge(1,5));
    ConstrainedFDLayout alg(rs, es, 60);
    alg.setConstraints(ccs);
    alg.setAvoidNodeOverlaps(true);
    if (makeFeas) alg.makeFeasible();
    alg.run();
    std::vector<double> out;
    for (unsigned i = 0; i < n; ++i) { out.push_back(rs[i]->getCentreX()); out.push_back(rs[i]->getCentreY()); delete rs[i]; }
    return out;
}
int main(int argc, char**argv) {
    bool mf = argc > 1;
    CompoundConstraints ccs;
    AlignmentConstraint *a = new AlignmentConstraint(vpsc::XDIM);
    a->addShape(0, 0); a->addShape(3, 0); a->addShape(6, 0);
    ccs.push_back(a);
    AlignmentConstraint *b = new AlignmentConstraint(vpsc::YDIM);
    b->addShape(1, 0); b->addShape(4, 0);
    ccs.push_back(b);
    ccs.push_back(new SeparationConstraint(vpsc::XDIM, 2, 5, 50));
    std::vector<double> r1 = runOnce(ccs, mf);
    std::vector<double> r2 = runOnce(ccs, mf);
    double md = 0;
    for (size_t i = 0; i < r1.size(); ++i) { double d = r1[i]-r2[i]; if (d<0) d=-d; if (d>md) md=d; }
    printf("max diff = %g\n", md);
    for (size_t i = 0; i < r1.size(); i+=2) printf("%g %g | %g %g\n", r1[i], r1[i+1], r2[i], r2[i+1]);
    return md > 1e-9;
}
