// Shared checker used by both demos (copied verbatim into each demo directory).
// Verifies the "planarise" clause of property C19 on the output of OrthoPlanariser:
//   (1) every original node is still present (same id, same position),
//   (2) no two edges of the result cross, touch or overlap (other than meeting at a common end node),
//       and no node lies on an edge it is not an end of,
//   (3) for every original edge (u,v), v can be reached from u through new (dummy) nodes only.
#ifndef C19_PLANAR_CHECK_H
#define C19_PLANAR_CHECK_H

#include <cmath>
#include <cstdio>
#include <map>
#include <set>
#include <deque>
#include <vector>
#include <string>
#include <utility>

#include "libavoid/libavoid.h"
#include "libdialect/libdialect.h"
#include "libdialect/planarise.h"

namespace c19 {

using namespace dialect;
typedef Avoid::Point Pt;

static const double EPS = 1e-6;

static double cross(const Pt &o, const Pt &a, const Pt &b) { return (a.x-o.x)*(b.y-o.y) - (a.y-o.y)*(b.x-o.x); }
static double dot(const Pt &o, const Pt &a, const Pt &b) { return (a.x-o.x)*(b.x-o.x) + (a.y-o.y)*(b.y-o.y); }
static double dist(const Pt &a, const Pt &b) { return std::hypot(a.x-b.x, a.y-b.y); }

// Distance from point p to the closed segment ab.
static double distToSeg(const Pt &p, const Pt &a, const Pt &b) {
    double L2 = (b.x-a.x)*(b.x-a.x) + (b.y-a.y)*(b.y-a.y);
    if (L2 < EPS*EPS) return dist(p, a);
    double t = ((p.x-a.x)*(b.x-a.x) + (p.y-a.y)*(b.y-a.y))/L2;
    if (t < 0) t = 0;
    if (t > 1) t = 1;
    Pt q(a.x + t*(b.x-a.x), a.y + t*(b.y-a.y));
    return dist(p, q);
}

// Do the closed segments ab and cd have a point in common?
static bool segsMeet(const Pt &a, const Pt &b, const Pt &c, const Pt &d) {
    double d1 = cross(a, b, c), d2 = cross(a, b, d), d3 = cross(c, d, a), d4 = cross(c, d, b);
    if (((d1 > EPS && d2 < -EPS) || (d1 < -EPS && d2 > EPS)) &&
        ((d3 > EPS && d4 < -EPS) || (d3 < -EPS && d4 > EPS))) return true;
    // touching / collinear cases
    if (distToSeg(c, a, b) < EPS || distToSeg(d, a, b) < EPS || distToSeg(a, c, d) < EPS || distToSeg(b, c, d) < EPS) return true;
    return false;
}

struct OrigEdge { id_type u, v; };

// Returns the number of violations found (0 == property holds); prints each one.
static int checkPlanarisation(const char *name, const std::set<id_type> &origIds,
                              const std::map<id_type, Pt> &origPos,
                              const std::vector<OrigEdge> &origEdges, Graph_SP P) {
    int bad = 0;
    const int MAXPRINT = 4;     // report at most this many violations per graph in full
#define C19_REPORT(...) do { if (bad < MAXPRINT) printf(__VA_ARGS__); else if (bad == MAXPRINT) printf("  [%s] ...\n", name); ++bad; } while (0)
    NodesById nodes = P->getNodeLookup();
    EdgesById edges = P->getEdgeLookup();
    // (1) original nodes present, unmoved
    for (id_type id : origIds) {
        if (!P->hasNode(id)) { C19_REPORT("  [%s] original node %u is missing from the planarised graph\n", name, id); continue; }
        Pt c = P->getNode(id)->getCentre(), o = origPos.at(id);
        if (dist(c, o) > EPS) { C19_REPORT("  [%s] original node %u moved\n", name, id); }
    }
    // Collect edges as pairs of ids + geometry.
    struct E { id_type s, t; Pt a, b; };
    std::vector<E> es;
    std::map<id_type, std::set<id_type>> adj;
    for (auto p : edges) {
        Node_SP s = p.second->getSourceEnd(), t = p.second->getTargetEnd();
        E e{s->id(), t->id(), s->getCentre(), t->getCentre()};
        es.push_back(e);
        adj[e.s].insert(e.t);
        adj[e.t].insert(e.s);
    }
    // (2a) pairwise edges
    for (size_t i = 0; i < es.size(); ++i) {
        const E &e = es[i];
        if (e.s != e.t && dist(e.a, e.b) < EPS) {
            C19_REPORT("  [%s] distinct nodes %u and %u coincide and are joined by an edge\n", name, e.s, e.t);
        }
        for (size_t j = i + 1; j < es.size(); ++j) {
            const E &f = es[j];
            std::set<id_type> ends{e.s, e.t, f.s, f.t};
            size_t shared = 4 - ends.size();
            if ((e.s == f.s && e.t == f.t) || (e.s == f.t && e.t == f.s)) {
                C19_REPORT("  [%s] duplicate edge between %u and %u\n", name, e.s, e.t);
            } else if (shared == 0) {
                if (segsMeet(e.a, e.b, f.a, f.b)) {
                    C19_REPORT("  [%s] edges (%u,%u) and (%u,%u) cross/touch at a point that is not a common node\n",
                           name, e.s, e.t, f.s, f.t);
                }
            } else {
                // exactly one common end node: the edges must not run on top of each other.
                id_type c = (e.s == f.s || e.s == f.t) ? e.s : e.t;
                Pt o = nodes.at(c)->getCentre();
                Pt pe = (e.s == c) ? e.b : e.a, pf = (f.s == c) ? f.b : f.a;
                if (std::fabs(cross(o, pe, pf)) < EPS && dot(o, pe, pf) > EPS) {
                    C19_REPORT("  [%s] edges (%u,%u) and (%u,%u) overlap (they run on top of each other from node %u)\n",
                           name, e.s, e.t, f.s, f.t, c);
                }
            }
        }
    }
    // (2b) nodes sitting on foreign edges
    for (auto p : nodes) {
        Pt c = p.second->getCentre();
        for (const E &e : es) {
            if (e.s == p.first || e.t == p.first) continue;
            if (distToSeg(c, e.a, e.b) < EPS) {
                C19_REPORT("  [%s] node %u lies on edge (%u,%u) without being one of its ends\n", name, p.first, e.s, e.t);
            }
        }
    }
    // (3) every original edge is still realised by a chain of new nodes
    for (const OrigEdge &oe : origEdges) {
        std::set<id_type> seen{oe.u};
        std::deque<id_type> q{oe.u};
        bool found = false;
        while (!q.empty() && !found) {
            id_type x = q.front(); q.pop_front();
            for (id_type y : adj[x]) {
                if (y == oe.v) { found = true; break; }
                if (origIds.count(y) || seen.count(y)) continue;   // may only pass through dummy nodes
                seen.insert(y);
                q.push_back(y);
            }
        }
        if (!found) {
            C19_REPORT("  [%s] original edge (%u,%u): %u is no longer connected to its neighbour %u through new nodes\n",
                   name, oe.u, oe.v, oe.u, oe.v);
        }
    }
#undef C19_REPORT
    printf("[%s] planarised graph: %zu nodes, %zu edges -> %s\n", name, nodes.size(), es.size(), bad ? "VIOLATION" : "ok");
    return bad;
}

// Small helper for building test graphs with explicit orthogonal routes.
struct Builder {
    Graph_SP G = std::make_shared<Graph>();
    std::set<id_type> ids;
    std::map<id_type, Pt> pos;
    std::vector<OrigEdge> oes;
    Node_SP node(double x, double y, double w = 20, double h = 20) {
        Node_SP n = Node::allocate(x, y, w, h);
        G->addNode(n);
        ids.insert(n->id());
        pos.insert({n->id(), Pt(x, y)});
        return n;
    }
    // route = interior points only; the end points (node centres) are added here.
    Edge_SP edge(Node_SP s, Node_SP t, std::vector<Pt> interior = {}) {
        Edge_SP e = G->addEdge(s, t);
        std::vector<Pt> r;
        r.push_back(s->getCentre());
        for (Pt p : interior) r.push_back(p);
        r.push_back(t->getCentre());
        e->setRoute(r);
        oes.push_back({s->id(), t->id()});
        return e;
    }
    int planariseAndCheck(const char *name, size_t expectNodes = 0, size_t expectEdges = 0) {
        Graph_SP P;
        try {
            OrthoPlanariser op(G);
            P = op.planarise();
        } catch (std::exception &ex) {
            printf("[%s] planarise() threw: %s -> VIOLATION\n", name, ex.what());
            return 1;
        }
        int bad = checkPlanarisation(name, ids, pos, oes, P);
        if (expectNodes && P->getNodeLookup().size() != expectNodes) {
            printf("  [%s] expected %zu nodes in the planarised graph, got %zu\n", name, expectNodes, P->getNodeLookup().size()); ++bad;
        }
        if (expectEdges && P->getEdgeLookup().size() != expectEdges) {
            printf("  [%s] expected %zu edges in the planarised graph, got %zu\n", name, expectEdges, P->getEdgeLookup().size()); ++bad;
        }
        return bad;
    }
};

} // namespace c19
#endif
