import json,sys,itertools
def load(p):
    s=open(p).read(); dec=json.JSONDecoder(); i=0; objs=[]
    while i<len(s):
        while i<len(s) and s[i].isspace(): i+=1
        if i>=len(s): break
        o,j=dec.raw_decode(s,i); objs.append(o); i=j
    return objs
FUN={}
for f in ['ast_Avoid__bends.json','ast_orthogonalDirection.json','ast_dirReverse.json','ast_dirLeft.json','ast_dirRight.json']:
    for o in load(f):
        if o['kind']=='FunctionDecl' and any(c['kind']=='CompoundStmt' for c in o.get('inner',[])): FUN[o['name']]=o
CONST={'CostDirectionN':1,'CostDirectionE':2,'CostDirectionS':4,'CostDirectionW':8}
class Ret(Exception):
    def __init__(s,v): s.v=v
class AssertFail(Exception): pass
class Pt:
    def __init__(s,x,y): s.x=x; s.y=y
def call(name,args):
    f=FUN[name]; params=[c for c in f['inner'] if c['kind']=='ParmVarDecl']; body=[c for c in f['inner'] if c['kind']=='CompoundStmt'][0]
    env={p['id']:a for p,a in zip(params,args)}
    try: stmt(body,env)
    except Ret as r: return r.v
    return None
def stmt(n,env):
    k=n['kind']
    if k=='CompoundStmt':
        for c in n.get('inner',[]): stmt(c,env)
    elif k=='IfStmt':
        c=n['inner']; 
        if ev(c[0],env): stmt(c[1],env)
        elif len(c)>2: stmt(c[2],env)
    elif k=='ReturnStmt': raise Ret(ev(n['inner'][0],env))
    elif k=='DeclStmt':
        for d in n['inner']:
            env[d['id']]=ev(d['inner'][0],env) if d.get('inner') else None
    else: ev(n,env)
def ev(n,env):
    k=n['kind']
    if k in('ImplicitCastExpr','ParenExpr','CXXStaticCastExpr','CXXFunctionalCastExpr'): return ev(n['inner'][0],env)
    if k=='IntegerLiteral': return int(n['value'])
    if k=='CXXBoolLiteralExpr': return n['value']
    if k=='DeclRefExpr':
        r=n['referencedDecl']
        if r['id'] in env: return env[r['id']]
        if r['name'] in CONST: return CONST[r['name']]
        if r['kind']=='FunctionDecl': return ('fn',r['name'])
        raise Exception('unbound '+r['name'])
    if k=='MemberExpr': return getattr(ev(n['inner'][0],env),n['name'])
    if k=='UnaryOperator':
        v=ev(n['inner'][0],env); op=n['opcode']
        return {'!':lambda:not v,'-':lambda:-v}[op]()
    if k=='BinaryOperator':
        op=n['opcode']
        if op=='&&': return bool(ev(n['inner'][0],env)) and bool(ev(n['inner'][1],env))
        if op=='||': return bool(ev(n['inner'][0],env)) or bool(ev(n['inner'][1],env))
        a=ev(n['inner'][0],env); b=ev(n['inner'][1],env)
        if op==',': return b
        return {'==':a==b,'!=':a!=b,'<':a<b,'>':a>b,'|':a|b if op=='|' else 0,'&':a&b if op=='&' else 0}[op]
    if k=='CompoundAssignOperator':
        lhs=n['inner'][0]; 
        while lhs['kind'] in('ParenExpr',): lhs=lhs['inner'][0]
        vid=lhs['referencedDecl']['id']; b=ev(n['inner'][1],env)
        env[vid]={'|=':env[vid]|b}[n['opcode']]; return env[vid]
    if k=='ConditionalOperator':
        return ev(n['inner'][1],env) if ev(n['inner'][0],env) else ev(n['inner'][2],env)
    if k=='CallExpr':
        f=ev(n['inner'][0],env); args=[ev(a,env) for a in n['inner'][1:]]
        if f[1]=='__assert_fail': raise AssertFail()
        return call(f[1],args)
    if k in('StringLiteral','PredefinedExpr'): return None
    raise Exception('unsupported '+k)
# reference: BFS over (x,y,heading) on grid, min bends from (curr,currDir) to (dest,destDir), free plane
DIRS={1:(0,-1),2:(1,0),4:(0,1),8:(-1,0)}   # N is -y (screen coords: S is +y per orthogonalDirection b.y>a.y => S)
from collections import deque
def minbends(cx,cy,cd,dx,dy,dd,R=4):
    INF=99; dist={}; dq=deque(); st=(cx,cy,cd,False); dist[st]=0; dq.append(st)
    best=None
    while dq:
        x,y,h,jt=dq.popleft(); d=dist[(x,y,h,jt)]
        if (x,y,h)==(dx,dy,dd): return d
        if (x,y)==(dx,dy): continue          # may not pass through the destination
        vx,vy=DIRS[h]; nx,ny=x+vx,y+vy
        ns=(nx,ny,h,False)
        if abs(nx)<=R and abs(ny)<=R and dist.get(ns,INF)>d: dist[ns]=d; dq.appendleft(ns)
        if not jt:                           # no zero-length segments: one step between turns
            for nh in DIRS:
                if nh!=h and DIRS[nh]!=(-vx,-vy):
                    ns=(x,y,nh,True)
                    if dist.get(ns,INF)>d+1: dist[ns]=d+1; dq.append(ns)
    return None
rows=0; bad=[]
for sx,sy in itertools.product((-1,0,1),repeat=2):
    if (sx,sy)==(0,0): continue
    for cd in (1,2,4,8):
        for dd in (1,2,4,8):
            rows+=1
            try: b=call('bends',[Pt(-sx,-sy),cd,Pt(0,0),dd])   # dest - curr has signs (sx,sy)
            except AssertFail: bad.append(('ASSERT',sx,sy,cd,dd)); continue
            t=minbends(-sx,-sy,cd,0,0,dd)
            if b>t: bad.append(('OVER',sx,sy,cd,dd,b,t))
            if b!=t: print('differs (estimate,true):',(sx,sy,cd,dd),b,t)
print('rows',rows,'violations',bad)
