#!/bin/sh
# Confirms seeded changes in a scratch worktree: the change compiles, the whole suite passes with it, the demo fails
# with it and passes without it.  usage: confirm_seeds.sh <seed dir> [...]   (each dir holds patch.diff + demo.cpp)
# Writes <seed dir>/confirm.json.  Scratch worktree: /tmp/wt_confirm (created on first use, removed by the caller).
WT=/tmp/wt_confirm
if [ ! -d $WT ]; then sh /verif/selftest/mk_wt.sh confirm >/dev/null 2>&1 || { echo "cannot create worktree"; exit 2; }; fi
LIBS="$WT/cola/libdialect/.libs/libdialect.a $WT/cola/libtopology/.libs/libtopology.a $WT/cola/libcola/.libs/libcola.a $WT/cola/libavoid/.libs/libavoid.a $WT/cola/libvpsc/.libs/libvpsc.a"
for D in "$@"; do
  [ -f "$D/patch.diff" ] || continue
  [ -f "$D/confirm.json" ] && continue
  cd $WT && git checkout -q -- . && git clean -fdq cola/lib*/tests/output 2>/dev/null
  APPLY=ok; git apply "$D/patch.diff" 2>/tmp/confirm_apply.log || APPLY=fail
  WRAP=""; [ -f "$D/demo.wrap" ] && WRAP=$(cat "$D/demo.wrap")     # e.g. "valgrind -q --error-exitcode=99" for memory-safety demos
  BUILD=skip; SUITE=skip; DEMO_WITH=skip; DEMO_WITHOUT=skip; FAILS=""
  if [ $APPLY = ok ]; then
    (cd $WT/cola && make -j16 >/tmp/confirm_make.log 2>&1) && BUILD=ok || BUILD=fail
    if [ $BUILD = ok ]; then
      (cd $WT/cola && make -k -j12 check >/tmp/confirm_check.log 2>&1)
      FAILS=$(grep -h "^# \(FAIL\|ERROR\):" /tmp/confirm_check.log | awk '{s+=$3} END {print s+0}')
      TOTAL=$(grep -h "^# TOTAL:" /tmp/confirm_check.log | awk '{s+=$3} END {print s+0}')
      SUITE="total=$TOTAL failing=$FAILS"
      (cd "$D" && g++ -std=gnu++11 -g -I$WT/cola demo.cpp -o /tmp/confirm_demo $LIBS >/tmp/confirm_demo_build.log 2>&1) || DEMO_WITH=buildfail
      if [ "$DEMO_WITH" != buildfail ]; then (cd "$D" && timeout 900 $WRAP /tmp/confirm_demo >/tmp/confirm_demo_with.log 2>&1); DEMO_WITH="exit=$?"; fi
    fi
    cd $WT && git checkout -q -- .
    (cd $WT/cola && make -j16 >/tmp/confirm_make2.log 2>&1)
    (cd "$D" && g++ -std=gnu++11 -g -I$WT/cola demo.cpp -o /tmp/confirm_demo $LIBS >/tmp/confirm_demo_build2.log 2>&1) || DEMO_WITHOUT=buildfail
    if [ "$DEMO_WITHOUT" != buildfail ]; then (cd "$D" && timeout 900 $WRAP /tmp/confirm_demo >/tmp/confirm_demo_without.log 2>&1); DEMO_WITHOUT="exit=$?"; fi
  fi
  printf '{"seed":"%s","apply":"%s","build":"%s","suite":"%s","demo_with_change":"%s","demo_without_change":"%s","confirmed_at":"%s"}\n' \
     "$D" "$APPLY" "$BUILD" "$SUITE" "$DEMO_WITH" "$DEMO_WITHOUT" "$(date -u +%FT%TZ)" > "$D/confirm.json"
  cat "$D/confirm.json"
done
