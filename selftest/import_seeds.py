#!/usr/bin/env python3
"""Imports confirmed seeded changes from /tmp/seed_out/<name>/<A|B> into /verif/seeded/<name>-<A|B>/ and records which
checks catch them.  usage: import_seeds.py <name>/<A|B>:<Cnn>[,<Cnn>...] ...   (e.g. c09a/A:C09)"""
import json, os, re, shutil, subprocess, sys
VERIF = os.path.dirname(os.path.dirname(os.path.abspath(__file__)))
REPO = "/repo"

def sh(cmd, **kw):
    return subprocess.run(cmd, stdout=subprocess.PIPE, stderr=subprocess.STDOUT, text=True, **kw)

def main():
    for spec in sys.argv[1:]:
        seed, props = spec.split(":")
        props = props.split(",")
        src = os.path.join("/tmp/seed_out", seed)
        cj = os.path.join(src, "confirm.json")
        if not os.path.exists(cj):
            print(seed, "not confirmed yet"); continue
        c = json.load(open(cj))
        ok = (c["apply"] == "ok" and c["build"] == "ok" and "failing=0" in c["suite"] and c["demo_with_change"] not in ("exit=0", "skip", "buildfail")
              and c["demo_without_change"] == "exit=0")
        if not ok:
            print(seed, "NOT KEPT:", c); continue
        dst = os.path.join(VERIF, "seeded", seed.replace("/", "-"))
        os.makedirs(dst, exist_ok=True)
        for f in ["patch.diff", "demo.cpp", "notes.md", "demo.wrap"] + [x for x in os.listdir(src) if x.endswith(".h")]:
            if os.path.exists(os.path.join(src, f)):
                shutil.copy(os.path.join(src, f), os.path.join(dst, f))
        if sh(["git", "-C", REPO, "status", "--porcelain", "--untracked-files=no"]).stdout.strip():
            print("repo dirty"); return 2
        detected = {}
        try:
            r = sh(["git", "-C", REPO, "apply", os.path.join(dst, "patch.diff")])
            if r.returncode != 0:
                print(seed, "patch does not apply to /repo:", r.stdout[-300:]); continue
            for p in props:
                rr = sh([os.path.join(VERIF, "check"), p, "--tier", "quick"], cwd=VERIF)
                rules = sorted(set(re.findall(r": rule (\S+) instance", rr.stdout)))
                first = [l for l in rr.stdout.splitlines() if ": rule " in l and " instance " in l]
                detected[p] = {"exit": rr.returncode, "rules": rules, "first_report": first[0][:400] if first else ""}
        finally:
            sh(["git", "-C", REPO, "checkout", "--", "."])
        notes = open(os.path.join(src, "notes.md")).read() if os.path.exists(os.path.join(src, "notes.md")) else ""
        m = re.search(r"(?is)(what (?:it|is) need[^\n]*\n.*?)(?:\n#|\Z)", notes)
        meta = {
            "seed": seed, "breaks_property": props[0], "also_checked": props[1:],
            "files_touched": sorted(set(re.findall(r"^\+\+\+ b/(\S+)", open(os.path.join(dst, "patch.diff")).read(), re.M))),
            "needs_to_manifest": (m.group(1).strip()[:1500] if m else "see notes.md"),
            "confirmed": {"compiles": True, "suite_with_change": c["suite"], "demo_with_change": c["demo_with_change"],
                          "demo_without_change": c["demo_without_change"], "at": c["confirmed_at"],
                          "how": "selftest/confirm_seeds.sh in scratch worktree /tmp/wt_confirm: git apply, make, make -k check (178 tests), "
                                 "build+run demo (must fail), git checkout, rebuild, run demo (must pass)"},
            "detected_by": detected,
            "caught": any(d["exit"] == 1 for d in detected.values()),
            "origin": "written by an independent sub-agent given only the property text and a scratch worktree",
        }
        fc = json.load(open(os.path.join(VERIF, "seeded", "FIRST_CONTACT.json"))).get(seed.replace("/", "-"))
        if fc:
            meta["first_contact"] = fc
        json.dump(meta, open(os.path.join(dst, "meta.json"), "w"), indent=1)
        print(seed, "kept; caught=%s by %s" % (meta["caught"], {p: d["rules"] for p, d in detected.items()}))

if __name__ == "__main__":
    sys.exit(main())
