#!/bin/sh
# usage: /tmp/mk_wt.sh <name>   -> creates /tmp/wt_<name> (git worktree of /repo HEAD), configures and builds it
set -e
N="$1"
cd /repo
git worktree add -q --detach /tmp/wt_$N HEAD
cd /tmp/wt_$N/cola
mkdir -p m4
autoreconf --install >/tmp/wt_$N.autoreconf.log 2>&1
./configure CXXFLAGS="-Wno-error" >/tmp/wt_$N.configure.log 2>&1
make -j8 >/tmp/wt_$N.make.log 2>&1
echo "worktree /tmp/wt_$N built"
