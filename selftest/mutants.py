"""Mutants (must fire) and neutral edits (must stay silent) for the checkers' self-test."""
MUTANTS = []


def M(id, prop, file, old, new, expect="fire", mention=(), tu=None, count=1):
    MUTANTS.append({"id": id, "prop": prop, "edits": [{"file": file, "old": old, "new": new, "count": count}],
                    "expect": expect, "mention": list(mention), "tu": tu})


# ---------------------------------------------------------------- C01
M("c01-publish-before-scan", "C01", "cola/libvpsc/solve_VPSC.cpp",
  "    bs->cleanup();\n    bool activeConstraints=false;\n    for(unsigned i=0;i<m;i++) {\n        v=cs[i];",
  "    bs->cleanup();\n    copyResult();\n    bool activeConstraints=false;\n    for(unsigned i=0;i<m;i++) {\n        v=cs[i];",
  mention=["VERIFY-BEFORE-PUBLISH", "vpsc::IncSolver::satisfy"])
M("c01-scan-shortened", "C01", "cola/libvpsc/solve_VPSC.cpp",
  "    for(unsigned i=0;i<m;i++) {\n        if(cs[i]->active) activeConstraints=true;",
  "    for(unsigned i=0;i+1<m;i++) {\n        if(cs[i]->active) activeConstraints=true;",
  mention=["VERIFY-BEFORE-PUBLISH", "vpsc::Solver::satisfy"])
M("c01-scan-skips-equalities", "C01", "cola/libavoid/vpsc.cpp",
  "        v=cs[i];\n        if(v->active) activeConstraints=true;",
  "        v=cs[i];\n        if(v->equality) continue;\n        if(v->active) activeConstraints=true;",
  mention=["VERIFY-BEFORE-PUBLISH", "Avoid::IncSolver::satisfy"])
M("c01-threshold-positive", "C01", "cola/libvpsc/solve_VPSC.cpp",
  "        if(cs[i]->slack() < ZERO_UPPERBOUND) {\n            COLA_ASSERT(cs[i]->slack()>ZERO_UPPERBOUND);",
  "        if(cs[i]->slack() < -1.0) {\n            COLA_ASSERT(cs[i]->slack()>ZERO_UPPERBOUND);", expect="silent")
M("c01-slack-sign", "C01", "cola/libvpsc/constraint.h",
  "        return right->unscaledPosition() - gap - left->unscaledPosition(); ",
  "        return right->unscaledPosition() + gap - left->unscaledPosition(); ",
  mention=["SLACK-FORM"], tu=["cola/libvpsc/constraint.cpp"])
M("c01-slack-ignores-flag", "C01", "cola/libavoid/vpsc.h",
  "        if (unsatisfiable)\n        {\n            return DBL_MAX;\n        }\n        if (needsScaling)",
  "        if (unsatisfiable && !equality)\n        {\n            return DBL_MAX;\n        }\n        if (needsScaling)",
  mention=["SLACK-FORM", "Avoid::Constraint::slack"], tu=["cola/libavoid/vpsc.cpp"])
M("c01-new-flag-writer", "C01", "cola/libvpsc/block.cpp",
  "Constraint *Block::findMinLM() {\n", "Constraint *Block::findMinLM() {\n    if (!vars->empty() && !vars->front()->out.empty()) vars->front()->out.front()->unsatisfiable = false;\n",
  mention=["WHO-WRITES", "vpsc::Block::findMinLM"])
M("c01-one-copy-changed", "C01", "cola/libavoid/vpsc.cpp",
  "            if(v->slack()>=0) {\n                COLA_ASSERT(!v->active);", "            if(v->slack()>0) {\n                COLA_ASSERT(!v->active);",
  mention=["SIBLING", "Avoid::IncSolver::satisfy"])
M("c01-neutral-rename-local", "C01", "cola/libvpsc/solve_VPSC.cpp",
  "    bool activeConstraints=false;\n    for(unsigned i=0;i<m;i++) {\n        if(cs[i]->active) activeConstraints=true;\n        if(cs[i]->slack() < ZERO_UPPERBOUND) {",
  "    bool activeConstraints=false;\n    for(unsigned idx=0;idx<m;++idx) {\n        unsigned i=idx;\n        if(cs[idx]->active) activeConstraints=true;\n        if(cs[idx]->slack() < ZERO_UPPERBOUND) {",
  expect="silent")
M("c01-solve-skips-refine", "C01", "cola/libvpsc/solve_VPSC.cpp",
  "    satisfy();\n    refine();\n    copyResult();", "    if (satisfy()) refine();\n    copyResult();",
  mention=["SOLVE-USES-SATISFY", "vpsc::Solver::solve"])

# ---------------------------------------------------------------- C09
M("c09-border-not-restored", "C09", "cola/libvpsc/rectangle.cpp",
  "        }\n        Rectangle::setXBorder(xBorder);\n        for_each(cs.begin(),cs.end(),delete_object());\n        for_each(vs.begin(),vs.end(),delete_object());",
  "            Rectangle::setXBorder(xBorder);\n        }\n        for_each(cs.begin(),cs.end(),delete_object());\n        for_each(vs.begin(),vs.end(),delete_object());",
  expect="silent")   # still restored on both paths (line 619 restores it before the third pass)
M("c09-border-third-pass-leak", "C09", "cola/libvpsc/rectangle.cpp",
  "        }\n        Rectangle::setXBorder(xBorder);\n        for_each(cs.begin(),cs.end(),delete_object());\n        for_each(vs.begin(),vs.end(),delete_object());",
  "        }\n        for_each(cs.begin(),cs.end(),delete_object());\n        for_each(vs.begin(),vs.end(),delete_object());",
  mention=["PAIRED-BORDERS", "x-border"])
M("c09-yborder-wrong-value", "C09", "cola/libvpsc/rectangle.cpp",
  "        cs.clear();\n        Rectangle::setYBorder(yBorder);", "        cs.clear();\n        Rectangle::setYBorder(xBorder);",
  mention=["PAIRED-BORDERS", "y-border"])
M("c09-mover-grows", "C09", "cola/libvpsc/rectangle.h",
  "        minX=x+xBorder;\n        maxX=x+w-xBorder;", "        minX=x+xBorder;\n        maxX=x+w+xBorder;",
  mention=["MOVERS-AFFINE", "moveMinX"], tu=["cola/libvpsc/rectangle.cpp"])
M("c09-centre-off", "C09", "cola/libvpsc/rectangle.h",
  "        moveMinY(y-height()/2.0);", "        moveMinY(y-width()/2.0);",
  mention=["MOVERS-AFFINE", "moveCentreY"], tu=["cola/libvpsc/rectangle.cpp"])
M("c09-gap-wrong-dim", "C09", "cola/libvpsc/rectangle.cpp",
  "                double sep = (v->r->height()+r->r->height())/2.0;", "                double sep = (v->r->height()+r->r->width())/2.0;",
  mention=["GAP-SHAPE"])
M("c09-gap-swapped-sides", "C09", "cola/libvpsc/rectangle.cpp",
  "                    cs.push_back(new Constraint(u->v,v->v,sep));\n                    result=u->rightNeighbours->erase(v);",
  "                    cs.push_back(new Constraint(v->v,u->v,sep));\n                    result=u->rightNeighbours->erase(v);",
  mention=["GAP-SHAPE"])
M("c09-resizer-reachable", "C09", "cola/libvpsc/rectangle.cpp",
  "            (*r)->moveCentreY((*v)->finalPosition);\n        }\n        for_each(cs.begin(),cs.end(),delete_object());",
  "            (*r)->moveCentreY((*v)->finalPosition);\n            if ((*r)->height() < 1e-9) (*r)->set_height(1e-9);\n        }\n        for_each(cs.begin(),cs.end(),delete_object());",
  mention=["WRITERS-REACH", "set_height"])
M("c09-tiebreak-removed", "C09", "cola/libvpsc/rectangle.cpp",
  "    if (u->v->id != v->v->id) {\n        return u->v->id < v->v->id;\n    }\n    return u < v;", "    return u < v;",
  mention=["ORDER-NO-ADDR", "CmpNodePos"])

# ---------------------------------------------------------------- C15
M("c15-uninit-new-member", "C15", "cola/libavoid/connend.cpp",
  "    : m_type(ConnEndPoint),\n      m_point(point),\n      m_directions(ConnDirAll),\n      m_connection_pin_class_id(CONNECTIONPIN_UNSET),",
  "    : m_type(ConnEndPoint),\n      m_point(point),\n      m_connection_pin_class_id(CONNECTIONPIN_UNSET),",
  mention=["INIT", "m_directions"])
M("c15-dtor-leak", "C15", "cola/libavoid/router.cpp",
  "    delete m_topology_addon;\n}", "}", mention=["OWN-DTOR", "m_topology_addon"])
M("c15-delete-without-guard", "C15", "cola/libavoid/router.cpp",
  "    m_currently_calling_destructors = true;\n    delete connector;\n    m_currently_calling_destructors = false;",
  "    delete connector;", mention=["DEL-GUARD", "deleteConnector"])
M("c15-erase-then-advance", "C15", "cola/libavoid/makepath.cpp",
  "                bestNodeInf->aStarPendingNodes.erase(currInd);\n                break;",
  "                bestNodeInf->aStarPendingNodes.erase(currInd);", mention=["ERASE-ADVANCE", "AStarPathPrivate::search"])

# ---------------------------------------------------------------- C16
M("c16-inpoly-flip", "C16", "cola/libavoid/geometry.cpp",
  "        if (dir == -1)\n        {\n            // Point is outside", "        if (dir == 1)\n        {\n            // Point is outside",
  mention=["TABLE=EXACT", "inPoly"])
M("c16-segint-touch", "C16", "cola/libavoid/geometry.cpp",
  "    return (((ab_c * ab_d) < 0) && ((cd_a * cd_b) < 0));", "    return (((ab_c * ab_d) < 0) && ((cd_a * cd_b) <= 0));",
  mention=["TABLE=EXACT", "segmentIntersect"])
M("c16-vecdir-tolerance", "C16", "cola/libavoid/geometry.h",
  "        const double maybeZero = 0.0)\n{", "        const double maybeZero = 0.000001)\n{",
  mention=["TOL-ZERO", "vecDir"], tu=["cola/libavoid/geometry.cpp"])
M("c16-pointonline-closed", "C16", "cola/libavoid/geometry.cpp",
  "        return (a.x == c.x) &&\n                (((a.y < c.y) && (c.y < b.y)) ||",
  "        return (a.x == c.x) &&\n                (((a.y <= c.y) && (c.y < b.y)) ||",
  mention=["TABLE=EXACT", "pointOnLine"])
M("c16-neutral-reorder", "C16", "cola/libavoid/geometry.cpp",
  "    int s123 = vecDir(c1, c2, c3);\n    int s12p = vecDir(c1, c2, p);\n    int s23p = vecDir(c2, c3, p);",
  "    int s23p = vecDir(c2, c3, p);\n    int s12p = vecDir(c1, c2, p);\n    int s123 = vecDir(c1, c2, c3);", expect="silent")

# ---------------------------------------------------------------- C02
MUTANTS.append({"id": "c02-lm-sign-both-copies", "prop": "C02", "expect": "fire", "mention": ["LM-KKT"], "tu": None, "edits": [
    {"file": "cola/libvpsc/block.cpp", "old": "            dfdv-=c->lm*c->right->scale;\n            if(!c->equality", "new": "            dfdv+=c->lm*c->right->scale;\n            if(!c->equality", "count": 1},
    {"file": "cola/libavoid/vpsc.cpp", "old": "            dfdv-=c->lm*c->right->scale;\n            if(!c->equality", "new": "            dfdv+=c->lm*c->right->scale;\n            if(!c->equality", "count": 1}]})
MUTANTS.append({"id": "c02-blockpos-both-copies", "prop": "C02", "expect": "fire", "mention": ["BLOCK-OPTIMUM"], "tu": None, "edits": [
    {"file": "cola/libvpsc/block.cpp", "old": "    AD+=wi*ai*v->desiredPosition;", "new": "    AD+=wi*v->desiredPosition;", "count": 1},
    {"file": "cola/libavoid/vpsc.cpp", "old": "    AD+=wi*ai*v->desiredPosition;", "new": "    AD+=wi*v->desiredPosition;", "count": 1}]})
M("c02-one-copy-merge", "C02", "cola/libvpsc/block.cpp", "    double dist = c->right->offset - c->left->offset - c->gap;\n    Block *l=c->left->block;",
  "    double dist = c->right->offset - c->left->offset + c->gap;\n    Block *l=c->left->block;", mention=["SIBLING"])
M("c02-dfdv-weight", "C02", "cola/libvpsc/variable.h", "\t\treturn 2. * weight * ( position() - desiredPosition );",
  "\t\treturn 2. * ( position() - desiredPosition );", mention=["DFDV-FORM"], tu=["cola/libvpsc/variable.cpp"])

# ---------------------------------------------------------------- C18
M("c18-rot-lost-minus", "C18", "cola/libdialect/constraints.cpp",
  "            g = xgap;\n            xgap = -ygap;\n            ygap = g;\n            break;\n        case SepTransform::ROTATE90ACW:",
  "            g = xgap;\n            xgap = ygap;\n            ygap = g;\n            break;\n        case SepTransform::ROTATE90ACW:",
  mention=["TRANSFORM-MATRIX", "ROTATE90CW"])
M("c18-rot-zero-minus", "C18", "cola/libdialect/constraints.cpp",
  "            xgap = -xgap;\n            ygap = -ygap;\n            break;\n        case SepTransform::FLIPV:",
  "            xgap = 0 - xgap;\n            ygap = -ygap;\n            break;\n        case SepTransform::FLIPV:",
  mention=["NEG-ZERO", "SepPair::transform"])
M("c18-flipmd-no-type-swap", "C18", "cola/libdialect/constraints.cpp",
  "        case SepTransform::FLIPMD:\n            // Swap x- and y-types.\n            swap(xst, yst);\n            swap(xgt, ygt);",
  "        case SepTransform::FLIPMD:\n            // Swap x- and y-types.\n            swap(xst, yst);", mention=["TRANSFORM-MATRIX", "FLIPMD"])
M("c18-negate-table", "C18", "cola/libdialect/constraints.cpp",
  "    case SepDir::DOWN:\n        return SepDir::UP;", "    case SepDir::DOWN:\n        return SepDir::DOWN;", mention=["ENUM-TABLES", "negateSepDir"])
M("c18-addsep-west-sign", "C18", "cola/libdialect/constraints.cpp",
  "    case SepDir::LEFT:\n        xgt = gt;\n        xst = st;\n        xgap = -gap;", "    case SepDir::LEFT:\n        xgt = gt;\n        xst = st;\n        xgap = gap;",
  mention=["DIR-COMMUTE"])
M("c18-flipped-stale", "C18", "cola/libdialect/constraints.cpp",
  "        }\n        // Report the orientation of *this* retrieval, also for an existing pair.\n        sp->flippedRetrieval = true;\n        return sp;",
  "            sp->flippedRetrieval = true;\n        }\n        return sp;", mention=["FLIPPED-RETRIEVAL", "getSepPair"])
M("c18-flipped-wrong-value", "C18", "cola/libdialect/constraints.cpp",
  "                sp->flippedRetrieval = flipped;", "                sp->flippedRetrieval = !flipped;", mention=["FLIPPED-RETRIEVAL", "checkSepPair"])
M("c18-graph-rotates-other-way", "C18", "cola/libdialect/graphs.cpp",
  "    auto nodeMap = Compass::getRotationFunction(CardinalDir::EAST, CardinalDir::SOUTH);", "    auto nodeMap = Compass::getRotationFunction(CardinalDir::EAST, CardinalDir::NORTH);",
  mention=["TRANSFORM-MATRIX", "rotate90cw"])
M("c18-neutral-temp", "C18", "cola/libdialect/constraints.cpp",
  "            g = xgap;\n            xgap = ygap;\n            ygap = -g;", "            g = -xgap;\n            xgap = ygap;\n            ygap = g;", expect="silent")

# ---------------------------------------------------------------- C05
M("c05-bends-overestimate", "C05", "cola/libavoid/makepath.cpp",
  "        //   0 > o                     D--> \n        //\n        return 0;", "        //   0 > o                     D--> \n        //\n        return 2;",
  mention=["BENDS-ADMISSIBLE"])
M("c05-bends-underestimate-ok", "C05", "cola/libavoid/makepath.cpp",
  "        //       o < 4                 D-->                 o < 4\n        //\n        return 4;", "        //       o < 4                 D-->                 o < 4\n        //\n        return 2;",
  expect="silent")
M("c05-bends-missing-case", "C05", "cola/libavoid/makepath.cpp",
  "    else if (currDirPerpendicularToDestDir &&\n             (currToDestDir == destDir))", "    else if (currDirPerpendicularToDestDir && (currDir == CostDirectionN) &&\n             (currToDestDir == destDir))",
  mention=["BENDS-ADMISSIBLE", "assertion"])
M("c05-dirleft-wrong", "C05", "cola/libavoid/makepath.cpp",
  "    else if (direction == CostDirectionS)\n    {\n        return CostDirectionE;\n    }\n    else if (direction == CostDirectionW)\n    {\n        return CostDirectionS;",
  "    else if (direction == CostDirectionS)\n    {\n        return CostDirectionW;\n    }\n    else if (direction == CostDirectionW)\n    {\n        return CostDirectionS;",
  mention=["DIR-TABLES", "dirLeft"])
M("c05-heuristic-scaled", "C05", "cola/libavoid/makepath.cpp",
  "        return dist + penalty;\n    }\n}", "        return 1.5 * dist + penalty;\n    }\n}", mention=["HEURISTIC-FORM", "Orthogonal"])
M("c05-heuristic-extra-bend", "C05", "cola/libavoid/makepath.cpp",
  "            if ((xmove != 0) && (ymove != 0))\n            {\n                bendCount += 1;", "            if ((xmove != 0) || (ymove != 0))\n            {\n                bendCount += 1;",
  mention=["HEURISTIC-FORM"])
M("c05-polyline-heuristic-inflated", "C05", "cola/libavoid/makepath.cpp",
  "        return euclideanDist(curr, costTarPoint);", "        return 1.0001 * euclideanDist(curr, costTarPoint);", mention=["HEURISTIC-FORM", "PolyLine"])

# ---------------------------------------------------------------- C03
M("c03-checkvis-no-blocker-test", "C03", "cola/libavoid/graph.cpp",
  "    if (cone1 && cone2 && ((blocker = firstBlocker()) == 0))", "    if (cone1 && cone2 && (m_router->IgnoreRegions || ((blocker = firstBlocker()) == 0)))",
  mention=["VIS-GUARD", "checkVis"])
M("c03-checkvis-cone-or", "C03", "cola/libavoid/graph.cpp",
  "    if (cone1 && cone2 && ((blocker = firstBlocker()) == 0))", "    if ((cone1 || cone2) && ((blocker = firstBlocker()) == 0))",
  mention=["VIS-GUARD", "checkVis"])
M("c03-cone-wrong-vertex", "C03", "cola/libavoid/graph.cpp",
  "            cone2 = inValidRegion(m_router->IgnoreRegions, j->shPrev->point,\n                    jPoint, j->shNext->point, iPoint);",
  "            cone2 = inValidRegion(m_router->IgnoreRegions, i->shPrev->point,\n                    jPoint, j->shNext->point, iPoint);",
  mention=["VIS-GUARD"])
M("c03-sweep-visible-ignored", "C03", "cola/libavoid/visibility.cpp",
  "            if (currVisible)\n            {\n                db_printf(\"\\tSetting visibility edge... \\n\\t\\t\");",
  "            if (currVisible || centerID.isConnPt())\n            {\n                db_printf(\"\\tSetting visibility edge... \\n\\t\\t\");",
  mention=["VIS-GUARD", "vertexSweep"])
M("c03-new-setdist-caller", "C03", "cola/libavoid/router.cpp",
  "        else if (tmp->blocker() == pid)\n        {\n            tmp->checkVis();", "        else if (tmp->blocker() == pid)\n        {\n            tmp->setDist(1.0);",
  mention=["SETDIST-CALLERS"])
M("c03-blocking-skips-last-side", "C03", "cola/libavoid/router.cpp",
  "            for (size_t pt_i = 0; pt_i < poly.size(); ++pt_i)\n            {\n                size_t pt_n = (pt_i == (poly.size() - 1)) ? 0 : pt_i + 1;\n                const Point& pi = poly.ps[pt_i];\n                const Point& pn = poly.ps[pt_n];\n                if (segmentShapeIntersect(e1, e2, pi, pn, ",
  "            for (size_t pt_i = 0; pt_i + 1 < poly.size(); ++pt_i)\n            {\n                size_t pt_n = (pt_i == (poly.size() - 1)) ? 0 : pt_i + 1;\n                const Point& pi = poly.ps[pt_i];\n                const Point& pn = poly.ps[pt_n];\n                if (segmentShapeIntersect(e1, e2, pi, pn, ",
  mention=["BLOCKING-SCAN"])
M("c03-firstblocker-skip-conn", "C03", "cola/libavoid/graph.cpp",
  "        if (k->id == dummyOrthogID)\n        {", "        if ((k->id == dummyOrthogID) || (k->shPrev == k->shNext))\n        {",
  mention=["FIRSTBLOCKER-SCAN"])
M("c03-firstblocker-no-reset", "C03", "cola/libavoid/graph.cpp",
  "            seenIntersectionAtEndpoint = false;\n            lastId = kID.objID;", "            lastId = kID.objID;", mention=["FIRSTBLOCKER-SCAN"])
M("c03-fallback-unconditional", "C03", "cola/libavoid/connector.cpp",
  "    if (pathlen < 2)\n    {\n        // There is no valid path.\n        db_printf(\"Warning: Path not found...\\n\");\n        m_needs_reroute_flag = true;\n        pathlen = 2;",
  "    if (pathlen < 3)\n    {\n        // There is no valid path.\n        db_printf(\"Warning: Path not found...\\n\");\n        m_needs_reroute_flag = true;\n        pathlen = 2;",
  mention=["FALLBACK-GUARD"])
M("c03-path0-from-dst", "C03", "cola/libavoid/connector.cpp",
  "    path[0] = m_src_vert->point;", "    path[0] = m_dst_vert->point;", mention=["ENDPOINTS"])

M("c03-sweep-border-only-crossing-edges", "C03", "cola/libavoid/visibility.cpp",
  "        if (kPrev && (kPrev != centerInf) &&\n                pointOnLine(kPrev->point, k->point, centerInf->point))\n        {\n            onBorderIDs.insert(k->id.objID);\n            onBorderVerts[k->id.objID] = k;\n        }\n        if (kNext && (kNext != centerInf) &&\n                pointOnLine(kNext->point, k->point, centerInf->point))\n",
  "        if (kPrev && (kPrev != centerInf) && (vecDir(centerInf->point, xaxis, kPrev->point) == AHEAD) &&\n                pointOnLine(kPrev->point, k->point, centerInf->point))\n        {\n            onBorderIDs.insert(k->id.objID);\n            onBorderVerts[k->id.objID] = k;\n        }\n        if (kNext && (kNext != centerInf) && (vecDir(centerInf->point, xaxis, kNext->point) == AHEAD) &&\n                pointOnLine(kNext->point, k->point, centerInf->point))\n",
  mention=["SWEEP-BORDER"])
M("c03-neutral-sweep-border-one-role", "C03", "cola/libavoid/visibility.cpp",
  "        if (kNext && (kNext != centerInf) &&\n                pointOnLine(kNext->point, k->point, centerInf->point))\n        {\n            onBorderIDs.insert(k->id.objID);\n            onBorderVerts[k->id.objID] = k;\n        }\n",
  "", expect="silent")
M("c03-side-line-through-blocked-stretch", "C03", "cola/libavoid/orthogonal.cpp",
  "                    LineSegment *line = segments.insert(\n                            LineSegment(minLimit, minLimitMax, lineX));\n\n                    // Shape corner:\n                    VertInf *vI1 = new VertInf(router, dummyOrthogShapeID,\n                                Point(lineX, minShape));",
  "                    LineSegment *line = segments.insert(\n                            LineSegment(minLimit, maxLimitMin, lineX));\n\n                    // Shape corner:\n                    VertInf *vI1 = new VertInf(router, dummyOrthogShapeID,\n                                Point(lineX, minShape));",
  mention=["FREE-SIDE-LINES"])

# ---------------------------------------------------------------- C04
M("c04-f-ignores-h", "C04", "cola/libavoid/makepath.cpp",
  "            // The A* formula\n            node.f = node.g + node.h;\n\n#ifdef ASTAR_DEBUG", "            // The A* formula\n            node.f = node.g;\n\n#ifdef ASTAR_DEBUG",
  mention=["ASTAR-STRUCTURE", "store f"])
M("c04-g-drops-parent", "C04", "cola/libavoid/makepath.cpp",
  "                    node.g = bestNode->g + cost(lineRef, edgeDist, bestNodeInf, \n                            node.inf, bestNode->prevNode);",
  "                    node.g = cost(lineRef, edgeDist, bestNodeInf, \n                            node.inf, bestNode->prevNode);", mention=["ASTAR-STRUCTURE", "store g"])
M("c04-cmp-reversed", "C04", "cola/libavoid/makepath.cpp",
  "        return a->f > b->f;", "        return a->f < b->f;", mention=["NODE-ORDER"])
M("c04-cmp-no-tolerance", "C04", "cola/libavoid/makepath.cpp",
  "    if (fabs(a->f - b->f) > 0.0000001)", "    if (fabs(a->f - b->f) > 0.01)", mention=["NODE-ORDER"])
M("c04-replace-always", "C04", "cola/libavoid/makepath.cpp",
  "                    if (node.g < ati.g)\n                    {", "                    if (node.g <= ati.g + 1)\n                    {", mention=["ASTAR-STRUCTURE", "relaxation"])
M("c04-cost-bend-free", "C04", "cola/libavoid/makepath.cpp",
  "            else if (rad > 0)\n            {\n                // Only penalise as an extra segment if the two \n                // segments are not collinear.\n                result += segmt_penalty;",
  "            else if (rad > 1)\n            {\n                // Only penalise as an extra segment if the two \n                // segments are not collinear.\n                result += segmt_penalty;",
  mention=["COST-FORM"])
M("c04-cost-hidden-term", "C04", "cola/libavoid/makepath.cpp",
  "    double result = dist;\n    Polygon connRoute;", "    double result = dist + 0.001;\n    Polygon connRoute;", mention=["COST-FORM"])
M("c04-euclid-manhattan", "C04", "cola/libavoid/geometry.cpp",
  "double euclideanDist(const Point& a, const Point& b)\n{\n    double xdiff = a.x - b.x;\n    double ydiff = a.y - b.y;\n\n    return sqrt((xdiff * xdiff) + (ydiff * ydiff));",
  "double euclideanDist(const Point& a, const Point& b)\n{\n    double xdiff = a.x - b.x;\n    double ydiff = a.y - b.y;\n\n    return sqrt((xdiff * xdiff) + (ydiff * xdiff));", mention=["EUCLID-FORM"])
M("c04-edge-length-wrong", "C04", "cola/libavoid/graph.cpp",
  "    m_dist = dist;", "    m_dist = dist * 0.999;", mention=["EDGE-LENGTH"])

# ---------------------------------------------------------------- C07
M("c07-boundary-alt-swapped", "C07", "cola/libcola/compound_constraints.cpp",
  "        vpsc::Constraint constraint = vpsc::Constraint(\n                variable, vs[_primaryDim][info->varIndex], info->distOffset);",
  "        vpsc::Constraint constraint = vpsc::Constraint(\n                vs[_primaryDim][info->varIndex], variable, info->distOffset);",
  mention=["TRANSLATOR-AGREEMENT", "BoundaryConstraint"])
M("c07-align-alt-inequality", "C07", "cola/libcola/compound_constraints.cpp",
  "    vpsc::Constraint constraint(variable, vs[_primaryDim][info->varIndex], \n            info->distOffset, true);",
  "    vpsc::Constraint constraint(variable, vs[_primaryDim][info->varIndex], \n            info->distOffset);", mention=["TRANSLATOR-AGREEMENT", "AlignmentConstraint"])
M("c07-multisep-gen-gap", "C07", "cola/libcola/compound_constraints.cpp",
  "        vpsc::Constraint *c = new vpsc::Constraint(\n                c1->variable, c2->variable, sep, equality);", "        vpsc::Constraint *c = new vpsc::Constraint(\n                c1->variable, c2->variable, -sep, equality);",
  mention=["TRANSLATOR-AGREEMENT", "MultiSeparationConstraint"])
M("c07-creator-dropped", "C07", "cola/libcola/compound_constraints.cpp",
  "            constraint->creator = this;\n            cs.push_back(constraint);\n        }\n    }\n}\n\n\nSubConstraintAlternatives \nBoundaryConstraint",
  "            cs.push_back(constraint);\n        }\n    }\n}\n\n\nSubConstraintAlternatives \nBoundaryConstraint", mention=["CREATOR-RECORDED", "BoundaryConstraint"])
M("c07-extra-constraints-skipped", "C07", "cola/libcola/colafd.cpp",
  "        // Add non-overlap constraints, but not variables again.\n        setupExtraConstraints(extraConstraints, dim, vs, cs, boundingBoxes);\n        // Projection.\n        project(vs,cs,coords);",
  "        // Add non-overlap constraints, but not variables again.\n        if (!extraConstraints.empty() && preIteration == nullptr) setupExtraConstraints(extraConstraints, dim, vs, cs, boundingBoxes);\n        // Projection.\n        project(vs,cs,coords);",
  mention=["PROJECTION-COMPLETE", "moveTo"])
M("c07-setup-skips-last", "C07", "cola/libcola/colafd.cpp",
  "    for (CompoundConstraints::const_iterator c = ccs.begin();\n            c != ccs.end(); ++c)\n    {\n        (*c)->generateSeparationConstraints(dim, vs, cs, boundingBoxes);\n    }\n}\n\n\nstatic void setupExtraConstraints",
  "    for (CompoundConstraints::const_iterator c = ccs.begin();\n            c != ccs.end(); ++c)\n    {\n        if ((*c)->priority() > 50000) continue;\n        (*c)->generateSeparationConstraints(dim, vs, cs, boundingBoxes);\n    }\n}\n\n\nstatic void setupExtraConstraints",
  mention=["PROJECTION-COMPLETE", "setupVarsAndConstraints"])
M("c07-unsat-report-inverted", "C07", "cola/libcola/colafd.cpp",
  "        if((*c)->unsatisfiable) {\n            UnsatisfiableConstraintInfo* i=new UnsatisfiableConstraintInfo(*c);",
  "        if((*c)->unsatisfiable && !(*c)->equality) {\n            UnsatisfiableConstraintInfo* i=new UnsatisfiableConstraintInfo(*c);", mention=["PROJECTION-COMPLETE"])
M("c07-project-partial-copy", "C07", "cola/libcola/colafd.cpp",
  "    unsigned n=coords.size();\n    vpsc::IncSolver s(vs,cs);\n    s.solve();\n    for(unsigned i=0;i<n;++i) {", "    unsigned n=coords.size();\n    vpsc::IncSolver s(vs,cs);\n    s.solve();\n    for(unsigned i=0;i+1<n;++i) {",
  mention=["PROJECTION-COMPLETE", "cola::project"])

# ---------------------------------------------------------------- C17
M("c17-floyd-last-writer", "C17", "cola/libcola/shortest_paths.h",
  "        if (u != v) {\n            D[u][v] = D[v][u] = std::min(D[u][v], w);\n        }", "        D[u][v] = D[v][u] = w;",
  mention=["APSP-EXACT", "floyd_warshall"], tu=["cola/libcola/colafd.cpp"])
M("c17-dijkstra-relax-geq", "C17", "cola/libcola/shortest_paths.h",
  "               && v->d > u->d+w) {", "               && v->d > u->d+w && v->p==nullptr) {", mention=["APSP-EXACT"], tu=["cola/libcola/colafd.cpp"])
M("c17-dijkstra-one-direction", "C17", "cola/libcola/shortest_paths.h",
  "        vs[v].neighbours.push_back(&vs[u]);\n        vs[v].nweights.push_back(w);", "        if (u < v) {\n        vs[v].neighbours.push_back(&vs[u]);\n        vs[v].nweights.push_back(w);\n        }",
  mention=["APSP-EXACT"], tu=["cola/libcola/colafd.cpp"])
M("c17-sentinel-scaled", "C17", "cola/libcola/colafd.cpp",
  "            if(d==DBL_MAX) {\n                // i and j are in disconnected subgraphs\n                p=0;\n            } else {\n                d*=m_idealEdgeLength;\n            }",
  "            if(d==DBL_MAX) {\n                // i and j are in disconnected subgraphs\n                p=0;\n            }\n            d*=m_idealEdgeLength;",
  mention=["IDEAL-DISTANCES"])
M("c17-nonpositive-kept", "C17", "cola/libcola/colafd.cpp",
  "        if (eLengths[i] <= 0)\n        {", "        if (eLengths[i] < 0)\n        {", mention=["IDEAL-DISTANCES"])
M("c17-heap-compare-link", "C17", "cola/libvpsc/pairing_heap.h",
  "\tif( lessThan(second->element,first->element) )\n\t{\n\t\t// Attach first as leftmost child of second", "\tif( !lessThan(first->element,second->element) && first->leftChild == nullptr )\n\t{\n\t\t// Attach first as leftmost child of second",
  mention=["APSP-EXACT"], tu=["cola/libcola/colafd.cpp"])

# ---------------------------------------------------------------- C11
M("c11-exclusive-ignored", "C11", "cola/libavoid/connend.cpp",
  "        if ((currPin->m_class_id == m_connection_pin_class_id) && \n                (!currPin->m_exclusive || currPin->m_connend_users.empty()))\n        {\n            double routingCost",
  "        if ((currPin->m_class_id == m_connection_pin_class_id) && \n                (!currPin->m_exclusive || currPin->m_connend_users.empty() || (m_type == ConnEndJunction)))\n        {\n            double routingCost",
  mention=["PIN-OFFER"])
M("c11-users-not-erased", "C11", "cola/libavoid/connend.cpp",
  "    if (m_active_pin)\n    {\n        m_active_pin->m_connend_users.erase(this);\n    }\n    m_active_pin = nullptr;",
  "    if (m_active_pin && !m_active_pin->m_exclusive)\n    {\n        m_active_pin->m_connend_users.erase(this);\n        m_active_pin = nullptr;\n    }",
  mention=["PIN-BOOKKEEPING"])
M("c11-temp-vis-early-return", "C11", "cola/libavoid/connector.cpp",
  "    std::vector<Point> path;\n    std::vector<VertInf *> vertices;\n    if (m_checkpoints.empty())",
  "    std::vector<Point> path;\n    std::vector<VertInf *> vertices;\n    if (m_src_vert->point == m_dst_vert->point) return false;\n    if (m_checkpoints.empty())",
  mention=["PIN-TEMP-VIS"])
M("c11-checkpoint-dirs-not-restored", "C11", "cola/libavoid/connector.cpp",
  "        if ((i + 1) < checkpoints.size())\n        {\n            end->setVisibleDirections(ConnDirAll);\n        }",
  "        if ((i + 2) < checkpoints.size())\n        {\n            end->setVisibleDirections(ConnDirAll);\n        }", mention=["CHECKPOINT-DIRS", "end"])
M("c11-pins-not-moved", "C11", "cola/libavoid/obstacle.cpp",
  "        ShapeConnectionPin *pin = *curr;\n        pin->updatePosition(m_polygon);", "        ShapeConnectionPin *pin = *curr;\n        if (pin->isExclusive()) pin->updatePosition(m_polygon);",
  mention=["PINS-FOLLOW-SHAPES", "setNewPoly"])
M("c11-pin-position-right", "C11", "cola/libavoid/connectionpin.cpp",
  "            point.x = shapeBox.max.x - m_inside_offset;\n            point.vn = 4;\n        }\n        else\n        {\n            point.x = shapeBox.min.x + (m_x_offset * shapeBox.width());",
  "            point.x = shapeBox.max.x + m_inside_offset;\n            point.vn = 4;\n        }\n        else\n        {\n            point.x = shapeBox.min.x + (m_x_offset * shapeBox.width());",
  mention=["PIN-POSITION", "proportional"])
M("c11-pin-position-yheight", "C11", "cola/libavoid/connectionpin.cpp",
  "            point.y = shapeBox.min.y + (m_y_offset * shapeBox.height());", "            point.y = shapeBox.min.y + (m_y_offset * shapeBox.width());",
  mention=["PIN-POSITION"])
M("c11-pin-dirs-swapped", "C11", "cola/libavoid/connectionpin.cpp",
  "        if (m_y_offset == ATTACH_POS_TOP)\n        {\n            visDir |= ConnDirUp;", "        if (m_y_offset == ATTACH_POS_TOP)\n        {\n            visDir |= ConnDirDown;",
  mention=["PIN-DIRECTIONS"])

# ---------------------------------------------------------------- C08
M("c08-gap-one-half", "C08", "cola/libcola/cc_nonoverlapconstraints.cpp",
  "                constraint = new vpsc::Constraint(varRight1, varLeft2,\n                             above1 + below2);", "                constraint = new vpsc::Constraint(varRight1, varLeft2,\n                             above1);",
  mention=["NONOVERLAP-FORM"])
M("c08-wrong-dim-test", "C08", "cola/libcola/cc_nonoverlapconstraints.cpp",
  "        if (rect1.overlapD(!dim, &rect2) > 0.0005)", "        if (rect1.overlapD(dim, &rect2) > 0.0005)", mention=["NONOVERLAP-FORM"])
M("c08-halfdim-swapped", "C08", "cola/libcola/cc_nonoverlapconstraints.h",
  "            halfDim[0] = xOffset;\n            halfDim[1] = yOffset;\n        }\n        OverlapShapeOffsets(unsigned ind, Cluster",
  "            halfDim[0] = yOffset;\n            halfDim[1] = xOffset;\n        }\n        OverlapShapeOffsets(unsigned ind, Cluster",
  mention=["PAIRS-COMPLETE"], tu=["cola/libcola/cc_nonoverlapconstraints.cpp"])
M("c08-pair-dropped2", "C08", "cola/libcola/cc_nonoverlapconstraints.cpp",
  "        if ((shapeOffsets[otherId].group == group) && (id != otherId) && exemptions.count(otherId)==0)", "        if ((shapeOffsets[otherId].group == group) && (id != otherId) && (otherId != 1 || id != 2) && exemptions.count(otherId)==0)",
  mention=["PAIRS-COMPLETE"])
M("c08-site-height-width", "C08", "cola/libcola/colafd.cpp",
  "            noc->addShape(i, boundingBoxes[i]->width() / 2,\n                    boundingBoxes[i]->height() / 2);", "            noc->addShape(i, boundingBoxes[i]->height() / 2,\n                    boundingBoxes[i]->width() / 2);",
  mention=["ADDSHAPE-SITES"])
M("c08-noc-not-appended", "C08", "cola/libcola/colafd.cpp",
  "            recGenerateClusterVariablesAndConstraints(vs, priority,\n                    noc, clusterHierarchy, extraConstraints);\n            extraConstraints.push_back(noc);",
  "            recGenerateClusterVariablesAndConstraints(vs, priority,\n                    noc, clusterHierarchy, extraConstraints);\n            if (!clusterHierarchy->clusters.empty()) extraConstraints.push_back(noc);",
  mention=["WIRING"])

# ---------------------------------------------------------------- C10
M("c10-first-segment-shiftable", "C10", "cola/libavoid/orthogonal.cpp",
  "                if ((i == 1) || ((i + 1) == displayRoute.size()))\n                {\n                    // Is first or last segment of route.",
  "                if ((i == 1) || (((i + 1) == displayRoute.size()) && (displayRoute.size() > 3)))\n                {\n                    // Is first or last segment of route.",
  mention=["END-SEGMENTS-FIXED"])
M("c10-checkpoint-segment-shiftable", "C10", "cola/libavoid/orthogonal.cpp",
  "                if (hasCheckpoints && !nudgeFinalSegments)\n                {", "                if (hasCheckpoints && !nudgeFinalSegments && (checkpoints.size() > 1))\n                {",
  mention=["END-SEGMENTS-FIXED"])
M("c10-fixed-moves", "C10", "cola/libavoid/orthogonal.cpp",
  "            if (fixed)\n            {\n                return;\n            }\n            double newPos = variable->finalPosition;", "            if (fixed && !finalSegment)\n            {\n                return;\n            }\n            double newPos = variable->finalPosition;",
  mention=["FIXED-STAYS"])
M("c10-no-clamp", "C10", "cola/libavoid/orthogonal.cpp",
  "            newPos = std::max(newPos, minSpaceLimit);\n            newPos = std::min(newPos, maxSpaceLimit);", "            newPos = std::max(newPos, minSpaceLimit);",
  mention=["FIXED-STAYS"])
M("c10-fixed-weight-free", "C10", "cola/libavoid/orthogonal.cpp",
  "                // Fixed segments shouldn't get moved.\n                weight = fixedWeight;", "                // Fixed segments shouldn't get moved.\n                weight = strongWeight;",
  mention=["FIXED-STAYS", "createSolverVariable"])
M("c10-wrong-coordinate", "C10", "cola/libavoid/orthogonal.cpp",
  "                connRef->displayRoute().ps[index][dimension] = newPos;", "                connRef->displayRoute().ps[index][1 - dimension] = newPos;",
  mention=["FIXED-STAYS"])

# ---------------------------------------------------------------- C14
M("c14-padding-left-on-core", "C14", "cola/libdialect/hola.cpp",
  "    core->padAllNodes(-preRoutingGap, -preRoutingGap);", "    if (holaOpts.do_near_align) core->padAllNodes(-preRoutingGap, -preRoutingGap);", mention=["PADDING-ZERO-SUM"])
M("c14-layer2-wrong", "C14", "cola/libdialect/hola.cpp",
  "    double nodePaddingLayer2 = nodePadding - nodePaddingLayer1;", "    double nodePaddingLayer2 = nodePadding - preRoutingGap;", mention=["PADDING-ZERO-SUM"])
M("c14-tree-path-no-unpad", "C14", "cola/libdialect/hola.cpp",
  "        // Remove node padding.\n        G.padAllNodes(-nodePadding, -nodePadding);", "        // Remove node padding.\n        core->padAllNodes(-nodePadding, -nodePadding);",
  mention=["PADDING-ZERO-SUM"])
M("c14-addpadding-height", "C14", "cola/libdialect/nodes.cpp",
  "    m_w += dw;\n    m_h += dh;", "    m_w += dw;\n    m_h += dw;", mention=["PADDING-PRIMITIVES"])
M("c14-polyline-routing", "C14", "cola/libdialect/hola.cpp",
  "    // Set up a routing adapter.\n    RoutingAdapter ra(Avoid::OrthogonalRouting);", "    // Set up a routing adapter.\n    RoutingAdapter ra(Avoid::PolyLineRouting);",
  mention=["ORTHOGONAL-ROUTING"])

# ---------------------------------------------------------------- rules added after seeded-change rounds 3/4
M("c08-exempt-across-groups", "C08", "cola/libcola/cc_nonoverlapconstraints.cpp",
  "        NodeIndexes ids(listOfNodeGroups[l]);\n", "        NodeIndexes ids(listOfNodeGroups[0]);\n",
  mention=["EXEMPT-GROUPS"])
M("c08-exempt-neutral-reserve", "C08", "cola/libcola/cc_nonoverlapconstraints.cpp",
  "        NodeIndexes ids(listOfNodeGroups[l]);\n", "        NodeIndexes ids(listOfNodeGroups[l]);\n        ids.reserve(ids.size() + 1);\n",
  expect="silent")
M("c08-cluster-gap-swapped", "C08", "cola/libcola/cc_nonoverlapconstraints.cpp",
  "                constraint = new vpsc::Constraint(varRight2, varLeft1,\n                        below1 + above2);",
  "                constraint = new vpsc::Constraint(varRight2, varLeft1,\n                        above1 + below2);",
  mention=["NONOVERLAP-FORM", "c-"])
M("c11-pin-from-routing-poly", "C11", "cola/libavoid/obstacle.cpp",
  "        pin->updatePosition(m_polygon);", "        pin->updatePosition(routingPolygon());", mention=["PIN-UPDATE-SOURCE"])
M("c11-refresh-skips-directions", "C11", "cola/libavoid/connectionpin.cpp",
  "    m_vertex->visDirections = this->directions();\n    updateVisibility();",
  "    if (m_exclusive) m_vertex->visDirections = this->directions();\n    updateVisibility();", mention=["PIN-REFRESH"])
M("c11-refresh-neutral-local", "C11", "cola/libavoid/connectionpin.cpp",
  "    m_vertex->Reset(this->position());\n    m_vertex->visDirections = this->directions();",
  "    const Point newPos = this->position();\n    m_vertex->Reset(newPos);\n    m_vertex->visDirections = this->directions();", expect="silent")
M("c10-limit-overwritten", "C10", "cola/libavoid/orthogonal.cpp",
  "                            minLim = std::max(minLim, prevPos);\n                            maxLim = std::min(maxLim, nextPos);\n                            isZBend = true;",
  "                            minLim = prevPos;\n                            maxLim = std::min(maxLim, nextPos);\n                            isZBend = true;",
  mention=["LIMITS-NARROW-ONLY"])
M("c10-limit-neutral-if-form", "C10", "cola/libavoid/orthogonal.cpp",
  "                            minLim = std::max(minLim, prevPos);\n                            maxLim = std::min(maxLim, nextPos);\n                            isZBend = true;",
  "                            if (prevPos > minLim) minLim = prevPos;\n                            maxLim = std::min(maxLim, nextPos);\n                            isZBend = true;",
  expect="silent")
M("c10-region-no-restart", "C10", "cola/libavoid/orthogonal.cpp",
  "                m_segment_list.erase(curr);\n                // Consider segments from the beginning, since we may have\n                // since passed segments that overlap with the new set.\n                curr = m_segment_list.begin();",
  "                curr = m_segment_list.erase(curr);", mention=["REGION-CLOSURE"])
M("c05-prune-waiver-axis", "C05", "cola/libavoid/makepath.cpp",
  "                if ((bestPt.y == nextPt.y) && notInlineY && !notInlineX &&\n                        (bestPt[XDIM] != src->point[XDIM]))",
  "                if ((bestPt.y == nextPt.y) && notInlineY && !notInlineX &&\n                        (bestPt[YDIM] != src->point[YDIM]))",
  mention=["TURN-PRUNE-MIRROR"])

# ---------------------------------------------------------------- C06
M("c06-revert-route-dist", "C06", "cola/libavoid/connector.cpp",
  "    calcRouteDist();\n \n#ifdef PATHDEBUG", " \n#ifdef PATHDEBUG", mention=["ROUTE-DIST-CACHED"])
MUTANTS.append({"id": "c06-revert-endpoints-per-edge", "prop": "C06", "expect": "fire", "mention": ["EDGE-TEST-STATELESS"], "tu": None, "edits": [
    {"file": "cola/libavoid/router.cpp", "count": 1,
     "old": "            Point start = connStart;\n            Point end = connEnd;\n\n            double offy;", "new": "            double offy;"},
    {"file": "cola/libavoid/router.cpp", "count": 1,
     "old": "        const Point connStart = conn->m_route.ps[0];\n        const Point connEnd = conn->m_route.ps[conn->m_route.size() - 1];",
     "new": "        Point start = conn->m_route.ps[0];\n        Point end = conn->m_route.ps[conn->m_route.size() - 1];"}]})
M("c06-revert-abs", "C06", "cola/libavoid/router.cpp",
  "            b = fabs(b);\n            d = fabs(d);\n", "            if ((b + d) == 0) { d = d * -1; }\n", mention=["CROSSING-POINT"])
M("c06-abs-dropped-div-by-zero", "C06", "cola/libavoid/router.cpp",
  "            b = fabs(b);\n            d = fabs(d);\n", "", mention=["CROSSING-POINT"])
M("c06-crossing-swapped", "C06", "cola/libavoid/router.cpp",
  "                x = ((b*c) + (a*d)) / (b + d);", "                x = ((b*a) + (c*d)) / (b + d);", mention=["CROSSING-POINT"])
M("c06-deleted-not-retested", "C06", "cola/libavoid/router.cpp",
  "            deletedObstacles.push_back(obstacle->id());\n            delete obstacle;",
  "            if (shape) deletedObstacles.push_back(obstacle->id());\n            delete obstacle;", mention=["TRANSACTION-PHASES", "deleted ids recorded"])
M("c06-moved-not-retested", "C06", "cola/libavoid/router.cpp",
  "                if ((actInf.type == ShapeMove) || (actInf.type == JunctionMove))\n                {\n                    // o  Check all edges that were blocked by moved obstacle.",
  "                if (actInf.type == ShapeMove)\n                {\n                    // o  Check all edges that were blocked by moved obstacle.",
  mention=["TRANSACTION-PHASES", "moved obstacles"])
M("c06-marking-only-first-move", "C06", "cola/libavoid/router.cpp",
  "        if (SelectiveReroute && (!isMove || notPartialTime || first_move))", "        if (SelectiveReroute && (notPartialTime && first_move))",
  mention=["TRANSACTION-PHASES", "selective marking"])
M("c06-newblocking-skipped-for-junctions", "C06", "cola/libavoid/router.cpp",
  "            if (!isMove || notPartialTime)\n            {\n                newBlockingShape(shapePoly, pid);",
  "            if ((!isMove || notPartialTime) && shape)\n            {\n                newBlockingShape(shapePoly, pid);", mention=["TRANSACTION-PHASES", "newBlockingShape"])
M("c06-entry-ignores-settings", "C06", "cola/libavoid/router.cpp",
  "    if ((actionList.empty() && (m_hyperedge_rerouter.count() == 0) &&\n         (m_settings_changes == false)) || SimpleRouting)",
  "    if ((actionList.empty() && (m_hyperedge_rerouter.count() == 0)) || SimpleRouting)", mention=["TRANSACTION-ENTRY"])
M("c06-generatepath-needs-both", "C06", "cola/libavoid/connector.cpp",
  "    if (!m_false_path && !m_needs_reroute_flag)\n    {\n        // This connector is up to date.",
  "    if (!m_false_path || !m_needs_reroute_flag)\n    {\n        // This connector is up to date.", mention=["REROUTE-ALL-FLAGGED"])
M("c06-neutral-comment-and-local", "C06", "cola/libavoid/router.cpp",
  "        unsigned int pid = obstacle->id();\n\n        // o  Remove entries related to this shape's vertices\n        obstacle->removeFromGraph();",
  "        const unsigned int pid = obstacle->id();\n        Obstacle *ob = obstacle;\n        ob->removeFromGraph();", expect="silent")

# ---------------------------------------------------------------- C02 solve exit
MUTANTS.append({"id": "c02-revert-solve-exit", "prop": "C02", "expect": "fire", "mention": ["SOLVE-EXIT-KKT"], "tu": None, "edits": [
    {"file": "cola/libvpsc/solve_VPSC.cpp", "count": 1,
     "old": "    while((fabs(lastcost-cost)>0.0001) || ((splitCnt>0) && (maxtries-->0))) {", "new": "    while(fabs(lastcost-cost)>0.0001) {"},
    {"file": "cola/libavoid/vpsc.cpp", "count": 1,
     "old": "    while((fabs(lastcost-cost)>0.0001) || ((splitCnt>0) && (maxtries-->0))) {", "new": "    while(fabs(lastcost-cost)>0.0001) {"}]})
M("c02-split-not-counted", "C02", "cola/libvpsc/solve_VPSC.cpp",
  "            splitCnt++;\n            Block *b = v->left->block, *l=nullptr, *r=nullptr;", "            Block *b = v->left->block, *l=nullptr, *r=nullptr;",
  mention=["SOLVE-EXIT-KKT", "splitBlocks"])
M("c02-solve-exit-neutral-bound", "C02", "cola/libvpsc/solve_VPSC.cpp",
  "    unsigned maxtries = 100;\n    while((fabs(lastcost-cost)>0.0001) || ((splitCnt>0) && (maxtries-->0))) {",
  "    unsigned maxtries = 200;\n    while((fabs(lastcost-cost)>0.0001) || ((maxtries-->0) && (splitCnt!=0))) {", expect="fire", mention=["SIBLING"])

# ---------------------------------------------------------------- C12
M("c12-junction-target-dropped", "C12", "cola/libavoid/hyperedgetree.cpp",
  "        ConnEnd connend(endNode->junction);\n        conn->updateEndPoint(VertID::tar, connend);",
  "        ConnEnd connend(endNode->junction);\n        if (endNode->edges.size() > 2) conn->updateEndPoint(VertID::tar, connend);",
  mention=["TREE-WRITEBACK", "degree-2 junction"])
M("c12-connector-listed-twice", "C12", "cola/libavoid/hyperedgetree.cpp",
  "    if (foundPosition == connectors.end())\n    {\n        // Add connector if it isn't already in the list.",
  "    if (foundPosition == connectors.end() || ends.first->junction)\n    {\n        // Add connector if it isn't already in the list.",
  mention=["TREE-WRITEBACK"])
M("c12-new-conn-per-edge", "C12", "cola/libavoid/hyperedgetree.cpp",
  "            // passed in to the method.\n\n            if (junction)\n            {",
  "            // passed in to the method.\n\n            if (junction || edges.size() == 2)\n            {",
  mention=["TREE-WRITEBACK"])
M("c12-route-misses-first-point", "C12", "cola/libavoid/hyperedgetree.cpp",
  "        if (conn->m_display_route.empty())\n        {", "        if (conn->m_display_route.empty() && prevNode->junction == nullptr)\n        {",
  mention=["TREE-WRITEBACK"])
M("c12-deleted-junctions-kept", "C12", "cola/libavoid/hyperedge.cpp",
  "            m_router->deleteJunction(*curr);", "            if ((*curr)->positionFixed() == false) m_router->deleteJunction(*curr);",
  mention=["REROUTE-LISTS"])
M("c12-neutral-rename", "C12", "cola/libavoid/hyperedgetree.cpp",
  "    HyperedgeTreeNode *endNode = nullptr;\n    if (ends.first && (ends.first != ignored))\n    {\n        endNode = ends.first;\n        ends.first->addConns(this, router, oldConns, conn);",
  "    HyperedgeTreeNode *endNode = nullptr;\n    if (ends.first && (ends.first != ignored))\n    {\n        HyperedgeTreeNode *fst = ends.first;\n        endNode = fst;\n        fst->addConns(this, router, oldConns, conn);",
  expect="silent")

# ---------------------------------------------------------------- C15 local address escape
MUTANTS.append({"id": "c15-revert-local-escape", "prop": "C15", "expect": "fire", "mention": ["LOCAL-ADDR-ESCAPE"], "tu": None, "edits": [
    {"file": "cola/libcola/cola.cpp", "count": 2,
     "old": "        vector<straightener::Edge*>* sedges = straightenEdges;\n        if(!sedges && nonOverlappingClusters) {\n            sedges = &cedges;\n        }\n",
     "new": "        if(!straightenEdges && nonOverlappingClusters) {\n            straightenEdges = &cedges;\n        }\n        vector<straightener::Edge*>* sedges = straightenEdges;\n"}]})

# ---------------------------------------------------------------- C07 makeFeasible protocol
M("c07-rollback-keeps-constraint", "C07", "cola/libcola/colafd.cpp",
  "                    delete valid[dim].back();\n                    valid[dim].pop_back();", "                    valid[dim].back()->unsatisfiable = false;",
  mention=["MAKEFEASIBLE-PROTOCOL", "rollback"])
M("c07-positions-not-restored", "C07", "cola/libcola/colafd.cpp",
  "                    for (unsigned int i = 0; i < priorPos.size(); ++i)\n                    {\n                        vs[dim][i]->finalPosition = priorPos[i];",
  "                    for (unsigned int i = 1; i < priorPos.size(); ++i)\n                    {\n                        vs[dim][i]->finalPosition = priorPos[i];",
  mention=["MAKEFEASIBLE-PROTOCOL", "rollback"])

# ---------------------------------------------------------------- C13
M("c13-alpha-numerator-sign", "C13", "cola/libtopology/topology_constraints.cpp",
  "    double numerator=w1 - g - u1 + p*(u1-v1);", "    double numerator=w1 + g - u1 + p*(u1-v1);", mention=["ALPHA-EXACT"])
M("c13-alpha-denominator-term", "C13", "cola/libtopology/topology_constraints.cpp",
  "    double denominator=u2-u1 + p*(u1-u2 + v2-v1) + w1-w2;", "    double denominator=u2-u1 + p*(u1-u2 + v2-v1) + w2-w1;", mention=["ALPHA-EXACT"])
M("c13-scan-skips-straight", "C13", "cola/libtopology/topology_constraints.cpp",
  "        TopologyConstraint* t=*i;\n        FILE_LOG(logDEBUG1)<<\"Checking topology constraint:\"<<t->toString();",
  "        TopologyConstraint* t=*i;\n        if (dynamic_cast<StraightConstraint*>(t) && minT) continue;\n        FILE_LOG(logDEBUG1)<<\"Checking topology constraint:\"<<t->toString();",
  mention=["SOLVE-MIN-ALPHA"])
M("c13-full-step", "C13", "cola/libtopology/topology_constraints.cpp",
  "            v->rect->moveCentreD(dim,v->posOnLine(dim, minTAlpha));", "            v->rect->moveCentreD(dim,v->posOnLine(dim, 1.0));", mention=["SOLVE-MIN-ALPHA"])
M("c13-satisfy-only-after-move", "C13", "cola/libtopology/topology_constraints.cpp",
  "    if(minTAlpha<1 && minT) {", "    if(minTAlpha<1 && minTAlpha>0 && minT) {", mention=["SOLVE-MIN-ALPHA"])
M("c13-neutral-le", "C13", "cola/libtopology/topology_constraints.cpp",
  "        if(tAlpha<minTAlpha) {\n            minTAlpha=tAlpha;\n            minT=t;", "        if(minTAlpha > tAlpha) {\n            minTAlpha=tAlpha;\n            minT=t;", expect="silent")
M("c13-posonline-from-final", "C13", "cola/libtopology/topology_graph.cpp",
  "    return i+alpha*d; ", "    return finalPos()-alpha*d; ", mention=["ALPHA-EXACT", "posOnLine"])

# ---------------------------------------------------------------- C19
M("c19-stem-skipped", "C19", "cola/libdialect/peeling.cpp",
  "        for (Stem_SP stem : stems) stem->addSelfToGraph(H);", "        for (Stem_SP stem : stems) { if (stems.size() > 64 && stem == stems.front()) continue; stem->addSelfToGraph(H); }",
  mention=["PEEL-LOOP", "every stem added"])
M("c19-pop-when-small", "C19", "cola/libdialect/peeling.cpp",
  "        if (G.isEmpty()) {", "        if (G.isEmpty() || G.getNumNodes() == 1) {", mention=["PEEL-LOOP", "mirror stem"])
M("c19-sever-other-set", "C19", "cola/libdialect/peeling.cpp",
  "        buckets.severNodes(leaves);", "        NodesById cut(leaves); if (cut.size() > 1) cut.erase(cut.begin()); buckets.severNodes(cut);", mention=["PEEL-LOOP", "leaves severed"])
M("c19-move-without-erase", "C19", "cola/libdialect/peeling.cpp",
  "    newBucket.insert(*it);\n    oldBucket.erase(it);", "    newBucket.insert(*it);\n    if (newDegree > 0) oldBucket.erase(it);", mention=["BUCKETS", "moveNode"])
M("c19-neighbour-wrong-bucket", "C19", "cola/libdialect/peeling.cpp",
  "            moveNode(v->id(), degree + 1, degree);", "            moveNode(v->id(), degree, degree - 1);", mention=["BUCKETS", "severNodes"])
M("c19-root-min-serial", "C19", "cola/libdialect/peeling.cpp",
  "        if (pn->m_treeSerialNumber >= max_serial_no) {", "        if (pn->m_treeSerialNumber <= max_serial_no) {", mention=["STEMS", "identifyRootNode"])
M("c19-component-node-stays", "C19", "cola/libdialect/graphs.cpp",
  "            // ...remove it from the remaining set...\n            remaining.erase(v->id());", "            // ...remove it from the remaining set...\n            if (v->getDegree() > 1) remaining.erase(v->id());",
  mention=["COMPONENTS"])
M("c19-neutral-rename", "C19", "cola/libdialect/peeling.cpp",
  "        vector<Stem_SP> stems = makeStemsFromLeaves(leaves);\n        // Cut the leaves out of the graph.\n        buckets.severNodes(leaves);",
  "        vector<Stem_SP> stems = makeStemsFromLeaves(leaves);\n        const size_t nStems = stems.size(); (void) nStems;\n        buckets.severNodes(leaves);", expect="silent")

# ---------------------------------------------------------------- C13 corner tables
M("c13-prune-forgets-out-segment", "C13", "cola/libtopology/topology_graph.cpp",
  "    inSegment->forEachStraightConstraint(transfer);\n    outSegment->forEachStraightConstraint(transfer);\n",
  "    inSegment->forEachStraightConstraint(transfer);\n", mention=["PRUNE-MERGE"])
M("c13-prune-count-kept", "C13", "cola/libtopology/topology_graph.cpp",
  "    e->nSegments--;\n    delete inSegment;", "    delete inSegment;", mention=["PRUNE-MERGE"])
M("c13-degenerate-first-branch-wrong-pred", "C13", "cola/libtopology/topology_constraints_constructor.cpp",
  "                    && !validTurn(o->inSegment->start,p,q)) {", "                    && !validTurn(o,p,q)) {", mention=["PRUNE-DEGENERATE"])
M("c13-neutral-prune-lambda", "C13", "cola/libtopology/topology_graph.cpp",
  "    Segment::TransferStraightConstraint transfer = \n        std::bind(&Segment::transferStraightConstraint,s,std::placeholders::_1);",
  "    Segment::TransferStraightConstraint transfer = \n        [s](StraightConstraint* c) { s->transferStraightConstraint(c); };", expect="silent")
M("c13-straight-corner-swapped", "C13", "cola/libtopology/topology_constraints_constructor.cpp",
  "             ? (nodeLeft ? EdgePoint::TL : EdgePoint::BL)\n             : (nodeLeft ? EdgePoint::TR : EdgePoint::BR);",
  "             ? (nodeLeft ? EdgePoint::BL : EdgePoint::TL)\n             : (nodeLeft ? EdgePoint::TR : EdgePoint::BR);", mention=["CORNER-TABLES", "createStraightConstraint"])
M("c13-offset-sign-y", "C13", "cola/libtopology/topology_graph.cpp",
  "        (dim==vpsc::YDIM && (rectIntersect == BL || rectIntersect == BR)))", "        (dim==vpsc::YDIM && (rectIntersect == BL || rectIntersect == TL)))",
  mention=["CORNER-TABLES", "offset"])

# ---------------------------------------------------------------- C20
M("c20-cmpnodepos-address", "C20", "cola/libvpsc/rectangle.cpp",
  "    if (u->v->id != v->v->id) {\n        return u->v->id < v->v->id;\n    }\n    return u < v;", "    return u < v;", mention=["PTR-ORDER-CMP", "vpsc::CmpNodePos"])
M("c20-new-pointer-set-iteration", "C20", "cola/libavoid/router.cpp",
  "    ConnRefList reroutedConns;\n    ConnRefList::const_iterator fin = connRefs.end();",
  "    ConnRefList reroutedConns;\n    { std::set<ConnRef *> seen(connRefs.begin(), connRefs.end()); for (std::set<ConnRef *>::iterator s = seen.begin(); s != seen.end(); ++s) { (*s)->freeActivePins(); } }\n    ConnRefList::const_iterator fin = connRefs.end();",
  mention=["PTR-ORDER-CONTAINER", "Avoid::Router::rerouteAndCallbackConnectors"])
M("c20-rand-in-library", "C20", "cola/libcola/colafd.cpp",
  "void ConstrainedFDLayout::makeFeasible(double xBorder, double yBorder)\n{\n", "void ConstrainedFDLayout::makeFeasible(double xBorder, double yBorder)\n{\n    if (rand() % 1000000 == 999999) { xBorder += 1e-9; }\n",
  mention=["NONDET-SOURCES"])
M("c20-static-local-cache", "C20", "cola/libavoid/geometry.cpp",
  "double euclideanDist(const Point& a, const Point& b)\n{\n", "double euclideanDist(const Point& a, const Point& b)\n{\n    static double lastResult = 0; lastResult += 1;\n",
  mention=["GLOBAL-STATE"])
M("c20-border-not-restored", "C20", "cola/libcola/gradient_projection.cpp",
  "                generateXConstraints(*rs,vars,lcs,nonOverlapConstraints==Both?true:false); \n                Rectangle::setXBorder(0);",
  "                generateXConstraints(*rs,vars,lcs,nonOverlapConstraints==Both?true:false); \n                if (nonOverlapConstraints==Both) Rectangle::setXBorder(0);",
  mention=["GLOBAL-STATE", "border setter"])
M("c20-prng-time-seed", "C20", "cola/libcola/pseudorandom.cpp",
  "double PseudoRandom::getNext(void)\n{\n", "double PseudoRandom::getNext(void)\n{\n    static int calls = 0; seed += (++calls);\n", mention=["SEEDED-PRNG"])
M("c20-sort-pointers-default", "C20", "cola/libavoid/router.cpp",
  "    ConnRefList reroutedConns;\n    ConnRefList::const_iterator fin = connRefs.end();",
  "    ConnRefList reroutedConns;\n    { std::vector<ConnRef *> tmp(connRefs.begin(), connRefs.end()); std::sort(tmp.begin(), tmp.end()); if (!tmp.empty()) tmp.front()->freeActivePins(); }\n    ConnRefList::const_iterator fin = connRefs.end();",
  mention=["PTR-ORDER-MISC"])
M("c20-neutral-id-order", "C20", "cola/libavoid/router.cpp",
  "        if (lhs->id() != rhs->id())\n        {\n            return lhs->id() < rhs->id();\n        }\n        // IDs are unique within a router, so this is only a last resort.\n        return lhs < rhs;",
  "        const unsigned int lid = lhs->id(), rid = rhs->id();\n        if (lid != rid)\n        {\n            return lid < rid;\n        }\n        return lhs < rhs;", expect="silent")

# ---------------------------------------------------------------- C16 intersection point
M("c16-intersection-y-uses-ax", "C16", "cola/libavoid/geometry.cpp",
  "    num = d*Ay;\n    // Intersection Y:\n    *y = a1.y + (num) / f;\n\n    return DO_INTERSECT;\n}\n\n\n// Line Segment Intersection\n// Original code by Franklin Antonio \n//\nint rayIntersectPoint",
  "    num = d*Ax;\n    // Intersection Y:\n    *y = a1.y + (num) / f;\n\n    return DO_INTERSECT;\n}\n\n\n// Line Segment Intersection\n// Original code by Franklin Antonio \n//\nint rayIntersectPoint",
  mention=["INTERSECTION-POINT", "segmentIntersectPoint"])

# ---------------------------------------------------------------- C12 centre pin
M("c12-revert-centre-pin", "C12", "cola/libavoid/hyperedgetree.cpp",
  "                    if (prevNode->isPinDummyEndpoint &&\n                            !conn->m_display_route.ps.empty())",
  "                    if (prevNode->point == nextNode->point)", mention=["TREE-WRITEBACK", "centre pin terminal"])
M("c12-dedupe-by-route-points", "C12", "cola/libavoid/hyperedgetree.cpp",
  "                    if (prevNode->isPinDummyEndpoint &&\n                            !conn->m_display_route.ps.empty())",
  "                    if ((conn->m_display_route.ps.size() > 1) &&\n                            (conn->m_display_route.ps[conn->m_display_route.ps.size() - 1] == conn->m_display_route.ps[conn->m_display_route.ps.size() - 2]))",
  mention=["TREE-WRITEBACK", "entered in the other dimension"])
M("c12-partner-copy-not-flagged", "C12", "cola/libavoid/mtst.cpp",
  "                prevNode->isPinDummyEndpoint = true;", "                prevNode->visited = false;", mention=["DUMMY-NODES-FLAGGED"])

# ---------------------------------------------------------------- C10 settings
M("c10-transaction-ignores-settings-flag", "C10", "cola/libavoid/router.cpp",
  "    if ((actionList.empty() && (m_hyperedge_rerouter.count() == 0) &&\n         (m_settings_changes == false)) || SimpleRouting)",
  "    if ((actionList.empty() && (m_hyperedge_rerouter.count() == 0)) || SimpleRouting)", mention=["SETTINGS-DIRTY", "processTransaction"])
M("c10-option-setter-not-dirty", "C10", "cola/libavoid/router.cpp",
  "    m_routing_options[option] = value;\n    m_settings_changes = true;", "    m_routing_options[option] = value;", mention=["SETTINGS-DIRTY", "setRoutingOption"])

# ---------------------------------------------------------------- C12 improver keeps connectors
M("c12-zero-length-collapses-terminal-edge", "C12", "cola/libavoid/hyperedgeimprover.cpp",
  "                    if (other->edges.size() > 1)\n                    {\n                        target = self;\n                        source = other;\n                    }",
  "                    target = self;\n                    source = other;", mention=["ZERO-LENGTH-EDGES", "junction moved onto the terminal"])
M("c12-junction-moves-onto-terminal", "C12", "cola/libavoid/hyperedgeimprover.cpp",
  "        if (currNode->junction || (currNode->edges.size() == 1))", "        if (currNode->junction)", mention=["JUNCTION-MOVES"])
M("c12-terminal-merged-as-common-node", "C12", "cola/libavoid/hyperedgeimprover.cpp",
  "                if (otherNode->junction || (otherNode->edges.size() == 1))", "                if (otherNode->junction)", mention=["JUNCTION-MOVES"])
M("c12-shift-onto-terminal", "C12", "cola/libavoid/hyperedgeimprover.cpp",
  "                // The next position would collapse a whole connector.\n                m_balance_count = 0;",
  "                // The next position would collapse a whole connector.", mention=["SHIFT-NOT-ONTO-TERMINAL"])

# ---------------------------------------------------------------- C09 neighbour twins
M("c09-neutral-cache-overlapx", "C09", "cola/libvpsc/rectangle.cpp",
  "        Node *u=*(i);\n        if(u->r->overlapX(v->r)<=0) {\n            rightv->insert(u);\n            return rightv;\n        }\n        if(u->r->overlapX(v->r)<=u->r->overlapY(v->r)) {",
  "        Node *u=*(i);\n        const double ox=u->r->overlapX(v->r);\n        if(ox<=0) {\n            rightv->insert(u);\n            return rightv;\n        }\n        if(ox<=u->r->overlapY(v->r)) {", expect="silent")

# ---------------------------------------------------------------- reverts of the repairs of round d
M("c04-corner-touch-not-counted", "C04", "cola/libavoid/geometry.cpp",
  "    else if (pointOnLine(e1, e2, s2) && (vecDir(e1, e2, s1) != 0))\n    {", "    else if (false && pointOnLine(e1, e2, s2) && (vecDir(e1, e2, s1) != 0))\n    {",
  mention=["SHAPE-BLOCKING"])
M("c16-corner-touch-along-side", "C16", "cola/libavoid/geometry.cpp",
  "    else if (pointOnLine(e1, e2, s2) && (vecDir(e1, e2, s1) != 0))\n    {", "    else if (pointOnLine(e1, e2, s2))\n    {",
  mention=["segmentShapeIntersect"])
M("c17-g-diagonal-left-out", "C17", "cola/libcola/colafd.cpp",
  "                G[i][j]=0;\n                continue;", "                continue;", mention=["IDEAL-DISTANCES", "diagonal"])
M("c01-solver-keeps-active", "C01", "cola/libvpsc/solve_VPSC.cpp",
  "        c->active = false;\n        // Likewise a flag", "        // Likewise a flag", mention=["SOLVER-TAKES-OVER"])
M("c05-final-step-free", "C05", "cola/libavoid/makepath.cpp",
  "            if (atCostTarget && node.inf->id.isConnectionPin())", "            if (atCostTarget && (node.inf->id.isConnectionPin() || (node.inf == tar)))",
  mention=["FINAL-STEP-CHARGED"])
M("c05-prune-despite-restricted-end", "C05", "cola/libavoid/makepath.cpp",
  "            if (isOrthogonal && pruneTurns && !(*edge)->isDummyConnection())", "            if (isOrthogonal && !(*edge)->isDummyConnection())",
  mention=["FINAL-STEP-CHARGED", "turn pruning"])
M("c18-swap-keeps-backpointers", "C18", "cola/libdialect/graphs.h",
  "        first.m_sepMatrix.setGraph(&first);\n        second.m_sepMatrix.setGraph(&second);\n", "", mention=["MATRIX-BACKPOINTER"],
  tu=["cola/libdialect/graphs.cpp"])
M("c15-sepmatrix-copy-defaulted", "C15", "cola/libdialect/constraints.h",
  "    SepMatrix(const SepMatrix &m)\n        : cola::CompoundConstraint(vpsc::UNSET, m.priority()),\n          m_extraBdryGap(m.m_extraBdryGap), m_graph(m.m_graph), m_sparseLookup(m.m_sparseLookup) {\n        _combineSubConstraints = true;\n    }",
  "    SepMatrix(const SepMatrix &m) = default;", mention=["COPY-OWNERSHIP"], tu=["cola/libdialect/graphs.cpp", "cola/libdialect/constraints.cpp"])
M("c19-sort-unstable-again", "C19", "cola/libdialect/planarise.cpp",
  "        std::stable_sort(evts.begin(), evts.end(), [](Event *a, Event *b) -> bool {return a->varCoord < b->varCoord;});",
  "        std::sort(evts.begin(), evts.end(), [](Event *a, Event *b) -> bool {return a->varCoord < b->varCoord;});", mention=["NODE-GROUPS"])
M("c10-pair-ids-sixteen-bits", "C10", "cola/libavoid/orthogonal.cpp",
  "        unsigned int m_index1;\n        unsigned int m_index2;", "        unsigned short m_index1;\n        unsigned short m_index2;", mention=["ID-WIDTH"])

# ---------------------------------------------------------------- C03 round d
M("c03-neutral-outside-visibility-local", "C03", "cola/libavoid/orthogonal.cpp",
  "            if (events[index]->v->c)\n            {\n                events[index]->v->c->visDirections |= addedVisibility;\n            }",
  "            VertInf *vert = events[index]->v->c;\n            if (vert)\n            {\n                vert->visDirections |= addedVisibility;\n            }", expect="silent")

# ---------------------------------------------------------------- reverts of further repairs (round d, part 2)
M("c02-refine-budget-per-iteration", "C02", "cola/libvpsc/solve_VPSC.cpp",
  "                if(!(newcost<cost)) maxtries--;", "                maxtries--;", mention=["REFINE-BUDGET"])
MUTANTS.append({"id": "c02-split-ignores-scale-both-copies", "prop": "C02", "expect": "fire", "mention": ["SPLIT-SCALE"], "tu": None, "edits": [
    {"file": "cola/libvpsc/blocks.cpp", "old": "    r->posn = b->posn * b->ps.scale / r->ps.scale;", "new": "    r->posn = b->posn;", "count": 1},
    {"file": "cola/libavoid/vpsc.cpp", "old": "    r->posn = b->posn * b->ps.scale / r->ps.scale;", "new": "    r->posn = b->posn;", "count": 1}]})
M("c03-deleted-ends-not-queued", "C03", "cola/libavoid/router.cpp",
  "                    modInfo.conns.push_back(std::make_pair(\n                            connEnd->endpointType(), freeEnd));\n                    actionList.push_back(modInfo);",
  "                    modInfo.conns.push_back(std::make_pair(\n                            connEnd->endpointType(), freeEnd));", mention=["DELETED-OBSTACLE-ENDS"])
M("c03-corner-centre-not-on-border", "C03", "cola/libavoid/visibility.cpp",
  "        if (kPrev && kNext && (k->point == centerInf->point))", "        if (false && kPrev && kNext && (k->point == centerInf->point))", mention=["SWEEP-CHORD"])
M("c13-tie-prunes-own-bend", "C13", "cola/libtopology/topology_constraints.cpp",
  "    EdgePoint* victim=redundantBend(bendPoint);", "    EdgePoint* victim=bendPoint;", mention=["BEND-TIE"])

# ---------------------------------------------------------------- reverts (round d, part 3)
M("c07-idle-axis-not-recorded", "C07", "cola/libcola/colafd.cpp", "        setPosition(x1,true);", "        setPosition(x1);", mention=["IDLE-AXIS-REPORTED"])
M("c07-processed-pairs-offered-again", "C07", "cola/libcola/cc_nonoverlapconstraints.cpp",
  "    if (info.processed)\n    {", "    if (false && info.processed)\n    {", mention=["IDLE-AXIS-REPORTED"])
M("c14-core-alignments-kept", "C14", "cola/libdialect/hola.cpp", "                coreMatrix.free(s, t);", "                (void) coreMatrix;", mention=["RETURNED-ALIGNMENTS"])
M("c14-middle-child-always-aligned", "C14", "cola/libdialect/trees.cpp", "        if (std::fabs(offset) > 1e-6) continue;", "        (void) offset;", mention=["RETURNED-ALIGNMENTS"])

# ---------------------------------------------------------------- reverts (round e)
M("c12-results-index-against-cleared-inputs", "C12", "cola/libavoid/hyperedge.cpp",
  "    COLA_ASSERT(index < m_new_junctions_vector.size());", "    COLA_ASSERT(index <= count());", mention=["RESULTS-READABLE"])
M("c12-results-wrong-list", "C12", "cola/libavoid/hyperedge.cpp",
  "    result.deletedConnectorList = m_deleted_connectors_vector[index];", "    result.deletedConnectorList = m_deleted_connectors_vector[0];",
  mention=["RESULTS-READABLE"])
M("c12-leaf-role-lost", "C12", "cola/libavoid/hyperedgeimprover.cpp",
  "                        self->isConnectorSource = other->isConnectorSource;\n", "", mention=["ZERO-LENGTH-EDGES", "SOURCE"])
M("c12-neutral-results-assert-other-vector", "C12", "cola/libavoid/hyperedge.cpp",
  "    COLA_ASSERT(index < m_new_junctions_vector.size());", "    COLA_ASSERT(index < m_deleted_connectors_vector.size());", expect="silent")
MUTANTS.append({"id": "c08-single-replacement-per-node", "prop": "C08", "expect": "fire", "mention": ["SHARED-NODE-TWINS", "THREE"], "tu": None, "edits": [
    {"file": "cola/libcola/cluster.h", "old": "        std::map<unsigned, std::vector<Cluster *> > m_overlap_replacement_map;",
     "new": "        std::map<unsigned, Cluster *> m_overlap_replacement_map;", "count": 1},
    {"file": "cola/libcola/cluster.cpp", "old": "                    lcaChildJCluster->m_overlap_replacement_map[i].push_back(\n                            lcaChildKCluster);",
     "new": "                    lcaChildJCluster->m_overlap_replacement_map[i] =\n                            lcaChildKCluster;", "count": 1},
    {"file": "cola/libcola/cluster.cpp", "old": "                    lcaChildKCluster->m_overlap_replacement_map[i].push_back(\n                            lcaChildJCluster);",
     "new": "                    lcaChildKCluster->m_overlap_replacement_map[i] =\n                            lcaChildJCluster;", "count": 1},
    {"file": "cola/libcola/colafd.cpp", "old": "                const std::vector<Cluster *>& others =\n                        cluster->m_overlap_replacement_map[id];\n                expandedClusterSet.insert(others.begin(), others.end());",
     "new": "                expandedClusterSet.insert(\n                        cluster->m_overlap_replacement_map[id]);", "count": 1}]})
M("c08-null-replacement-cluster", "C08", "cola/libcola/cluster.cpp",
  "                if (lcaChildKCluster && lcaChildJCluster)\n", "                if (lcaChildKCluster)\n", mention=["SHARED-NODE-TWINS", "NULL"])
M("c08-only-first-stand-in-used", "C08", "cola/libcola/colafd.cpp",
  "                expandedClusterSet.insert(others.begin(), others.end());", "                expandedClusterSet.insert(others.front());",
  mention=["SHARED-NODE-TWINS", "non-overlap groups"])
M("c08-neutral-replacement-blocks-merged", "C08", "cola/libcola/cluster.cpp",
  "                    lcaChildJCluster->m_nodes_replaced_with_clusters.insert(i);\n                }\n\n                if (lcaChildKCluster && lcaChildJCluster)\n                {",
  "                    lcaChildJCluster->m_nodes_replaced_with_clusters.insert(i);", expect="silent")

# ---------------------------------------------------------------- C17 round d
M("c17-edgeless-fast-path-diagonal", "C17", "cola/libcola/colafd.cpp",
  "    computePathLengths(es,m_edge_lengths);\n}",
  "    if (es.empty())\n    {\n        for(unsigned i=0;i<n;i++) {\n            for(unsigned j=0;j<n;j++) { D[i][j]=DBL_MAX; G[i][j]=0; }\n        }\n        minD = 1;\n        return;\n    }\n    computePathLengths(es,m_edge_lengths);\n}",
  mention=["MATRIX-WRITERS"])
M("c17-distance-diagonal-overwritten", "C17", "cola/libcola/colafd.cpp",
  "                G[i][j]=0;\n                continue;", "                G[i][j]=0;\n                D[i][j]=minD;\n                continue;", mention=["IDEAL-DISTANCES", "itself"])
M("c17-neutral-new-reader-of-G", "C17", "cola/libcola/colafd.cpp",
  "    if (minD == DBL_MAX) minD = 1;\n", "    if (minD == DBL_MAX) minD = 1;\n    if (n > 1 && G[0][1] == 7) { minD = 1; }\n", expect="silent")

# ---------------------------------------------------------------- C09 round d
M("c09-fixed-rectangles-not-copied-back", "C09", "cola/libvpsc/rectangle.cpp",
  "            COLA_ASSERT(ISNOTNAN((*v)->finalPosition));\n            (*r)->moveCentreY((*v)->finalPosition);",
  "            COLA_ASSERT(ISNOTNAN((*v)->finalPosition));\n            if(fixed.count((*v)->id)) continue;\n            (*r)->moveCentreY((*v)->finalPosition);",
  mention=["RESULT-COPYBACK"])
M("c09-third-pass-not-published", "C09", "cola/libvpsc/rectangle.cpp",
  "            vpsc_x2.solve();\n            r=rs.begin();\n            for(v=vs.begin();v!=vs.end();++v,++r) {",
  "            vpsc_x2.solve();\n            r=rs.begin();\n            for(v=vs.begin();thirdPass==false&&v!=vs.end();++v,++r) {", mention=["RESULT-COPYBACK"])
M("c09-overlap-is-intersection-length", "C09", "cola/libvpsc/rectangle.h",
  "        if (ux <= vx && r->getMinX() < getMaxX())\n            return getMaxX() - r->getMinX();",
  "        if (ux <= vx && r->getMinX() < getMaxX())\n            return std::min(getMaxX(), r->getMaxX()) - r->getMinX();",
  mention=["OVERLAP-AMOUNT"], tu=["cola/libvpsc/rectangle.cpp"])
M("c09-catch-all-does-not-restore", "C09", "cola/libvpsc/rectangle.cpp",
  "        // gives up (e.g., vpsc::UnsatisfiedConstraint).\n        Rectangle::setXBorder(xBorder);\n        Rectangle::setYBorder(yBorder);\n        throw;",
  "        // gives up (e.g., vpsc::UnsatisfiedConstraint).\n        Rectangle::setXBorder(xBorder);\n        throw;", mention=["PAIRED-BORDERS", "handler"])
M("c09-no-catch-all", "C09", "cola/libvpsc/rectangle.cpp",
  "    } catch (...) {\n        // Don't leave the process-wide borders changed when the solver\n        // gives up (e.g., vpsc::UnsatisfiedConstraint).\n        Rectangle::setXBorder(xBorder);\n        Rectangle::setYBorder(yBorder);\n        throw;\n    }",
  "    }", mention=["PAIRED-BORDERS", "catch-all"])
MUTANTS.append({"id": "c09-neutral-overlap-rewritten", "prop": "C09", "expect": "silent", "mention": [], "tu": ["cola/libvpsc/rectangle.cpp"], "edits": [
    {"file": "cola/libvpsc/rectangle.h", "old": "        if (ux <= vx && r->getMinX() < getMaxX())\n            return getMaxX() - r->getMinX();",
     "new": "        if (ux <= vx && getMaxX() > r->getMinX())\n            return -(r->getMinX() - getMaxX());", "count": 1},
    {"file": "cola/libvpsc/rectangle.h", "old": "        if (uy <= vy && r->getMinY() < getMaxY()) {\n            return getMaxY() - r->getMinY();",
     "new": "        if (uy <= vy && getMaxY() > r->getMinY()) {\n            return -(r->getMinY() - getMaxY());", "count": 1}]})

# ---------------------------------------------------------------- C19 round c
M("c19-planarise-drops-bendless-ghosts", "C19", "cola/libdialect/planarise.cpp",
  "    for (auto pair : m_givenGraph->getNodeLookup()) {\n        Node_SP &u = pair.second;\n",
  "    for (auto pair : m_givenGraph->getNodeLookup()) {\n        Node_SP &u = pair.second;\n        if (u->getDegree() == 0) continue;\n", mention=["PLANARISE-COVERAGE"])
M("c19-side-tree-bounds-wrong-component", "C19", "cola/libdialect/trees.cpp",
  "                        tb = t->m_boundsByRank[r-1][a];\n                        m_boundsByRank[r][a] = tb;",
  "                        tb = t->m_boundsByRank[r-1][a];\n                        m_boundsByRank[r][a] = t->m_boundsByRank[r-1][b];", mention=["SIBLING-TREES-APART"])
M("c19-side-tree-rank-offset", "C19", "cola/libdialect/trees.cpp",
  "                    double candidate = getBounds(r + 1, nodeSep)[a] - t->getBounds(r, nodeSep)[b];",
  "                    double candidate = getBounds(r, nodeSep)[a] - t->getBounds(r, nodeSep)[b];", mention=["SIBLING-TREES-APART"])
M("c19-neutral-central-bounds-inline", "C19", "cola/libdialect/trees.cpp",
  "                    auto tb = t->m_boundsByRank[r-1];\n                    double tlb = tb[0], tub = tb[1];",
  "                    double tlb = t->m_boundsByRank[r-1][0], tub = t->m_boundsByRank[r-1][1];", expect="silent")
M("c19-short-segment-opened-after-close", "C19", "cola/libdialect/planarise.cpp",
  "                if (closedInPart.count(evt->companion) > 0) break;\n", "", mention=["CROSSINGS-EXACT"])
M("c19-straight-edge-keeps-old-bends", "C19", "cola/libdialect/graphs.cpp",
  "            e->setBendNodes(Nodes());\n            continue;", "            continue;", mention=["ROUTE-CLEARS-BENDS", "buildUniqueBendPoints"])
M("c19-crossing-skipped-when-vertical-open", "C19", "cola/libdialect/planarise.cpp",
  "                if (openV != nullptr) {\n                    // There is also an open vertical segment, so we have an intersection.",
  "                if (openV != nullptr && openH.size() < 1) {\n                    // There is also an open vertical segment, so we have an intersection.",
  mention=["CROSSINGS-EXACT"])

# ---------------------------------------------------------------- C15 round d
M("c15-connref-routes-before-registering", "C15", "cola/libavoid/connector.cpp",
  "    m_reroute_flag_ptr = m_router->m_conn_reroute_flags.addConn(this);\n\n    // Set endpoint values.\n    setEndpoints(src, dst);\n}",
  "    // Set endpoint values.\n    setEndpoints(src, dst);\n\n    m_reroute_flag_ptr = m_router->m_conn_reroute_flags.addConn(this);\n}", mention=["CTOR-USE-BEFORE-SET", "m_reroute_flag_ptr"])
M("c15-connref-start-vert-uninit", "C15", "cola/libavoid/connector.cpp",
  "      m_dst_vert(nullptr),\n      m_start_vert(nullptr),\n      m_callback_func(nullptr),\n      m_connector(nullptr),\n      m_src_connend(nullptr),\n      m_dst_connend(nullptr)\n{\n    COLA_ASSERT(m_router != nullptr);\n    m_id = m_router->assignId(id);\n    m_route.clear();\n\n    // Register",
  "      m_dst_vert(nullptr),\n      m_callback_func(nullptr),\n      m_connector(nullptr),\n      m_src_connend(nullptr),\n      m_dst_connend(nullptr)\n{\n    COLA_ASSERT(m_router != nullptr);\n    m_id = m_router->assignId(id);\n    m_route.clear();\n\n    // Register",
  mention=["INIT", "m_start_vert"])
M("c15-pin-keys-changed-in-set", "C15", "cola/libavoid/shape.cpp",
  "    m_connection_pins.clear();\n    for (std::vector<ShapeConnectionPin *>::iterator curr = pins.begin();", "    for (std::vector<ShapeConnectionPin *>::iterator curr = pins.begin();",
  mention=["SET-KEYS-FROZEN"])
M("c15-setseparation-writes-old-constraint", "C15", "cola/libcola/compound_constraints.cpp",
  "    this->gap = gap;\n    vpscConstraint = nullptr;", "    this->gap = gap;\n    if (vpscConstraint != nullptr) vpscConstraint->gap = gap;", mention=["STALE-SOLVER-POINTER"])
M("c15-checkpoint-vertex-freed-while-listed", "C15", "cola/libavoid/connector.cpp",
  "        m_checkpoint_vertices[i]->removeFromGraph(true);\n        m_router->vertices.removeVertex(m_checkpoint_vertices[i]);\n        delete m_checkpoint_vertices[i];\n    }\n    m_checkpoint_vertices.clear();\n\n    for (size_t i = 0; i < m_checkpoints.size(); ++i)",
  "        m_checkpoint_vertices[i]->removeFromGraph(true);\n        delete m_checkpoint_vertices[i];\n    }\n    m_checkpoint_vertices.clear();\n\n    for (size_t i = 0; i < m_checkpoints.size(); ++i)",
  mention=["VERTEX-UNLISTED-BEFORE-DELETE"])
M("c15-neutral-pin-action-order-comment", "C15", "cola/libavoid/actioninfo.cpp",
  "        return objPtr < rhs.objPtr;", "        const void *l = objPtr, *r = rhs.objPtr;\n        return l < r;", expect="silent")
M("c15-split-derefs-null-connend", "C15", "cola/libavoid/connector.cpp",
  "        ConnEnd newConnDst = (m_dst_connend) ? *m_dst_connend :\n                ConnEnd(m_dst_vert->point, m_dst_vert->visDirections);",
  "        ConnEnd newConnDst = *m_dst_connend;", mention=["NULLABLE-CONNEND", "splitAtSegment"])

# ---------------------------------------------------------------- C11 / C10 round d
M("c11-junction-move-overrides-user-change", "C11", "cola/libavoid/junction.cpp",
  "        bool connPinUpdate = true;\n        m_router->modifyConnector(connEnd->m_conn_ref, connEnd->endpointType(),\n                *connEnd, connPinUpdate);",
  "        m_router->modifyConnector(connEnd->m_conn_ref, connEnd->endpointType(),\n                *connEnd);", mention=["CONNEND-QUEUE", "JunctionRef::moveAttachedConns"])
M("c11-checkpoints-window-too-narrow", "C11", "cola/libavoid/geomtypes.cpp",
  "    else if (indexModifier < 0)\n    {\n        checkpointUpperValue--;", "    else if (indexModifier < 0)\n    {\n        checkpointUpperValue -= 2;", mention=["CHECKPOINTS-ON-SEGMENT"])
M("c10-pair-of-one-connector", "C10", "cola/libavoid/orthogonal.cpp",
  "                            (currSegment->connRef != prevSeg->connRef) &&\n", "", mention=["PAIR-IDS-DISTINCT"])

# ---------------------------------------------------------------- C04 / C06 / C03 round d
M("c06-selective-test-compares-lengths", "C06", "cola/libavoid/router.cpp",
  "            conndist += (conn->m_route.size() - 2) *\n                    (routingParameter(segmentPenalty) +\n                     routingParameter(anglePenalty));",
  "            conndist += 0;", mention=["REROUTE-COST-BOUND"])
M("c03-clear-fixed-route-keeps-ends-blind", "C03", "cola/libavoid/connector.cpp",
  "        std::pair<ConnEnd, ConnEnd> ends = endpointConnEnds();\n        setEndpoints(ends.first, ends.second);\n", "", mention=["FIXED-ROUTE-CLEARED"])
M("c04-sweep-only-earlier-endpoints", "C04", "cola/libavoid/visibility.cpp",
  "                else if (inf->id.objID == centerID.objID)\n", "                else if ((inf->id.objID == centerID.objID) && (inf->id.vn < centerID.vn))\n", mention=["SWEEP-CANDIDATES"])
M("c04-neutral-angle-args-swapped-sign", "C04", "cola/libavoid/makepath.cpp",
  "    return fabs(atan2(CrossLength(v1, v2), Dot(v1, v2)));", "    return fabs(atan2(-CrossLength(v1, v2), Dot(v1, v2)));", expect="silent")
M("c15-queued-end-on-deleted-shape", "C15", "cola/libavoid/router.cpp",
  "                    if (upd->second.m_anchor_obj == obstacle)\n                    {\n                        upd->second = ConnEnd(obstacle->position());\n                    }",
  "                    (void) upd;", mention=["QUEUED-ENDS-DETACHED"])
M("c15-queued-end-only-first-update", "C15", "cola/libavoid/router.cpp",
  "                    if (upd->second.m_anchor_obj == obstacle)\n                    {\n                        upd->second = ConnEnd(obstacle->position());\n                    }",
  "                    if ((upd == act->conns.begin()) && (upd->second.m_anchor_obj == obstacle))\n                    {\n                        upd->second = ConnEnd(obstacle->position());\n                    }", mention=["QUEUED-ENDS-DETACHED"])

# ---------------------------------------------------------------- round f (c01d c05d c18d c15/cluster)
M("c01-stale-flag-survives-new-solver", "C01", "cola/libvpsc/solve_VPSC.cpp",
  "        // Likewise a flag left by an earlier solver instance says nothing\n        // about this problem instance.\n        c->unsatisfiable = false;\n", "",
  mention=["WHO-WRITES", "vpsc::Solver::Solver"])
MUTANTS.append({"id": "c01-internal-constraints-stay-in-heap", "prop": "C01", "expect": "fire", "mention": ["HEAP-ORDER"], "tu": None, "edits": [
    {"file": "cola/libvpsc/constraint.cpp", "old": "        l->left->block->timeStamp > l->timeStamp\n        ||l->left->block==l->right->block\n", "new": "        l->left->block->timeStamp > l->timeStamp\n", "count": 1},
    {"file": "cola/libavoid/vpsc.cpp", "old": "        l->left->block->timeStamp > l->timeStamp\n        ||l->left->block==l->right->block\n", "new": "        l->left->block->timeStamp > l->timeStamp\n", "count": 1}]})
MUTANTS.append({"id": "c01-fixed-variables-reported-at-desired", "prop": "C01", "expect": "fire", "mention": ["PUBLISH-IS-POSITION"], "tu": None, "edits": [
    {"file": "cola/libvpsc/solve_VPSC.cpp", "old": "        v->finalPosition=v->position();", "new": "        v->finalPosition=v->fixedDesiredPosition ? v->desiredPosition : v->position();", "count": 1},
    {"file": "cola/libavoid/vpsc.cpp", "old": "        v->finalPosition=v->position();", "new": "        v->finalPosition=v->fixedDesiredPosition ? v->desiredPosition : v->position();", "count": 1}]})
M("c05-angle-penalty-on-orthogonal-bends", "C05", "cola/libavoid/makepath.cpp",
  "            if ((rad > 0) && !isOrthogonal)", "            if (rad > 0)", mention=["COST-FORM", "angle"])
M("c05-widened-directions-kept", "C05", "cola/libavoid/orthogonal.cpp",
  "        requestedDirections[i].first->visDirections =\n                requestedDirections[i].second;", "        (void) requestedDirections[i];", mention=["WIDENED-DIRS-TEMPORARY"])
M("c18-implied-separation-dropped", "C18", "cola/libdialect/constraints.cpp",
  "    case SepDir::RIGHT:\n        xgt = gt;", "    case SepDir::RIGHT:\n        if (xst == SepType::INEQ && st == SepType::INEQ && xgt == gt && xgap > gap) break;\n        xgt = gt;",
  mention=["ADDSEP-SEQUENCE"])
M("c15-delete-cluster-only-unlinks", "C15", "cola/libavoid/router.cpp",
  "    m_currently_calling_destructors = true;\n    delete cluster;\n    m_currently_calling_destructors = false;\n}", "}", mention=["ROUTER-DELETE-API", "deleteCluster"])
M("c20-makefeasible-borders-left-on-throw", "C20", "cola/libcola/colafd.cpp",
  "    RectangleBorderReset borderReset;\n", "", mention=["BORDERS-EXCEPTION-SAFE", "makeFeasible"])
M("c20-offsetpolygon-skips-zero-length-edge", "C20", "cola/libavoid/geomtypes.cpp",
  "        normals[i] = unitNormalForEdge(at(i), at((i + 1) % numOfEdges));",
  "        if (at(i) == at((i + 1) % numOfEdges)) continue;\n        normals[i] = unitNormalForEdge(at(i), at((i + 1) % numOfEdges));", mention=["SIZED-POINT-VECTORS-FILLED"])
M("c13-attached-segment-hidden-behind-neighbour", "C13", "cola/libtopology/topology_constraints_constructor.cpp",
  "        if ( (p<leftLimit&&!s->connectedToNode(leftNeighbour)&&\n", "        if ( (p<leftLimit&&\n", mention=["HIDDEN-SEGMENT-SKIP"])
M("c13-cycle-prune-loses-closure", "C13", "cola/libtopology/topology_graph.cpp",
  "        e->lastSegment=start->inSegment;", "        e->lastSegment=end->outSegment;", mention=["PRUNE-MERGE", "closed"])

# ---------------------------------------------------------------- neutral renames (the rules must not depend on local names)
M("c13-neutral-rename-crossing-position", "C13", "cola/libtopology/topology_constraints_constructor.cpp",
  "        const double p = s->forwardIntersection(scanDim, pos);\n        // a neighbour only hides the segment if the segment is not attached\n        // to it: a segment ending in the neighbour's centre can swing out\n        // from behind it.\n        if ( (p<leftLimit&&!s->connectedToNode(leftNeighbour)&&",
  "        const double crossing = s->forwardIntersection(scanDim, pos);\n        const double p = crossing;\n        if ( (crossing<leftLimit&&!s->connectedToNode(leftNeighbour)&&", expect="silent")
M("c04-neutral-rename-sweep-loop-variable", "C04", "cola/libavoid/visibility.cpp",
  "    for (VertInf *inf = beginVert; inf != endVert; inf = inf->lstNext)\n    {\n        if (inf == centerInf)",
  "    VertInf *const lastVert = endVert;\n    for (VertInf *inf = beginVert; inf != lastVert; inf = inf->lstNext)\n    {\n        if (inf == centerInf)", expect="silent")
M("c09-neutral-rename-copyback-iterators", "C09", "cola/libvpsc/rectangle.cpp",
  "        Rectangles::iterator r=rs.begin();\n        for(v=vs.begin();v!=vs.end();++v,++r) {\n            COLA_ASSERT(ISNOTNAN((*v)->finalPosition));\n            (*r)->moveCentreX((*v)->finalPosition);\n        }\n        COLA_ASSERT(r==rs.end());",
  "        Rectangles::iterator r=rs.begin();\n        for(v=vs.begin();v!=vs.end();++v,++r) {\n            Variable *solved=*v;\n            COLA_ASSERT(ISNOTNAN(solved->finalPosition));\n            (*r)->moveCentreX((*v)->finalPosition);\n        }\n        COLA_ASSERT(r==rs.end());", expect="silent")
M("c15-router-dtor-ignores-queued-additions", "C15", "cola/libavoid/router.cpp",
  "    for (ActionInfoList::iterator act = actionList.begin();\n            act != actionList.end(); ++act)\n    {\n        if ((act->type == ShapeAdd) || (act->type == JunctionAdd))\n        {\n            queuedObstacles.push_back(act->obstacle());\n        }\n        else if ((act->type == ConnChange) && !act->conn()->m_active)\n        {\n            queuedConns.push_back(act->conn());\n        }\n    }\n",
  "", mention=["ROUTER-DTOR-QUEUED"])

# ---------------------------------------------------------------- C07 round e
M("c07-locks-written-over-projection", "C07", "cola/libcola/colafd.cpp",
  "        project(vs,cs,coords);\n        moveBoundingBoxes();", "        project(vs,cs,coords);\n        for (DesiredPositionsInDim::const_iterator d=des.begin(); d!=des.end(); ++d) { coords[d->first] = d->second; }\n        moveBoundingBoxes();",
  mention=["PROJECTION-IS-FINAL"])
M("c07-cursor-not-rewound-for-combined", "C07", "cola/libcola/colafd.cpp",
  "        cc->markAllSubConstraintsAsInactive();\n        bool subConstraintSatisfiable = true;\n", "        bool subConstraintSatisfiable = true;\n        if (!cc->shouldCombineSubConstraints()) cc->markAllSubConstraintsAsInactive();\n",
  mention=["MAKEFEASIBLE-PROTOCOL", "cursor"])

# ---------------------------------------------------------------- C12 round d
M("c12-improver-lists-kept-when-options-off", "C12", "cola/libavoid/router.cpp",
  "    m_hyperedge_improver.clear();\n    if (withMinorImprovements || withMajorImprovements)\n    {\n", "    if (withMinorImprovements || withMajorImprovements)\n    {\n        m_hyperedge_improver.clear();\n",
  mention=["IMPROVER-LISTS-FRESH"])
M("c12-hyperedge-collected-per-registration", "C12", "cola/libavoid/hyperedge.cpp",
  "            if (alreadyRegistered)\n            {\n                continue;\n            }\n", "", mention=["REGISTERED-ONCE", "twice"])
M("c12-fixed-junction-keeps-old-recommendation", "C12", "cola/libavoid/junction.cpp",
  "void JunctionRef::setRecommendedPosition(const Point& position)\n{\n", "void JunctionRef::setRecommendedPosition(const Point& position)\n{\n    if (m_position_fixed) return;\n",
  mention=["JUNCTION-POSITION-WRITTEN"])

# ---------------------------------------------------------------- C14 round c
M("c14-tree-only-return-skips-incidence", "C14", "cola/libdialect/hola.cpp",
  "        tree->addConstraints(G, true);\n        restoreIncidence(G);\n", "        tree->addConstraints(G, true);\n", mention=["HOLA-EPILOGUE", "incidence"])
M("c14-tree-only-ranks-by-edge-length", "C14", "cola/libdialect/hola.cpp",
  "        double rankSep = std::max(holaOpts.treeLayoutScalar_rankSep*IEL, maxAxialExtent + nodePadding);", "        double rankSep = holaOpts.treeLayoutScalar_rankSep*IEL; (void) maxAxialExtent;",
  mention=["HOLA-EPILOGUE", "rank separation"])
M("c14-addnetwork-resets-shared-lookups", "C14", "cola/libdialect/trees.cpp",
  "void Tree::addNetwork(Graph &G, NodesById &treeNodes, EdgesById &treeEdges) {\n", "void Tree::addNetwork(Graph &G, NodesById &treeNodes, EdgesById &treeEdges) {\n    treeEdges.clear();\n",
  mention=["MERGE-JOIN", "addNetwork"])

# ---------------------------------------------------------------- round g (c10e c03e)
M("c10-fixed-route-middle-segments-shiftable", "C10", "cola/libavoid/orthogonal.cpp",
  "                if ((*curr)->hasFixedRoute())\n                {\n                    // The user has specified this route, so none of its",
  "                if (false && (*curr)->hasFixedRoute())\n                {\n                    // The user has specified this route, so none of its", mention=["FIXED-ROUTE-NOT-SHIFTABLE"])
M("c10-straight-connectors-left-out", "C10", "cola/libavoid/orthogonal.cpp",
  "        Polygon& displayRoute = (*curr)->displayRoute();\n        // Determine all line segments that we are interested in shifting.",
  "        Polygon& displayRoute = (*curr)->displayRoute();\n        if (!nudgeFinalSegments && (displayRoute.size() < 3)) continue;\n        // Determine all line segments that we are interested in shifting.",
  mention=["SEGMENTS-ALL-REPRESENTED"])
M("c10-unifying-pass-not-clamped", "C10", "cola/libavoid/orthogonal.cpp",
  "            newPos = std::max(newPos, minSpaceLimit);\n            newPos = std::min(newPos, maxSpaceLimit);",
  "            if (!justUnifying) {\n            newPos = std::max(newPos, minSpaceLimit);\n            newPos = std::min(newPos, maxSpaceLimit); }", mention=["FIXED-STAYS"])
M("c03-hyperedge-segments-of-last-tree-only", "C03", "cola/libavoid/hyperedgeimprover.cpp",
  "        m_all_shift_segments.insert(m_all_shift_segments.begin(),\n                segments.begin(), segments.end());", "        m_all_shift_segments.assign(segments.begin(), segments.end());",
  mention=["HYPEREDGE-SEGMENTS-ALL"])
M("c03-mtst-through-foreign-pins", "C03", "cola/libavoid/mtst.cpp",
  "            if (realU && realV && (realU != realV) && realV->id.isConnPt() &&", "            if (false && realU && realV && (realU != realV) && realV->id.isConnPt() &&", mention=["HYPEREDGE-AVOIDS-FOREIGN-POINTS"])
M("c03-mtst-filter-in-the-shared-edge-enumeration", "C03", "cola/libavoid/mtst.cpp",
  "        VertInf *partner = (isRealVert) ? other : orthogonalPartner(other);\n        COLA_ASSERT(partner);\n",
  "        if (other->id.isConnPt() && !realVert->id.isDummyPinHelper() &&\n                (origTerminals.find(other) == origTerminals.end()) &&\n                (terminals.find(other) == terminals.end()))\n        {\n            continue;\n        }\n        VertInf *partner = (isRealVert) ? other : orthogonalPartner(other);\n        COLA_ASSERT(partner);\n",
  mention=["HYPEREDGE-AVOIDS-FOREIGN-POINTS", "shared"])
M("c12-segment-drags-terminal", "C12", "cola/libavoid/hyperedgeimprover.cpp",
  "                            isImmovable = true;\n", "", mention=["SHIFT-TAKES-IN-IMMOVABLE"])
MUTANTS.append({"id": "c10-neutral-fixed-route-test-in-segment-class", "prop": "C10", "expect": "silent", "mention": [], "tu": None, "edits": [
    {"file": "cola/libavoid/orthogonal.cpp", "old": "            else if (fixed)\n            {\n                // Fixed segments shouldn't get moved.", "new": "            else if (fixed || connRef->hasFixedRoute())\n            {\n                // Fixed segments shouldn't get moved.", "count": 1},
    {"file": "cola/libavoid/orthogonal.cpp", "old": "        void updatePositionsFromSolver(const bool justUnifying)\n        {\n            if (fixed)\n", "new": "        void updatePositionsFromSolver(const bool justUnifying)\n        {\n            if (fixed || connRef->hasFixedRoute())\n", "count": 1}]})
M("c10-zigzag-position-thrown-away", "C10", "cola/libavoid/orthogonal.cpp",
  "        void updatePositionsFromSolver(const bool justUnifying)\n        {\n            if (fixed)\n", "        void updatePositionsFromSolver(const bool justUnifying)\n        {\n            if (fixed || zigzag())\n",
  mention=["FIXED-DECISION-CONSISTENT"])

# ---------------------------------------------------------------- C02 round d
MUTANTS.append({"id": "c02-multipliers-in-single-precision", "prop": "C02", "expect": "fire", "mention": ["DOUBLE-PRECISION"], "tu": ["cola/libvpsc/constraint.cpp", "cola/libavoid/vpsc.cpp"], "edits": [
    {"file": "cola/libvpsc/constraint.h", "old": "\tdouble lm;", "new": "\tfloat lm;", "count": 1},
    {"file": "cola/libavoid/vpsc.h", "old": "    double lm;", "new": "    float lm;", "count": 1}]})
M("c02-static-solver-keeps-stale-blocks", "C02", "cola/libvpsc/solve_VPSC.cpp",
  "    delete bs;\n    bs=new Blocks(vs);\n    for(unsigned i=0;i<m;i++) {\n        cs[i]->active=false;\n    }\n    list<Variable*> *vList=bs->totalOrder();", "    list<Variable*> *vList=bs->totalOrder();",
  mention=["STATIC-SOLVER-FRESH-START"])
M("c10-junction-limits-at-old-position", "C10", "cola/libavoid/orthogonal.cpp",
  "                Point pos = junction->recommendedPosition();", "                Point pos = junction->position();", mention=["JUNCTION-LIMITS-AT-MEETING-POINT"])

# ---------------------------------------------------------------- round h
M("c11-new-connend-only-for-new-object", "C11", "cola/libavoid/connector.cpp",
  "        if (connEnd.isPinConnection())\n        {\n            m_src_connend = new ConnEnd(connEnd);",
  "        if (connEnd.isPinConnection() && (m_src_connend == nullptr))\n        {\n            m_src_connend = new ConnEnd(connEnd);",
  mention=["ENDPOINT-TAKES-NEW-CONNEND"])
M("c11-active-pin-by-position", "C11", "cola/libavoid/connend.cpp",
  "        if (currPin->m_vertex == pinVert)\n        {\n            usePin(currPin);", "        if (currPin->m_vertex->point == pinVert->point)\n        {\n            usePin(currPin);",
  mention=["ACTIVE-PIN-BY-VERTEX"])
M("c11-neutral-pin-by-vertex-swapped", "C11", "cola/libavoid/connend.cpp",
  "        if (currPin->m_vertex == pinVert)\n        {\n            usePin(currPin);", "        if (pinVert == currPin->m_vertex)\n        {\n            usePin(currPin);", expect="silent")
M("c19-leaf-bounds-always-width", "C19", "cola/libdialect/trees.cpp",
  "    double half = Compass::isVertical((CompassDir) growthDir) ? rootDims.first/2.0 : rootDims.second/2.0;", "    double half = rootDims.first/2.0;",
  mention=["LEAF-TREE-BOUNDS"])
M("c19-neutral-leaf-bounds-via-member", "C19", "cola/libdialect/trees.cpp",
  "    double half = Compass::isVertical((CompassDir) growthDir) ? rootDims.first/2.0 : rootDims.second/2.0;",
  "    double half = Compass::isVertical((CompassDir) m_growthDir) ? rootDims.first/2.0 : rootDims.second/2.0;", expect="silent")
M("c17-neighbour-counts", "C17", "cola/libcola/colafd.cpp",
  "        neighbours[s][t] = 1;\n        neighbours[t][s] = 1;", "        neighbours[s][t] += 1;\n        neighbours[t][s] += 1;", mention=["NEIGHBOUR-FLAGS"])
M("c17-majorization-fixup-on-callers-copy", "C17", "cola/libcola/cola.cpp",
  "            edgeLengths[i] = 1;", "            eLengths[i] = 1;", mention=["MAJORIZATION-LENGTHS"])
M("c08-containment-skips-child-clusters-of-empty", "C08", "cola/libcola/cc_clustercontainmentconstraints.cpp",
  "    for (std::vector<Cluster *>::iterator curr = cluster->clusters.begin();\n            curr != cluster->clusters.end(); ++curr)\n    {\n        Cluster *childCluster = *curr;\n        Box margin = childCluster->margin();",
  "    for (std::vector<Cluster *>::iterator curr = cluster->clusters.begin();\n            !cluster->nodes.empty() && curr != cluster->clusters.end(); ++curr)\n    {\n        Cluster *childCluster = *curr;\n        Box margin = childCluster->margin();",
  mention=["CONTAINMENT-COVERS-MEMBERS"])
M("c08-containment-child-margin-one-sided", "C08", "cola/libcola/cc_clustercontainmentconstraints.cpp",
  "                padding.max(XDIM) + margin.max(XDIM), BelowBoundary,", "                padding.max(XDIM) + margin.min(XDIM), BelowBoundary,", mention=["CONTAINMENT-COVERS-MEMBERS"])
M("c15-report-after-lcs-freed", "C15", "cola/libcola/gradient_projection.cpp",
  "    lcs.clear();\n    delete vpsc;\n", "    lcs.clear();\n    delete vpsc;\n    for(Constraints::iterator i=cs.begin();i!=cs.end();i++) { if((*i)->unsatisfiable) { (*i)->unsatisfiable=false; } }\n",
  mention=["SOLVER-OBJECTS-READ-BEFORE-FREED"])
M("c15-bfs-queue-iterator-kept", "C15", "cola/libdialect/graphs.cpp",
  "            bfs_queue.resize(m+n);\n            std::transform(\n                newEdges.cbegin(), newEdges.cend(), bfs_queue.end() - n,",
  "            auto oldEnd = bfs_queue.end();\n            bfs_queue.resize(m+n);\n            std::transform(\n                newEdges.cbegin(), newEdges.cend(), oldEnd,",
  mention=["ITERATOR-NOT-USED-AFTER-GROWTH"])
M("c15-neutral-bfs-queue-iterator-after-resize", "C15", "cola/libdialect/graphs.cpp",
  "            bfs_queue.resize(m+n);\n            std::transform(\n                newEdges.cbegin(), newEdges.cend(), bfs_queue.end() - n,",
  "            bfs_queue.resize(m+n);\n            auto dest = bfs_queue.end() - n;\n            std::transform(\n                newEdges.cbegin(), newEdges.cend(), dest,", expect="silent")
M("c19-buckets-sized-by-max-degree-only", "C19", "cola/libdialect/peeling.cpp",
  "    m_maxDegree(std::max(graph.getMaxDegree(), 1u)),", "    m_maxDegree(graph.getMaxDegree()),", mention=["BUCKETS-IN-RANGE"])
M("c11-checkpoints-set-without-reroute", "C11", "cola/libavoid/connector.cpp",
  "    // The current route was computed for the previous checkpoints.\n    makePathInvalid();\n    m_router->modifyConnector(this);\n",
  "    // The current route was computed for the previous checkpoints.\n    if (m_checkpoints.empty()) makePathInvalid();\n    m_router->modifyConnector(this);\n",
  mention=["CHECKPOINT-CHANGE-REROUTES"])
M("c08-fixed-rectangle-cluster-skips-children-bounds", "C08", "cola/libcola/cluster.cpp",
  "            (*i)->computeBoundingRect(rs);\n        }\n        // For bounds, just use this shape's rectangle.",
  "            if (!(*i)->clusters.empty()) (*i)->computeBoundingRect(rs);\n        }\n        // For bounds, just use this shape's rectangle.", mention=["CLUSTER-BOUNDS"])
M("c11-process-actions-keeps-transactions-off", "C11", "cola/libavoid/router.cpp",
  "    const bool consolidateActions = m_consolidate_actions;\n    m_consolidate_actions = true;\n", "    const bool consolidateActions = m_consolidate_actions;\n",
  mention=["NO-NESTED-TRANSACTION"])
M("c11-process-actions-leaves-transactions-on", "C11", "cola/libavoid/router.cpp",
  "    actionList.clear();\n\n    m_consolidate_actions = consolidateActions;\n", "    actionList.clear();\n", mention=["NO-NESTED-TRANSACTION"])
M("c11-fixed-route-pins-freed", "C11", "cola/libavoid/router.cpp",
  "        if ((*i)->hasFixedRoute())\n        {\n            // Not rerouted below, so it keeps the pins its route ends at.\n            continue;\n        }\n", "",
  mention=["FIXED-ROUTE-KEEPS-PINS"])
M("c11-pins-freed-for-half-the-connectors", "C11", "cola/libavoid/router.cpp",
  "        if ((*i)->hasFixedRoute())\n        {\n            // Not rerouted below, so it keeps the pins its route ends at.",
  "        if ((*i)->hasFixedRoute() || (*i)->isInitialised())\n        {\n            // Not rerouted below, so it keeps the pins its route ends at.",
  mention=["PIN-BOOKKEEPING"])
M("c15-alignment-table-empty-unguarded", "C15", "cola/libdialect/nearalign.cpp",
  "    if (nodes.empty()) return;\n", "    if (nodes.size() > 100000) return;\n", mention=["PREV-OF-END-NONEMPTY"])
M("c15-topology-nodes-replaced", "C15", "cola/libtopology/cola_topology_addon.cpp",
  "    if (generateNonOverlapConstraints && topologyNodes.empty())", "    if (generateNonOverlapConstraints)", mention=["CALLERS-TOPOLOGY-KEPT"])
M("c15-sepco-constraints-not-freed-on-reject", "C15", "cola/libdialect/graphs.cpp",
  "    int result = project(opts2, sepco->dim, accept);\n", "    int result = project(opts2, sepco->dim, accept);\n    if (result < 0) return result;\n",
  mention=["GENERATED-CONSTRAINTS-FREED"])
M("c15-dropped-equality-not-freed", "C15", "cola/libtopology/orthogonal_topology.cpp",
  "                        delete constraint;\n                        it = valid.erase(it);", "                        it = valid.erase(it);", mention=["GENERATED-CONSTRAINTS-FREED"])
M("c15-thrown-message-from-local", "C15", "cola/libvpsc/solve_VPSC.cpp",
  "            static std::string message;\n", "            std::string message;\n", mention=["THROWN-POINTER-OUTLIVES-THROW"])
M("c15-boundary-edges-freed-in-run-only", "C15", "cola/libcola/cola.cpp",
  "        for(vector<straightener::Edge*>::iterator e=cedges.begin();\n                e!=cedges.end();++e) {\n            delete *e;\n        }\n        cedges.clear();\n    } \n}",
  "        cedges.clear();\n    } \n}", mention=["ITERATION-EDGES-FREED", "runOnce"])
M("c11-neutral-pin-by-vertex-via-local", "C11", "cola/libavoid/connend.cpp",
  "        if (currPin->m_vertex == pinVert)\n        {\n            usePin(currPin);", "        VertInf *candidate = currPin->m_vertex;\n        if (candidate == pinVert)\n        {\n            usePin(currPin);", expect="silent")
M("c15-neutral-alignment-table-size-test", "C15", "cola/libdialect/nearalign.cpp",
  "    if (nodes.empty()) return;\n", "    if (nodes.size() == 0) return;\n", expect="silent")
M("c15-neutral-topology-nodes-size-test", "C15", "cola/libtopology/cola_topology_addon.cpp",
  "    if (generateNonOverlapConstraints && topologyNodes.empty())", "    if (generateNonOverlapConstraints && (topologyNodes.size() == 0))", expect="silent")
MUTANTS.append({"id": "c17-neutral-majorization-parameters-renamed", "prop": "C17", "expect": "silent", "mention": [], "tu": None, "edits": [
    {"file": "cola/libcola/cola.cpp", "old": "        EdgeLengths eLengths,\n        TestConvergence *doneTest,\n        PreIteration* preIteration,\n        bool useNeighbourStress)\n    : n(rs.size()),", "new": "        EdgeLengths givenLengths,\n        TestConvergence *doneTest,\n        PreIteration* preIteration,\n        bool useNeighbourStress)\n    : n(rs.size()),", "count": 1},
    {"file": "cola/libcola/cola.cpp", "old": "    std::valarray<double> edgeLengths(eLengths.data(), eLengths.size());", "new": "    std::valarray<double> edgeLengths(givenLengths.data(), givenLengths.size());", "count": 1}]})

# ---------------------------------------------------------------- round i
M("c05-bend-estimate-capped-inconsistently", "C05", "cola/libavoid/makepath.cpp",
  "        double penalty = bendCount *\n                lineRef->router()->routingParameter(segmentPenalty);\n\n        return dist + penalty;",
  "        if (bendCount > 2) bendCount = 0;\n        double penalty = bendCount *\n                lineRef->router()->routingParameter(segmentPenalty);\n\n        return dist + penalty;",
  mention=["HEURISTIC-CONSISTENT"])
M("c05-no-pass-through-vertex-at-endpoints", "C05", "cola/libavoid/orthogonal.cpp",
  "                if (line1 || line2)\n                {\n                    VertInf *cent = new VertInf(router, dummyOrthogID, cp);",
  "                if (line1 && line2)\n                {\n                    VertInf *cent = new VertInf(router, dummyOrthogID, cp);", mention=["PASS-THROUGH-AT-FREE-ENDPOINT"])
M("c09-fixed-rectangles-only-ten-times-heavier", "C09", "cola/libvpsc/rectangle.cpp",
  "            if(fixed.find(i)!=fixed.end()) {\n                weight=10000;", "            if(fixed.find(i)!=fixed.end()) {\n                weight=10;", mention=["FIXED-RECTANGLES-HEAVY"])
M("c09-neutral-fixed-membership-by-count", "C09", "cola/libvpsc/rectangle.cpp",
  "            if(fixed.find(i)!=fixed.end()) {\n                weight=10000;", "            if(fixed.count(i)>0) {\n                weight=10000;", expect="silent")
M("c07-setup-skips-other-axis-compounds", "C07", "cola/libcola/colafd.cpp",
  "            c != ccs.end(); ++c)\n    {\n        (*c)->generateSeparationConstraints(dim, vs, cs, boundingBoxes);\n    }\n}\n\n\nstatic void setupExtraConstraints",
  "            c != ccs.end(); ++c)\n    {\n        if ((*c)->dimension() != dim) continue;\n        (*c)->generateSeparationConstraints(dim, vs, cs, boundingBoxes);\n    }\n}\n\n\nstatic void setupExtraConstraints",
  mention=["EVERY-COMPOUND-OFFERED"])
M("c07-alignment-translation-depends-on-cursor", "C07", "cola/libcola/compound_constraints.cpp",
  "            Offset *info = static_cast<Offset *> (*o);\n            assertValidVariableIndex(vars, info->varIndex);\n            vpsc::Constraint *constraint = new vpsc::Constraint(\n                        variable, vars[info->varIndex], info->distOffset, true);",
  "            Offset *info = static_cast<Offset *> (*o);\n            assertValidVariableIndex(vars, info->varIndex);\n            if (_currSubConstraintIndex > 0 && !info->satisfied) continue;\n            vpsc::Constraint *constraint = new vpsc::Constraint(\n                        variable, vars[info->varIndex], info->distOffset, true);",
  mention=["TRANSLATORS-IGNORE-FEASIBILITY-BOOKKEEPING"])
M("c13-resize-sliver-off-centre", "C13", "cola/libtopology/resize.cpp",
  "            rect->reset(dim, c - DW2, c + DW2);", "            rect->reset(dim, c, c + DW);", mention=["RESIZE-SLIVER-WHERE-THE-NODE-IS"])
M("c13-coincident-bends-tolerance-tiny", "C13", "cola/libtopology/topology_constraints.cpp",
  "    const double eps=1e-7;\n    EdgePoint *o=p->inSegment->start, *q=p->outSegment->end;", "    const double eps=1e-13;\n    EdgePoint *o=p->inSegment->start, *q=p->outSegment->end;", mention=["BEND-TIE"])
M("c04-blocked-edge-walk-steps-after-the-test", "C04", "cola/libavoid/router.cpp",
  "        EdgeInf *tmp = iter;\n        iter = iter->lstNext;\n\n        if (tmp->blocker() == -1)\n        {\n            tmp->alertConns();\n            tmp->checkVis();\n        }\n        else if (tmp->blocker() == pid)\n        {\n            tmp->checkVis();\n        }\n",
  "        EdgeInf *tmp = iter;\n\n        if (tmp->blocker() == -1)\n        {\n            tmp->alertConns();\n            tmp->checkVis();\n        }\n        else if (tmp->blocker() == pid)\n        {\n            tmp->checkVis();\n        }\n        iter = iter->lstNext;\n",
  mention=["LIST-WALK-SAVES-NEXT"])

# ---------------------------------------------------------------- round j
M("c14-double-bend-second-direction-lost", "C14", "cola/libdialect/chains.cpp",
  "                config.push_back({dir0, dir1});\n                direc = dir1;", "                config.push_back({dir0, dir0});\n                direc = dir1;", mention=["CHAIN-DIRECTIONS"])
M("c14-neutral-double-bend-locals-renamed", "C14", "cola/libdialect/chains.cpp",
  "                CardinalDir dir0 = applyBendToDir.at(bt0).at(direc),\n                            dir1 = applyBendToDir.at(bt1).at(dir0);\n                config.push_back({dir0, dir1});\n                direc = dir1;",
  "                CardinalDir afterNode = applyBendToDir.at(bt0).at(direc);\n                CardinalDir afterEdge = applyBendToDir.at(bt1).at(afterNode);\n                config.push_back({afterNode, afterEdge});\n                direc = afterEdge;", expect="silent")
M("c14-left-anchor-direction-reversed", "C14", "cola/libdialect/chains.cpp",
  "            CardinalDir dIn = m_graph->getSepMatrix().getCardinalDir(A->id(), b->id());", "            CardinalDir dIn = m_graph->getSepMatrix().getCardinalDir(b->id(), A->id());", mention=["CHAIN-DIRECTIONS"])
M("c02-merge-adds-before-shifting", "C02", "cola/libvpsc/block.cpp",
  "        v->offset+=dist;\n        addVariable(v);", "        addVariable(v);\n        v->offset+=dist;", mention=["MERGE-OPTIMUM"])
M("c03-bounding-box-one-extreme-per-vertex", "C03", "cola/libavoid/geomtypes.cpp",
  "        bBox.min.y = std::min(bBox.min.y, at(i).y);\n        bBox.max.x = std::max(bBox.max.x, at(i).x);\n        bBox.max.y = std::max(bBox.max.y, at(i).y);",
  "        bBox.max.x = std::max(bBox.max.x, at(i).x);\n        if (at(i).x > bBox.min.x) { bBox.min.y = std::min(bBox.min.y, at(i).y); }\n        bBox.max.y = std::max(bBox.max.y, at(i).y);",
  mention=["BOUNDING-BOX-ENCLOSES"])
M("c03-naive-visibility-second-half-skips-endpoints", "C03", "cola/libavoid/visibility.cpp",
  "            if (k->id == dummyOrthogID)\n            {\n                // Don't include orthogonal dummy vertices.\n                continue;\n            }\n            EdgeInf::checkEdgeVisibility(curr, k, knownNew);",
  "            if (k->id == dummyOrthogID)\n            {\n                // Don't include orthogonal dummy vertices.\n                continue;\n            }\n            if (k->id.isConnPt()) continue;\n            EdgeInf::checkEdgeVisibility(curr, k, knownNew);",
  mention=["NAIVE-VISIBILITY-COVERS-ALL"])

# ---------------------------------------------------------------- round k
MUTANTS.append({"id": "c10-crossing-flags-hoisted-out-of-the-pair-loop", "prop": "C10", "expect": "fire", "mention": ["PAIR-CONSTRAINTS-STATELESS"], "tu": None, "edits": [
    {"file": "cola/libavoid/orthogonal.cpp", "old": "            Avoid::Polygon& route2 = connRoutes[ind2];\n            int crossings = 0;\n            unsigned int crossingFlags = 0;", "new": "            Avoid::Polygon& route2 = connRoutes[ind2];\n            int crossings = 0;", "count": 1},
    {"file": "cola/libavoid/orthogonal.cpp", "old": "            continue;\n        }\n\n        for (size_t ind2 = ind1 + 1; ind2 < connRefs.size(); ++ind2)\n        {\n            ConnRef *conn2 = connRefs[ind2];\n            if (conn2->routingType() != ConnType_Orthogonal)\n            {\n                continue;\n            }\n\n            Avoid::Polygon& route = connRoutes[ind1];", "new": "            continue;\n        }\n\n        unsigned int crossingFlags = 0;\n        for (size_t ind2 = ind1 + 1; ind2 < connRefs.size(); ++ind2)\n        {\n            ConnRef *conn2 = connRefs[ind2];\n            if (conn2->routingType() != ConnType_Orthogonal)\n            {\n                continue;\n            }\n\n            Avoid::Polygon& route = connRoutes[ind1];", "count": 1}]})
M("c10-fixed-order-only-without-bend-order", "C10", "cola/libavoid/orthogonal.cpp",
  "            if (oneIsFixed && (lhsFixedOrder != rhsFixedOrder))\n            {\n                return lhsFixedOrder < rhsFixedOrder;\n            }\n",
  "            if (oneIsFixed && (lhsFixedOrder != rhsFixedOrder) && (lhs->order() == rhs->order()))\n            {\n                return lhsFixedOrder < rhsFixedOrder;\n            }\n",
  mention=["FIXED-ORDER-BEFORE-BEND-ORDER"])
MUTANTS.append({"id": "c09-neutral-rectangle-count-renamed", "prop": "C09", "expect": "silent", "mention": [], "tu": None, "edits": [
    {"file": "cola/libvpsc/rectangle.cpp", "old": "    unsigned n=rs.size();\n    try {\n        // The extra gap avoids numerical imprecision problems\n        Rectangle::setXBorder(xBorder+EXTRA_GAP);\n        Rectangle::setYBorder(yBorder+EXTRA_GAP);\n        Variables vs(n);\n        Variables::iterator v;\n        unsigned i=0;\n        vector<double> initX(thirdPass?n:ARRAY_UNUSED);", "new": "    unsigned count=rs.size();\n    unsigned n=count;\n    try {\n        // The extra gap avoids numerical imprecision problems\n        Rectangle::setXBorder(xBorder+EXTRA_GAP);\n        Rectangle::setYBorder(yBorder+EXTRA_GAP);\n        Variables vs(count);\n        Variables::iterator v;\n        unsigned i=0;\n        vector<double> initX(thirdPass?count:ARRAY_UNUSED);", "count": 1}]})

# ---------------------------------------------------------------- round l
M("c17-ideal-length-rounded-up", "C17", "cola/libcola/colafd.cpp",
  "      m_idealEdgeLength(idealLength),", "      m_idealEdgeLength(idealLength < 1 ? 1 : idealLength),", mention=["IDEAL-LENGTH-AS-GIVEN"])
