#!/usr/bin/env python3-vt
"""Self-test of the checkers: each mutant is a small edit of /repo (applied in place, syntax-checked, reverted
afterwards with `git checkout`), for which a named check must fire (exit 1, naming the instance) or stay silent.
Not part of any registered command.   usage: selftest/run.py [filter-substring ...]
"""
import json
import os
import subprocess
import sys
import time

HERE = os.path.dirname(os.path.abspath(__file__))
VERIF = os.path.dirname(HERE)
REPO = os.environ.get("VERIF_REPO", "/repo")
sys.path.insert(0, HERE)
from mutants import MUTANTS  # noqa: E402
import glob

# the independently seeded changes are re-checked like mutants: each must still make the check of its property fire
for _d in sorted(glob.glob(os.path.join(VERIF, "seeded", "*", "meta.json"))):
    _m = json.load(open(_d))
    # (a seed is re-checked with the check of the property it breaks, or -- where that check stays silent and a sibling property's check
    # reports it -- with the check recorded in meta.json's detected_by)
    _det = _m.get("detected_by", {})
    _prop = _m["breaks_property"]
    if _det.get(_prop, {}).get("exit") != 1:
        _alt = [k for k, v in _det.items() if v.get("exit") == 1]
        _prop = _alt[0] if _alt else _prop
    MUTANTS.append({"id": "seed-" + os.path.basename(os.path.dirname(_d)), "prop": _prop, "expect": "fire", "mention": [],
                    "patch": os.path.join(os.path.dirname(_d), "patch.diff"), "edits": [], "tu": []})

FLAGS = ["-std=gnu++11", "-I%s/cola" % REPO, "-DHAVE_CONFIG_H", "-UNDEBUG", "-w", "-fsyntax-only"]


def sh(cmd, **kw):
    return subprocess.run(cmd, stdout=subprocess.PIPE, stderr=subprocess.STDOUT, text=True, **kw)


def parallel(filt, jobs):
    """Run the mutants in `jobs` scratch source copies of /repo HEAD (git worktrees under /tmp, removed afterwards); the mutant runs
    write their evidence to scratch directories, never to /verif/evidence."""
    import shutil
    ids = [m["id"] for m in MUTANTS if not filt or any(f in m["id"] or f == m["prop"] for f in filt)]
    procs = []
    for k in range(jobs):
        wt = "/tmp/st_repo_%d" % k
        sh(["git", "-C", "/repo", "worktree", "remove", "--force", wt])
        r = sh(["git", "-C", "/repo", "worktree", "add", "-q", "--detach", wt, "HEAD"])
        if r.returncode != 0:
            print("cannot create", wt, r.stdout)
            return 2
        shutil.copy("/repo/cola/libcola/config.h", wt + "/cola/libcola/config.h")
        mine = ids[k::jobs]
        env = dict(os.environ, VERIF_REPO=wt, VERIF_EVIDENCE_DIR="/tmp/st_ev_%d" % k, SELFTEST_IDS=",".join(mine))
        procs.append((wt, subprocess.Popen([sys.executable, os.path.abspath(__file__)], env=env, stdout=subprocess.PIPE, stderr=subprocess.STDOUT, text=True)))
    bad = []
    n = 0
    for wt, pr in procs:
        out = pr.communicate()[0]
        for l in out.splitlines():
            if " mutants, " in l and "as expected" in l:
                continue
            print(l)
            if " FAIL " in l or "BROKEN-MUTANT" in l:
                bad.append(l.split()[0])
            if " expect=" in l or "BROKEN-MUTANT" in l:
                n += 1
        sh(["git", "-C", "/repo", "worktree", "remove", "--force", wt])
        shutil.rmtree("/tmp/st_ev_%s" % wt.rsplit("_", 1)[1], ignore_errors=True)
    print("%d mutants, %d as expected, %d not: %s" % (n, n - len(bad), len(bad), bad))
    return 1 if bad else 0


def main():
    filt = sys.argv[1:]
    if filt and filt[0] == "--jobs":
        return parallel(filt[2:], int(filt[1]))
    only = set(os.environ.get("SELFTEST_IDS", "").split(",")) - {""}
    st = sh(["git", "-C", REPO, "status", "--porcelain", "--untracked-files=no"]).stdout.strip()
    if st:
        print("refusing to run: /repo has uncommitted changes:\n" + st)
        return 2
    results = []
    for m in MUTANTS:
        if filt and not any(f in m["id"] or f == m["prop"] for f in filt):
            continue
        if only and m["id"] not in only:
            continue
        t0 = time.time()
        try:
            ok_apply = True
            if m.get("patch"):
                r0 = sh(["git", "-C", REPO, "apply", m["patch"]])
                if r0.returncode != 0:
                    print("%-44s BROKEN-MUTANT: seeded patch does not apply: %s" % (m["id"], r0.stdout[-200:]))
                    ok_apply = False
            for ed in m["edits"]:
                p = os.path.join(REPO, ed["file"])
                s = open(p).read()
                if s.count(ed["old"]) != ed.get("count", 1):
                    print("%-44s BROKEN-MUTANT: pattern occurs %d times in %s" % (m["id"], s.count(ed["old"]), ed["file"]))
                    ok_apply = False
                    break
                s = s.replace(ed["old"], ed["new"])
                open(p, "w").write(s)
            if not ok_apply:
                results.append((m["id"], False))
                continue
            tu = m.get("tu") or [e["file"] for e in m["edits"] if e["file"].endswith(".cpp")]
            comp = True
            for t in tu:
                r = sh(["clang++"] + FLAGS + [os.path.join(REPO, t)])
                if r.returncode != 0:
                    print("%-44s BROKEN-MUTANT: does not compile: %s" % (m["id"], r.stdout[-400:]))
                    comp = False
            if not comp:
                results.append((m["id"], False))
                continue
            r = sh([os.path.join(VERIF, "check"), m["prop"], "--tier", "quick"], cwd=VERIF)
            fired = r.returncode == 1 and "VIOLATION property=%s" % m["prop"] in r.stdout
            broken = r.returncode == 2
            if m["expect"] == "fire":
                good = fired and all(x in r.stdout for x in m.get("mention", []))
            elif m["expect"] == "broken":
                good = broken
            else:
                good = r.returncode == 0
            lines = [l for l in r.stdout.splitlines() if ": rule " in l or "ANALYSIS-BROKEN" in l]
            print("%-44s %-6s expect=%-6s rc=%d %.1fs %s" % (m["id"], "ok" if good else "FAIL", m["expect"], r.returncode, time.time() - t0,
                                                           (lines[0][:150] if lines else "")))
            results.append((m["id"], good))
        finally:
            sh(["git", "-C", REPO, "checkout", "--", "."])
    bad = [i for i, g in results if not g]
    print("%d mutants, %d as expected, %d not: %s" % (len(results), len(results) - len(bad), len(bad), bad))
    return 1 if bad else 0


if __name__ == "__main__":
    sys.exit(main())
