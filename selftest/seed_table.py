#!/usr/bin/env python3
"""Prints the markdown table of seeded changes (seeded/*/meta.json + seeded/FIRST_CONTACT.json) used in DESIGN.md §8."""
import json, os, glob
V = os.path.dirname(os.path.dirname(os.path.abspath(__file__)))
fc = json.load(open(os.path.join(V, "seeded", "FIRST_CONTACT.json")))
rows = []
n_first = 0
for d in sorted(glob.glob(os.path.join(V, "seeded", "*", "meta.json"))):
    m = json.load(open(d))
    sid = os.path.basename(os.path.dirname(d))
    f = fc.get(sid, {})
    first = f.get("first_contact", "?")
    if first.startswith("caught"):
        n_first += 1
    now = "; ".join("%s %s" % (p, "/".join(v["rules"])) for p, v in m["detected_by"].items() if v["exit"] == 1) or "NOT CAUGHT"
    files = ", ".join(os.path.basename(x) for x in m["files_touched"])
    rows.append("| %s | %s | %s | %s | %s |" % (sid, m["breaks_property"], files, first.split(";")[0][:60], now))
print("| seed | property | file(s) touched | first contact | caught now by |")
print("|------|----------|-----------------|---------------|---------------|")
print("\n".join(rows))
print("\nFirst contact: %d of %d caught." % (n_first, len(rows)))
