#!/bin/sh
# usage: selftest/try_seed.sh <patch.diff> <Cnn> [<Cnn> ...]   applies a seeded change to /repo, runs the checks, reverts.
P="$1"; shift
cd /repo || exit 2
if [ -n "$(git status --porcelain --untracked-files=no)" ]; then echo "repo dirty"; exit 2; fi
git apply "$P" || { echo "patch does not apply"; exit 2; }
for c in "$@"; do
  (cd /verif && ./check $c --tier quick > /tmp/try_seed_$c.log 2>&1; echo "$c rc=$?"; grep -E ": rule |VIOLATION|ANALYSIS-BROKEN" /tmp/try_seed_$c.log | head -4)
done
git -C /repo checkout -- .
