// adaptafacts: a libTooling serializer of the type-resolved program.
//
// For one translation unit it writes a JSON file with
//   * every function *definition* located under --root (main file and repo
//     headers; template patterns and implicit instantiations both), as a
//     compact syntax tree with resolved callees / referenced declarations /
//     types, plus clang's CFG for the body (setAllAlwaysAdd, no EH edges);
//   * every C++ record definition located under --root: bases, fields,
//     constructors (implicit ones too, with their used/defaulted flags),
//     destructor;
//   * every enum located under --root with its enumerators;
//   * namespace-scope / static variables located under --root.
// All rules live in Python (engine/); this tool only serializes what clang
// resolved.  Strings (types, qualified names, files) are interned in a table.
//
// Usage: adaptafacts --root=/repo/cola --out=unit.json file.cpp -- <flags>

#include "clang/AST/ASTConsumer.h"
#include "clang/AST/ASTContext.h"
#include "clang/AST/DeclCXX.h"
#include "clang/AST/DeclTemplate.h"
#include "clang/AST/ExprCXX.h"
#include "clang/AST/RecursiveASTVisitor.h"
#include "clang/AST/StmtCXX.h"
#include "clang/Analysis/CFG.h"
#include "clang/Frontend/CompilerInstance.h"
#include "clang/Frontend/FrontendAction.h"
#include "clang/Lex/Lexer.h"
#include "clang/Tooling/CommonOptionsParser.h"
#include "clang/Tooling/Tooling.h"
#include "llvm/Support/CommandLine.h"
#include "llvm/Support/raw_ostream.h"

#include <fstream>
#include <map>
#include <set>
#include <sstream>
#include <string>
#include <vector>

using namespace clang;

static llvm::cl::OptionCategory Cat("adaptafacts options");
static llvm::cl::opt<std::string> Root("root", llvm::cl::desc("repository root; only declarations under it are dumped"), llvm::cl::cat(Cat), llvm::cl::init("/repo/cola"));
static llvm::cl::opt<std::string> Out("out", llvm::cl::desc("output JSON file"), llvm::cl::cat(Cat), llvm::cl::init("-"));

namespace {

static std::string jsonEscape(llvm::StringRef s)
{
    std::string o;
    o.reserve(s.size() + 2);
    for (unsigned char c : s)
    {
        switch (c)
        {
            case '"': o += "\\\""; break;
            case '\\': o += "\\\\"; break;
            case '\n': o += "\\n"; break;
            case '\r': o += "\\r"; break;
            case '\t': o += "\\t"; break;
            default:
                if (c < 0x20 || c >= 0x7f)
                {
                    char buf[8];
                    snprintf(buf, sizeof buf, "\\u%04x", c);
                    o += buf;
                }
                else
                {
                    o += (char) c;
                }
        }
    }
    return o;
}

class Dumper
{
public:
    Dumper(ASTContext &ctx) : Ctx(ctx), SM(ctx.getSourceManager()), PP(ctx.getLangOpts())
    {
        PP.SuppressTagKeyword = true;
        PP.Bool = true;
        PP.SuppressUnwrittenScope = false;
        PP.FullyQualifiedName = true;
    }

    ASTContext &Ctx;
    SourceManager &SM;
    PrintingPolicy PP;
    std::ostringstream os;

    std::map<std::string, int> strIdx;
    std::vector<std::string> strs;
    std::map<const Stmt *, int> stmtId;
    std::map<const Decl *, int> declId;
    int nextStmt = 1;

    int S(const std::string &s)
    {
        auto it = strIdx.find(s);
        if (it != strIdx.end()) return it->second;
        int i = (int) strs.size();
        strs.push_back(s);
        strIdx[s] = i;
        return i;
    }
    int T(QualType t)
    {
        if (t.isNull()) return S("<null>");
        return S(t.getCanonicalType().getAsString(PP));
    }
    int D(const Decl *d)
    {
        if (!d) return 0;
        d = d->getCanonicalDecl();
        auto it = declId.find(d);
        if (it != declId.end()) return it->second;
        int i = (int) declId.size() + 1;
        declId[d] = i;
        return i;
    }
    int idOf(const Stmt *s)
    {
        auto it = stmtId.find(s);
        if (it != stmtId.end()) return it->second;
        int i = nextStmt++;
        stmtId[s] = i;
        return i;
    }

    bool underRoot(SourceLocation loc)
    {
        if (loc.isInvalid()) return false;
        SourceLocation e = SM.getExpansionLoc(loc);
        llvm::StringRef f = SM.getFilename(e);
        if (f.empty()) return false;
        std::string fs = f.str();
        llvm::SmallString<256> real(fs);
        if (auto fe = SM.getFileEntryForID(SM.getFileID(e)))
        {
            llvm::StringRef rp = fe->tryGetRealPathName();
            if (!rp.empty()) fs = rp.str();
        }
        return fs.compare(0, Root.size(), Root) == 0;
    }
    std::string fileOf(SourceLocation loc)
    {
        SourceLocation e = SM.getExpansionLoc(loc);
        if (auto fe = SM.getFileEntryForID(SM.getFileID(e)))
        {
            llvm::StringRef rp = fe->tryGetRealPathName();
            if (!rp.empty()) return rp.str();
        }
        return SM.getFilename(e).str();
    }
    void loc(SourceLocation l)
    {
        SourceLocation e = SM.getExpansionLoc(l);
        os << "\"l\":" << SM.getExpansionLineNumber(e) << ",\"c\":" << SM.getExpansionColumnNumber(e);
    }
    // Outermost macro a location was expanded from ("" if none).
    std::string macroOf(SourceLocation l)
    {
        if (!l.isMacroID()) return "";
        SourceLocation cur = l;
        while (true)
        {
            SourceLocation caller = SM.getImmediateMacroCallerLoc(cur);
            if (!caller.isMacroID()) break;
            cur = caller;
        }
        // cur is a macro location whose caller is a file location.
        if (SM.isMacroArgExpansion(cur))
        {
            // argument of the outermost macro: its expansion range begins at the macro name
            SourceLocation exp = SM.getImmediateExpansionRange(cur).getBegin();
            llvm::StringRef n = Lexer::getImmediateMacroName(cur, SM, Ctx.getLangOpts());
            (void) exp;
            return n.str();
        }
        return Lexer::getImmediateMacroName(cur, SM, Ctx.getLangOpts()).str();
    }

    std::string qname(const NamedDecl *nd)
    {
        if (!nd) return "";
        std::string s;
        llvm::raw_string_ostream ro(s);
        nd->getNameForDiagnostic(ro, PP, true);
        ro.flush();
        return s;
    }
    // A cross-TU key for a function: qualified name with template args + parameter types.
    std::string fkey(const FunctionDecl *fd)
    {
        std::string s = qname(fd);
        s += "(";
        bool first = true;
        for (const ParmVarDecl *p : fd->parameters())
        {
            if (!first) s += ",";
            first = false;
            s += p->getType().getCanonicalType().getAsString(PP);
        }
        if (fd->isVariadic()) s += (first ? "..." : ",...");
        s += ")";
        if (auto *md = dyn_cast<CXXMethodDecl>(fd))
            if (md->isConst()) s += " const";
        return s;
    }

    // ------------------------------------------------------------------ stmts
    void child(const char *role, const Stmt *s)
    {
        if (!s) return;
        os << ",\"" << role << "\":";
        stmt(s);
    }

    void varDecl(const VarDecl *vd)
    {
        os << "{\"k\":\"VarDecl\",\"did\":" << D(vd) << ",\"name\":\"" << jsonEscape(vd->getName()) << "\",";
        loc(vd->getLocation());
        os << ",\"t\":" << T(vd->getType());
        os << ",\"tw\":" << S(vd->getType().getAsString(PP));
        if (vd->isStaticLocal()) os << ",\"static\":1";
        if (isa<ParmVarDecl>(vd)) os << ",\"parm\":1";
        if (vd->hasInit())
        {
            os << ",\"init\":";
            stmt(vd->getInit());
            os << ",\"istyle\":" << (int) vd->getInitStyle();
        }
        os << "}";
    }

    void refDecl(const ValueDecl *vd)
    {
        if (!vd) return;
        os << ",\"rk\":\"" << vd->getDeclKindName() << "\"";
        os << ",\"did\":" << D(vd);
        if (auto *ec = dyn_cast<EnumConstantDecl>(vd))
            os << ",\"ev\":\"" << llvm::toString(ec->getInitVal(), 10) << "\"";
        if (auto *fd = dyn_cast<FunctionDecl>(vd))
            os << ",\"ref\":" << S(fkey(fd));
        else if (auto *nd = dyn_cast<NamedDecl>(vd))
        {
            if (isa<ParmVarDecl>(vd) || (isa<VarDecl>(vd) && cast<VarDecl>(vd)->isLocalVarDecl()))
                os << ",\"ref\":" << S(nd->getNameAsString());
            else
                os << ",\"ref\":" << S(qname(nd));
        }
    }

    void stmt(const Stmt *s)
    {
        if (!s)
        {
            os << "null";
            return;
        }
        os << "{\"k\":\"" << s->getStmtClassName() << "\",\"id\":" << idOf(s) << ",";
        loc(s->getBeginLoc());
        std::string mac = macroOf(s->getBeginLoc());
        if (!mac.empty()) os << ",\"mac\":" << S(mac);
        bool generic = true;
        if (auto *e = dyn_cast<Expr>(s))
        {
            os << ",\"t\":" << T(e->getType());
            if (e->isLValue()) os << ",\"lv\":1";
        }
        if (auto *dre = dyn_cast<DeclRefExpr>(s))
        {
            refDecl(dre->getDecl());
        }
        else if (auto *me = dyn_cast<MemberExpr>(s))
        {
            refDecl(me->getMemberDecl());
            if (me->isArrow()) os << ",\"arrow\":1";
            if (me->hasQualifier()) os << ",\"qual\":1";      // Base::f(): a qualified member call is never dispatched virtually
        }
        else if (auto *ce = dyn_cast<CallExpr>(s))
        {
            if (const FunctionDecl *fd = ce->getDirectCallee())
            {
                os << ",\"callee\":" << S(fkey(fd));
                os << ",\"cname\":" << S(qname(fd));
                if (auto *md = dyn_cast<CXXMethodDecl>(fd))
                    if (md->isVirtual()) os << ",\"virt\":1";
                if (fd->isNoReturn()) os << ",\"noret\":1";
            }
            if (auto *oc = dyn_cast<CXXOperatorCallExpr>(s))
                os << ",\"op\":\"" << getOperatorSpelling(oc->getOperator()) << "\"";
        }
        else if (auto *ce = dyn_cast<CXXConstructExpr>(s))
        {
            if (const CXXConstructorDecl *cd = ce->getConstructor())
            {
                os << ",\"callee\":" << S(fkey(cd));
                os << ",\"cname\":" << S(qname(cd->getParent()));
                if (cd->isCopyOrMoveConstructor()) os << ",\"copy\":1";
                if (cd->isImplicit()) os << ",\"implicit\":1";
                if (cd->isDefaultConstructor()) os << ",\"defctor\":1";
            }
            if (ce->isElidable()) os << ",\"elidable\":1";
        }
        else if (auto *bo = dyn_cast<BinaryOperator>(s))
        {
            os << ",\"op\":\"" << bo->getOpcodeStr().str() << "\"";
        }
        else if (auto *uo = dyn_cast<UnaryOperator>(s))
        {
            os << ",\"op\":\"" << UnaryOperator::getOpcodeStr(uo->getOpcode()).str() << "\"";
            if (uo->isPostfix()) os << ",\"postfix\":1";
        }
        else if (auto *il = dyn_cast<IntegerLiteral>(s))
        {
            os << ",\"v\":\"" << llvm::toString(il->getValue(), 10, il->getType()->isSignedIntegerType()) << "\"";
        }
        else if (auto *fl = dyn_cast<FloatingLiteral>(s))
        {
            llvm::SmallString<32> buf;
            fl->getValue().toString(buf);
            os << ",\"v\":\"" << buf.c_str() << "\"";
        }
        else if (auto *bl = dyn_cast<CXXBoolLiteralExpr>(s))
        {
            os << ",\"v\":\"" << (bl->getValue() ? "true" : "false") << "\"";
        }
        else if (auto *sl = dyn_cast<clang::StringLiteral>(s))
        {
            if (sl->isAscii() || sl->isUTF8()) os << ",\"v\":\"" << jsonEscape(sl->getString()) << "\"";
        }
        else if (auto *cl = dyn_cast<CharacterLiteral>(s))
        {
            os << ",\"v\":\"" << cl->getValue() << "\"";
        }
        else if (auto *ce = dyn_cast<CastExpr>(s))
        {
            os << ",\"ck\":\"" << ce->getCastKindName() << "\"";
        }
        else if (auto *ne = dyn_cast<CXXNewExpr>(s))
        {
            os << ",\"at\":" << T(ne->getAllocatedType());
            if (ne->isArray()) os << ",\"arr\":1";
        }
        else if (auto *de = dyn_cast<CXXDeleteExpr>(s))
        {
            if (de->isArrayForm()) os << ",\"arr\":1";
            os << ",\"dt\":" << T(de->getDestroyedType());
        }
        else if (auto *ue = dyn_cast<UnaryExprOrTypeTraitExpr>(s))
        {
            os << ",\"trait\":" << (int) ue->getKind();
            if (ue->isArgumentType()) os << ",\"at\":" << T(ue->getArgumentType());
        }
        else if (auto *ule = dyn_cast<UnresolvedLookupExpr>(s))
        {
            os << ",\"name\":\"" << jsonEscape(ule->getName().getAsString()) << "\"";
        }
        else if (auto *dme = dyn_cast<CXXDependentScopeMemberExpr>(s))
        {
            os << ",\"name\":\"" << jsonEscape(dme->getMember().getAsString()) << "\"";
        }
        else if (auto *ume = dyn_cast<UnresolvedMemberExpr>(s))
        {
            os << ",\"name\":\"" << jsonEscape(ume->getMemberName().getAsString()) << "\"";
        }
        else if (auto *ls = dyn_cast<LabelStmt>(s))
        {
            os << ",\"name\":\"" << jsonEscape(ls->getName()) << "\"";
        }
        else if (auto *gs = dyn_cast<GotoStmt>(s))
        {
            os << ",\"name\":\"" << jsonEscape(gs->getLabel()->getName()) << "\"";
        }
        // ---------------- structured statements with named roles
        if (auto *is = dyn_cast<IfStmt>(s))
        {
            generic = false;
            child("init", is->getInit());
            if (is->getConditionVariable())
            {
                os << ",\"var\":";
                varDecl(is->getConditionVariable());
            }
            child("cond", is->getCond());
            child("then", is->getThen());
            child("else", is->getElse());
        }
        else if (auto *fs = dyn_cast<ForStmt>(s))
        {
            generic = false;
            child("init", fs->getInit());
            child("cond", fs->getCond());
            child("inc", fs->getInc());
            child("body", fs->getBody());
        }
        else if (auto *ws = dyn_cast<WhileStmt>(s))
        {
            generic = false;
            child("cond", ws->getCond());
            child("body", ws->getBody());
        }
        else if (auto *ds = dyn_cast<DoStmt>(s))
        {
            generic = false;
            child("body", ds->getBody());
            child("cond", ds->getCond());
        }
        else if (auto *ss = dyn_cast<SwitchStmt>(s))
        {
            generic = false;
            child("init", ss->getInit());
            child("cond", ss->getCond());
            child("body", ss->getBody());
        }
        else if (auto *cs = dyn_cast<CaseStmt>(s))
        {
            generic = false;
            child("lhs", cs->getLHS());
            child("rhs", cs->getRHS());
            child("sub", cs->getSubStmt());
            // evaluated case value
            Expr::EvalResult er;
            if (cs->getLHS() && !cs->getLHS()->isValueDependent() && cs->getLHS()->EvaluateAsInt(er, Ctx))
                os << ",\"val\":\"" << llvm::toString(er.Val.getInt(), 10) << "\"";
        }
        else if (auto *dfs = dyn_cast<DefaultStmt>(s))
        {
            generic = false;
            child("sub", dfs->getSubStmt());
        }
        else if (auto *fr = dyn_cast<CXXForRangeStmt>(s))
        {
            generic = false;
            if (fr->getLoopVariable())
            {
                os << ",\"var\":";
                varDecl(fr->getLoopVariable());
            }
            child("range", fr->getRangeInit());
            child("body", fr->getBody());
        }
        else if (auto *ts = dyn_cast<CXXTryStmt>(s))
        {
            generic = false;
            child("try", ts->getTryBlock());
            os << ",\"handlers\":[";
            for (unsigned i = 0; i < ts->getNumHandlers(); ++i)
            {
                if (i) os << ",";
                stmt(ts->getHandler(i));
            }
            os << "]";
        }
        else if (auto *cs2 = dyn_cast<CXXCatchStmt>(s))
        {
            generic = false;
            if (cs2->getExceptionDecl())
            {
                os << ",\"var\":";
                varDecl(cs2->getExceptionDecl());
            }
            os << ",\"ct\":" << T(cs2->getCaughtType());
            child("body", cs2->getHandlerBlock());
        }
        else if (auto *dcl = dyn_cast<DeclStmt>(s))
        {
            generic = false;
            os << ",\"decls\":[";
            bool first = true;
            for (const Decl *d : dcl->decls())
            {
                if (auto *vd = dyn_cast<VarDecl>(d))
                {
                    if (!first) os << ",";
                    first = false;
                    varDecl(vd);
                }
            }
            os << "]";
        }
        else if (auto *le = dyn_cast<LambdaExpr>(s))
        {
            generic = false;
            os << ",\"captures\":[";
            bool first = true;
            for (const LambdaCapture &c : le->captures())
            {
                if (!first) os << ",";
                first = false;
                os << "{\"byref\":" << (c.getCaptureKind() == LCK_ByRef ? 1 : 0);
                if (c.capturesVariable())
                    os << ",\"did\":" << D(c.getCapturedVar()) << ",\"name\":\"" << jsonEscape(c.getCapturedVar()->getName()) << "\"";
                else if (c.capturesThis())
                    os << ",\"this\":1";
                os << "}";
            }
            os << "]";
            if (const CXXMethodDecl *op = le->getCallOperator())
            {
                os << ",\"params\":[";
                bool f2 = true;
                for (const ParmVarDecl *p : op->parameters())
                {
                    if (!f2) os << ",";
                    f2 = false;
                    varDecl(p);
                }
                os << "]";
                os << ",\"opkey\":" << S(fkey(op));
            }
            child("body", le->getBody());
        }
        else if (auto *dae = dyn_cast<CXXDefaultArgExpr>(s))
        {
            generic = false;
            child("expr", dae->getExpr());
        }
        else if (auto *die = dyn_cast<CXXDefaultInitExpr>(s))
        {
            generic = false;
            (void) die;
        }
        else if (auto *me2 = dyn_cast<MaterializeTemporaryExpr>(s))
        {
            (void) me2;
        }
        if (generic)
        {
            bool any = false;
            for (const Stmt *c : s->children())
            {
                if (!any)
                {
                    os << ",\"ch\":[";
                    any = true;
                }
                else
                    os << ",";
                stmt(c);
            }
            if (any) os << "]";
        }
        os << "}";
    }

    // -------------------------------------------------------------------- CFG
    void cfg(const FunctionDecl *fd)
    {
        CFG::BuildOptions bo;
        bo.setAllAlwaysAdd();
        bo.AddInitializers = true;
        bo.AddImplicitDtors = false;
        bo.AddTemporaryDtors = false;
        bo.AddEHEdges = false;
        bo.PruneTriviallyFalseEdges = false;
        std::unique_ptr<CFG> g = CFG::buildCFG(fd, fd->getBody(), &Ctx, bo);
        if (!g)
        {
            os << "null";
            return;
        }
        os << "{\"entry\":" << g->getEntry().getBlockID() << ",\"exit\":" << g->getExit().getBlockID() << ",\"blocks\":[";
        bool firstB = true;
        for (const CFGBlock *b : *g)
        {
            if (!b) continue;
            if (!firstB) os << ",";
            firstB = false;
            os << "{\"id\":" << b->getBlockID() << ",\"el\":[";
            bool fe = true;
            for (const CFGElement &el : *b)
            {
                if (auto cs = el.getAs<CFGStmt>())
                {
                    const Stmt *st = cs->getStmt();
                    int id = -1;
                    auto it = stmtId.find(st);
                    if (it != stmtId.end())
                        id = it->second;
                    else if (auto *ds = dyn_cast<DeclStmt>(st))
                    {
                        // synthesized single-decl DeclStmt: refer to the VarDecl
                        if (ds->isSingleDecl())
                            if (auto *vd = dyn_cast<VarDecl>(ds->getSingleDecl()))
                                id = -D(vd) - 1000000; // negative: -(did+1000000)
                    }
                    if (!fe) os << ",";
                    fe = false;
                    os << id;
                }
                else if (auto ci = el.getAs<CFGInitializer>())
                {
                    const CXXCtorInitializer *in = ci->getInitializer();
                    if (!fe) os << ",";
                    fe = false;
                    // initializer elements: encoded as a string "I:<field or base>"
                    std::string nm = "I:";
                    if (in->isAnyMemberInitializer())
                        nm += in->getAnyMember()->getNameAsString();
                    else if (in->isBaseInitializer())
                        nm += "base:" + QualType(in->getBaseClass(), 0).getCanonicalType().getAsString(PP);
                    else
                        nm += "delegating";
                    os << "\"" << jsonEscape(nm) << "\"";
                }
            }
            os << "]";
            if (const Stmt *t = b->getTerminatorStmt())
            {
                auto it = stmtId.find(t);
                os << ",\"term\":" << (it != stmtId.end() ? it->second : -1);
            }
            if (const Stmt *tc = b->getTerminatorCondition())
            {
                auto it = stmtId.find(tc);
                os << ",\"tcond\":" << (it != stmtId.end() ? it->second : -1);
            }
            if (const Stmt *lab = b->getLabel())
            {
                auto it = stmtId.find(lab);
                os << ",\"label\":" << (it != stmtId.end() ? it->second : -1);
            }
            if (b->hasNoReturnElement()) os << ",\"noret\":1";
            os << ",\"succ\":[";
            bool fs = true;
            for (auto si = b->succ_begin(); si != b->succ_end(); ++si)
            {
                if (!fs) os << ",";
                fs = false;
                const CFGBlock *sb = si->getReachableBlock();
                if (sb)
                    os << sb->getBlockID();
                else if (const CFGBlock *pb = si->getPossiblyUnreachableBlock())
                    os << -(int) pb->getBlockID() - 1; // unreachable edge: -(id+1)
                else
                    os << "null";
            }
            os << "]}";
        }
        os << "]}";
    }

    // -------------------------------------------------------------- functions
    std::set<const FunctionDecl *> doneFuncs;
    std::vector<std::string> funcJson;
    std::vector<std::string> recordJson;
    std::vector<std::string> enumJson;
    std::vector<std::string> varJson;

    void function(const FunctionDecl *fd, const char *tmplKind)
    {
        if (!fd->doesThisDeclarationHaveABody()) return;
        if (!fd->getBody()) return;
        if (!underRoot(fd->getLocation())) return;
        if (!doneFuncs.insert(fd).second) return;
        os.str("");
        os.clear();
        os << "{\"key\":" << S(fkey(fd)) << ",\"q\":" << S(qname(fd)) << ",\"name\":\"" << jsonEscape(fd->getNameAsString()) << "\"";
        os << ",\"file\":" << S(fileOf(fd->getLocation())) << ",";
        loc(fd->getLocation());
        os << ",\"endl\":" << SM.getExpansionLineNumber(fd->getEndLoc());
        os << ",\"ret\":" << T(fd->getReturnType());
        os << ",\"tmpl\":\"" << tmplKind << "\"";
        if (fd->isStatic()) os << ",\"static\":1";
        if (fd->isDefaulted()) os << ",\"defaulted\":1";
        if (fd->isInlined()) os << ",\"inline\":1";
        if (auto *md = dyn_cast<CXXMethodDecl>(fd))
        {
            os << ",\"cls\":" << S(qname(md->getParent()));
            if (md->isVirtual()) os << ",\"virtual\":1";
            if (md->isConst()) os << ",\"const\":1";
            if (md->isStatic()) os << ",\"smethod\":1";
            os << ",\"overrides\":[";
            bool fo = true;
            for (const CXXMethodDecl *o : md->overridden_methods())
            {
                if (!fo) os << ",";
                fo = false;
                os << S(fkey(o));
            }
            os << "]";
            if (isa<CXXConstructorDecl>(md))
                os << ",\"kind\":\"ctor\"";
            else if (isa<CXXDestructorDecl>(md))
                os << ",\"kind\":\"dtor\"";
            else if (isa<CXXConversionDecl>(md))
                os << ",\"kind\":\"conv\"";
            else
                os << ",\"kind\":\"method\"";
            if (md->isOverloadedOperator()) os << ",\"opname\":\"" << getOperatorSpelling(md->getOverloadedOperator()) << "\"";
        }
        else
        {
            os << ",\"kind\":\"function\"";
            if (fd->isOverloadedOperator()) os << ",\"opname\":\"" << getOperatorSpelling(fd->getOverloadedOperator()) << "\"";
        }
        os << ",\"params\":[";
        bool fp = true;
        for (const ParmVarDecl *p : fd->parameters())
        {
            if (!fp) os << ",";
            fp = false;
            os << "{\"k\":\"VarDecl\",\"parm\":1,\"did\":" << D(p) << ",\"name\":\"" << jsonEscape(p->getName()) << "\",\"t\":" << T(p->getType());
            if (p->hasDefaultArg() && !p->hasUninstantiatedDefaultArg() && !p->hasUnparsedDefaultArg() && p->getDefaultArg())
            {
                os << ",\"defarg\":";
                stmt(p->getDefaultArg());
            }
            os << "}";
        }
        os << "]";
        if (auto *cd = dyn_cast<CXXConstructorDecl>(fd))
        {
            os << ",\"inits\":[";
            bool fi = true;
            for (const CXXCtorInitializer *in : cd->inits())
            {
                if (!fi) os << ",";
                fi = false;
                os << "{\"written\":" << (in->isWritten() ? 1 : 0);
                if (in->isAnyMemberInitializer())
                    os << ",\"member\":\"" << jsonEscape(in->getAnyMember()->getNameAsString()) << "\",\"mq\":" << S(qname(in->getAnyMember()));
                else if (in->isBaseInitializer())
                    os << ",\"base\":" << S(QualType(in->getBaseClass(), 0).getCanonicalType().getAsString(PP));
                else if (in->isDelegatingInitializer())
                    os << ",\"delegating\":1";
                if (in->isInClassMemberInitializer()) os << ",\"inclass\":1";
                os << ",\"expr\":";
                stmt(in->getInit());
                os << "}";
            }
            os << "]";
        }
        os << ",\"body\":";
        stmt(fd->getBody());
        os << ",\"cfg\":";
        cfg(fd);
        os << "}";
        funcJson.push_back(os.str());
    }

    static const char *scalarKind(QualType t)
    {
        t = t.getCanonicalType();
        if (t->isBooleanType()) return "bool";
        if (t->isEnumeralType()) return "enum";
        if (t->isAnyPointerType() || t->isMemberPointerType() || t->isNullPtrType()) return "pointer";
        if (t->isIntegerType()) return "int";
        if (t->isFloatingType()) return "float";
        if (t->isReferenceType()) return "ref";
        if (t->isArrayType()) return "array";
        if (t->isRecordType()) return "record";
        return "other";
    }

    std::set<const CXXRecordDecl *> doneRecs;
    void record(const CXXRecordDecl *rd, const char *tmplKind)
    {
        if (!rd->isThisDeclarationADefinition()) return;
        if (!underRoot(rd->getLocation())) return;
        if (rd->isLambda()) return;
        if (!doneRecs.insert(rd).second) return;
        os.str("");
        os.clear();
        os << "{\"q\":" << S(qname(rd)) << ",\"file\":" << S(fileOf(rd->getLocation())) << ",";
        loc(rd->getLocation());
        os << ",\"tmpl\":\"" << tmplKind << "\"";
        os << ",\"tag\":\"" << rd->getKindName().str() << "\"";
        if (rd->isDependentContext())
        {
            os << ",\"dependent\":1";
        }
        else
        {
            if (rd->isPOD()) os << ",\"pod\":1";
            if (rd->isAggregate()) os << ",\"aggregate\":1";
            if (rd->isAbstract()) os << ",\"abstract\":1";
            if (rd->isPolymorphic()) os << ",\"polymorphic\":1";
            os << ",\"userdtor\":" << (rd->hasUserDeclaredDestructor() ? 1 : 0);
            os << ",\"usercopy\":" << (rd->hasUserDeclaredCopyConstructor() ? 1 : 0);
            os << ",\"usercopyassign\":" << (rd->hasUserDeclaredCopyAssignment() ? 1 : 0);
            os << ",\"userctor\":" << (rd->hasUserDeclaredConstructor() ? 1 : 0);
        }
        os << ",\"bases\":[";
        bool fb = true;
        if (!rd->isDependentContext() || true)
        {
            for (const CXXBaseSpecifier &b : rd->bases())
            {
                if (!fb) os << ",";
                fb = false;
                os << S(b.getType().getCanonicalType().getAsString(PP));
            }
        }
        os << "],\"fields\":[";
        bool ff = true;
        for (const FieldDecl *f : rd->fields())
        {
            if (!ff) os << ",";
            ff = false;
            os << "{\"name\":\"" << jsonEscape(f->getName()) << "\",\"q\":" << S(qname(f)) << ",\"t\":" << T(f->getType()) << ",\"sk\":\"" << scalarKind(f->getType()) << "\",";
            loc(f->getLocation());
            if (f->hasInClassInitializer()) os << ",\"inclass\":1";
            if (f->isMutable()) os << ",\"mutable\":1";
            os << ",\"access\":" << (int) f->getAccess();
            os << "}";
        }
        os << "],\"statics\":[";
        bool fs = true;
        for (const Decl *d : rd->decls())
        {
            if (auto *vd = dyn_cast<VarDecl>(d))
            {
                if (!fs) os << ",";
                fs = false;
                os << "{\"name\":\"" << jsonEscape(vd->getName()) << "\",\"q\":" << S(qname(vd)) << ",\"t\":" << T(vd->getType()) << "}";
            }
        }
        os << "],\"ctors\":[";
        bool fc = true;
        for (const CXXConstructorDecl *c : rd->ctors())
        {
            if (!fc) os << ",";
            fc = false;
            os << "{\"key\":" << S(fkey(c)) << ",";
            loc(c->getLocation());
            os << ",\"implicit\":" << (c->isImplicit() ? 1 : 0) << ",\"defaulted\":" << (c->isDefaulted() ? 1 : 0) << ",\"deleted\":" << (c->isDeleted() ? 1 : 0) << ",\"copy\":" << (c->isCopyConstructor() ? 1 : 0) << ",\"move\":" << (c->isMoveConstructor() ? 1 : 0) << ",\"default\":" << (c->isDefaultConstructor() ? 1 : 0) << ",\"used\":" << (c->isUsed() ? 1 : 0) << ",\"hasbody\":" << (c->hasBody() ? 1 : 0) << ",\"access\":" << (int) c->getAccess() << "}";
        }
        os << "],\"methods\":[";
        bool fm = true;
        for (const CXXMethodDecl *m : rd->methods())
        {
            if (isa<CXXConstructorDecl>(m)) continue;
            if (!fm) os << ",";
            fm = false;
            os << "{\"key\":" << S(fkey(m)) << ",\"name\":\"" << jsonEscape(m->getNameAsString()) << "\",\"implicit\":" << (m->isImplicit() ? 1 : 0) << ",\"virtual\":" << (m->isVirtual() ? 1 : 0) << ",\"pure\":" << (m->isPure() ? 1 : 0) << ",\"used\":" << (m->isUsed() ? 1 : 0) << ",\"copyassign\":" << (m->isCopyAssignmentOperator() ? 1 : 0) << ",\"dtor\":" << (isa<CXXDestructorDecl>(m) ? 1 : 0) << ",\"access\":" << (int) m->getAccess();
            os << ",\"overrides\":[";
            bool fo = true;
            for (const CXXMethodDecl *o : m->overridden_methods())
            {
                if (!fo) os << ",";
                fo = false;
                os << S(fkey(o));
            }
            os << "]}";
        }
        os << "]}";
        recordJson.push_back(os.str());
    }

    void enumDecl(const EnumDecl *ed)
    {
        if (!ed->isThisDeclarationADefinition()) return;
        if (!underRoot(ed->getLocation())) return;
        os.str("");
        os.clear();
        os << "{\"q\":" << S(qname(ed)) << ",\"file\":" << S(fileOf(ed->getLocation())) << ",";
        loc(ed->getLocation());
        os << ",\"scoped\":" << (ed->isScoped() ? 1 : 0) << ",\"enumerators\":[";
        bool f = true;
        for (const EnumConstantDecl *ec : ed->enumerators())
        {
            if (!f) os << ",";
            f = false;
            os << "{\"name\":\"" << jsonEscape(ec->getName()) << "\",\"q\":" << S(qname(ec)) << ",\"v\":\"" << llvm::toString(ec->getInitVal(), 10) << "\"}";
        }
        os << "]}";
        enumJson.push_back(os.str());
    }

    void globalVar(const VarDecl *vd)
    {
        if (!underRoot(vd->getLocation())) return;
        if (vd->isLocalVarDecl() || isa<ParmVarDecl>(vd)) return;
        if (!vd->isThisDeclarationADefinition()) return;
        os.str("");
        os.clear();
        os << "{\"q\":" << S(qname(vd)) << ",\"did\":" << D(vd) << ",\"file\":" << S(fileOf(vd->getLocation())) << ",";
        loc(vd->getLocation());
        os << ",\"t\":" << T(vd->getType());
        if (vd->getType().isConstQualified()) os << ",\"const\":1";
        if (vd->hasInit() && !vd->getInit()->isValueDependent())
        {
            os << ",\"init\":";
            stmt(vd->getInit());
            Expr::EvalResult er;
            if (vd->getInit()->EvaluateAsRValue(er, Ctx))
            {
                if (er.Val.isInt())
                    os << ",\"val\":\"" << llvm::toString(er.Val.getInt(), 10) << "\"";
                else if (er.Val.isFloat())
                {
                    llvm::SmallString<32> buf;
                    er.Val.getFloat().toString(buf);
                    os << ",\"val\":\"" << buf.c_str() << "\"";
                }
            }
        }
        os << "}";
        varJson.push_back(os.str());
    }
};

class Visitor : public RecursiveASTVisitor<Visitor>
{
public:
    Visitor(Dumper &d) : Dm(d) {}
    Dumper &Dm;
    bool shouldVisitTemplateInstantiations() const { return true; }
    bool shouldVisitImplicitCode() const { return false; }

    bool VisitFunctionDecl(FunctionDecl *fd)
    {
        const char *k = "none";
        if (fd->isDependentContext())
            k = "pattern";
        else if (fd->isTemplateInstantiation())
            k = "inst";
        Dm.function(fd, k);
        return true;
    }
    bool VisitCXXRecordDecl(CXXRecordDecl *rd)
    {
        const char *k = "none";
        if (rd->isDependentContext())
            k = "pattern";
        else if (isa<ClassTemplateSpecializationDecl>(rd))
            k = "inst";
        Dm.record(rd, k);
        return true;
    }
    bool VisitEnumDecl(EnumDecl *ed)
    {
        Dm.enumDecl(ed);
        return true;
    }
    bool VisitVarDecl(VarDecl *vd)
    {
        Dm.globalVar(vd);
        return true;
    }
};

class Consumer : public ASTConsumer
{
public:
    void HandleTranslationUnit(ASTContext &ctx) override
    {
        if (ctx.getDiagnostics().hasErrorOccurred())
        {
            llvm::errs() << "adaptafacts: translation unit has errors, no output\n";
            return;
        }
        Dumper d(ctx);
        Visitor v(d);
        v.TraverseDecl(ctx.getTranslationUnitDecl());
        std::ostringstream out;
        const SourceManager &SM = ctx.getSourceManager();
        std::string mainFile;
        if (auto fe = SM.getFileEntryForID(SM.getMainFileID())) mainFile = fe->tryGetRealPathName().str();
        out << "{\"main\":\"" << jsonEscape(mainFile) << "\",\n\"functions\":[\n";
        for (size_t i = 0; i < d.funcJson.size(); ++i) out << (i ? ",\n" : "") << d.funcJson[i];
        out << "\n],\n\"records\":[\n";
        for (size_t i = 0; i < d.recordJson.size(); ++i) out << (i ? ",\n" : "") << d.recordJson[i];
        out << "\n],\n\"enums\":[\n";
        for (size_t i = 0; i < d.enumJson.size(); ++i) out << (i ? ",\n" : "") << d.enumJson[i];
        out << "\n],\n\"vars\":[\n";
        for (size_t i = 0; i < d.varJson.size(); ++i) out << (i ? ",\n" : "") << d.varJson[i];
        out << "\n],\n\"strings\":[\n";
        for (size_t i = 0; i < d.strs.size(); ++i) out << (i ? ",\n" : "") << "\"" << jsonEscape(d.strs[i]) << "\"";
        out << "\n]}\n";
        if (Out == "-")
            llvm::outs() << out.str();
        else
        {
            std::ofstream f(Out.getValue() + ".tmp");
            f << out.str();
            f.close();
            std::rename((Out.getValue() + ".tmp").c_str(), Out.getValue().c_str());
        }
    }
};

class Action : public ASTFrontendAction
{
public:
    std::unique_ptr<ASTConsumer> CreateASTConsumer(CompilerInstance &, llvm::StringRef) override
    {
        return std::make_unique<Consumer>();
    }
};

} // namespace

int main(int argc, const char **argv)
{
    auto opts = tooling::CommonOptionsParser::create(argc, argv, Cat);
    if (!opts)
    {
        llvm::errs() << llvm::toString(opts.takeError()) << "\n";
        return 2;
    }
    tooling::ClangTool tool(opts->getCompilations(), opts->getSourcePathList());
    int rc = tool.run(tooling::newFrontendActionFactory<Action>().get());
    return rc ? 2 : 0;
}
