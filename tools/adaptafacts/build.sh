#!/bin/sh
# Builds the libTooling extractor against the pre-installed llvm-14 (offline).
set -e
cd "$(dirname "$0")"
if [ adaptafacts -nt adaptafacts.cc ]; then exit 0; fi
clang++ $(llvm-config-14 --cxxflags) -fno-rtti -O1 adaptafacts.cc -o adaptafacts.tmp \
  /usr/lib/llvm-14/lib/libclang-cpp.so.14 /usr/lib/llvm-14/lib/libLLVM-14.so
mv adaptafacts.tmp adaptafacts
