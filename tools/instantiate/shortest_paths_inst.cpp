// Analysis driver (never linked or run): explicitly instantiates the shortest-path templates of
// libcola/shortest_paths.h for T = double, so that the extractor sees type-resolved bodies of the routines that
// the library itself does not instantiate (floyd_warshall, neighbours).  The bodies come from /repo's header.
#include <vector>
#include <valarray>
#include <limits>
#include <cfloat>
#include <cassert>
#include "libvpsc/assertions.h"
#include "libvpsc/pairing_heap.h"
#include "libcola/shortest_paths.h"

template void shortest_paths::floyd_warshall<double>(unsigned const, double**, std::vector<shortest_paths::Edge> const&, std::valarray<double> const&);
template void shortest_paths::neighbours<double>(unsigned const, double**, std::vector<shortest_paths::Edge> const&, std::valarray<double> const&);
template void shortest_paths::johnsons<double>(unsigned const, double**, std::vector<shortest_paths::Edge> const&, std::valarray<double> const&);
template void shortest_paths::dijkstra<double>(unsigned const, unsigned const, double*, std::vector<shortest_paths::Edge> const&, std::valarray<double> const&);
